// Package gen generates collision-rich documents, filters, updates and
// projections for the drivers (seeded, deterministic).
package gen

import (
	"math/rand"
	"strconv"

	"go.mongodb.org/mongo-driver/bson"
	"go.mongodb.org/mongo-driver/bson/primitive"
)

// G is a seeded generator.
type G struct {
	R *rand.Rand
}

// New returns a generator for the seed.
func New(seed int64) *G { return &G{R: rand.New(rand.NewSource(seed))} }

func (g *G) N(n int) int        { return g.R.Intn(n) }
func (g *G) P(pct int) bool     { return g.R.Intn(100) < pct }
func (g *G) Pick(xs ...interface{}) interface{} { return xs[g.R.Intn(len(xs))] }
func (g *G) PickS(xs ...string) string   { return xs[g.R.Intn(len(xs))] }

func dec(s string) primitive.Decimal128 {
	d, err := primitive.ParseDecimal128(s)
	if err != nil {
		panic(err)
	}
	return d
}

var oid1, _ = primitive.ObjectIDFromHex("5f00000000000000000000a1")
var oid2, _ = primitive.ObjectIDFromHex("5f00000000000000000000a2")

// Numbers is the collision-rich numeric pool (equal values of different kinds).
var Numbers = []interface{}{int32(0), int32(1), int32(2), int32(3), int32(-1), int32(5), int32(6), int32(7), int32(10),
	int64(1), int64(2), int64(3), int64(0), int64(12), float64(1), float64(2), float64(1.5), float64(2.5), float64(0), float64(-1), float64(3),
	dec("1"), dec("2"), dec("1.5"), dec("2.0"), dec("3")}

// Scalar returns a scalar from the pool.
func (g *G) Scalar() interface{} {
	switch g.N(20) {
	case 0, 1, 2, 3, 4, 5, 6, 7:
		return Numbers[g.N(len(Numbers))]
	case 8, 9, 10, 11:
		return g.Pick("a", "b", "ab", "", "x")
	case 12:
		return g.Pick(true, false)
	case 13, 14:
		return nil
	case 15:
		return g.Pick(oid1, oid2)
	case 16:
		return g.Pick(primitive.DateTime(1000), primitive.DateTime(2000), primitive.DateTime(-5))
	case 17:
		return g.Pick(primitive.Timestamp{T: 10, I: 1}, primitive.Timestamp{T: 10, I: 2})
	case 18:
		return g.Pick(primitive.Binary{Subtype: 0, Data: []byte{5}}, primitive.Binary{Subtype: 0, Data: []byte{1, 2}}, primitive.Binary{Subtype: 1, Data: []byte{5}})
	default:
		return g.Pick(primitive.Regex{Pattern: "a", Options: ""}, primitive.Regex{Pattern: "a", Options: "i"})
	}
}

// SimpleScalar returns a number, string, bool or null.
func (g *G) SimpleScalar() interface{} {
	switch g.N(10) {
	case 0, 1, 2, 3, 4, 5:
		return Numbers[g.N(len(Numbers))]
	case 6, 7:
		return g.Pick("a", "b", "ab", "x")
	case 8:
		return g.Pick(true, false)
	default:
		return nil
	}
}

// Keys used in generated documents.
var Keys = []string{"a", "b", "c", "d"}

// Value returns a value of bounded depth. nested controls arrays of arrays.
func (g *G) Value(depth int, nested bool) interface{} {
	if depth <= 0 {
		return g.Scalar()
	}
	switch g.N(10) {
	case 0, 1, 2, 3:
		return g.Scalar()
	case 4, 5:
		return g.SubDoc(depth - 1, nested)
	case 6, 7:
		// array of scalars
		n := g.N(4)
		a := make(bson.A, 0, n)
		for i := 0; i < n; i++ {
			a = append(a, g.Scalar())
		}
		return a
	case 8:
		// array of documents (and scalars)
		n := 1 + g.N(3)
		a := make(bson.A, 0, n)
		for i := 0; i < n; i++ {
			if g.P(75) {
				a = append(a, g.SubDoc(depth-1, nested))
			} else {
				a = append(a, g.Scalar())
			}
		}
		return a
	default:
		if !nested {
			return g.Scalar()
		}
		// array with arrays
		n := 1 + g.N(3)
		a := make(bson.A, 0, n)
		for i := 0; i < n; i++ {
			a = append(a, g.Value(depth-1, nested))
		}
		return a
	}
}

// SubDoc returns an embedded document.
func (g *G) SubDoc(depth int, nested bool) bson.D {
	n := g.N(4)
	d := bson.D{}
	used := map[string]bool{}
	for i := 0; i < n; i++ {
		k := Keys[g.N(len(Keys))]
		if used[k] {
			continue
		}
		used[k] = true
		d = append(d, bson.E{Key: k, Value: g.Value(depth, nested)})
	}
	return d
}

// Doc returns a top-level document without _id.
func (g *G) Doc(depth int, nested bool) bson.D {
	d := g.SubDoc(depth, nested)
	if len(d) == 0 && g.P(70) {
		d = append(d, bson.E{Key: "a", Value: g.Value(depth, nested)})
	}
	return d
}

// Paths used by filters, sorts, updates.
var Paths = []string{"a", "b", "c", "d", "a.b", "a.a", "b.a", "a.0", "a.1", "b.0", "a.b.c", "a.0.b", "a.b.0", "a.1.a", "c.d", "a.2", "b.b"}

// Path returns a path.
func (g *G) Path() string {
	if g.P(55) {
		return Paths[g.N(4)]
	}
	return Paths[g.N(len(Paths))]
}

// collect gathers all sub-values of a value.
func collect(v interface{}, out *[]interface{}) {
	*out = append(*out, v)
	switch x := v.(type) {
	case bson.D:
		for _, e := range x {
			collect(e.Value, out)
		}
	case bson.A:
		for _, e := range x {
			collect(e, out)
		}
	}
}

// Operand picks an operand: often a value occurring in the document.
func (g *G) Operand(doc bson.D, scalarOnly bool) interface{} {
	if g.P(60) {
		var vals []interface{}
		for _, e := range doc {
			collect(e.Value, &vals)
		}
		if len(vals) > 0 {
			for tries := 0; tries < 4; tries++ {
				v := vals[g.N(len(vals))]
				if scalarOnly {
					switch v.(type) {
					case bson.D, bson.A:
						continue
					}
				}
				return v
			}
		}
	}
	if scalarOnly || g.P(70) {
		return g.Scalar()
	}
	return g.Value(1, false)
}

// CompOps are the comparison operators.
var CompOps = []string{"$eq", "$gt", "$gte", "$lt", "$lte", "$ne"}

// Cond returns an operator expression document for one path ({$op: operand, ...}).
func (g *G) Cond(doc bson.D, depth int) bson.D {
	n := 1
	if g.P(15) {
		n = 2
	}
	out := bson.D{}
	for i := 0; i < n; i++ {
		out = append(out, g.OneOp(doc, depth))
	}
	return out
}

// OneOp returns one {$op: operand} element.
func (g *G) OneOp(doc bson.D, depth int) bson.E {
	switch g.N(24) {
	case 0, 1, 2, 3, 4, 5, 6:
		return bson.E{Key: CompOps[g.N(len(CompOps))], Value: g.Operand(doc, g.P(70))}
	case 7, 8, 9:
		n := g.N(4)
		a := make(bson.A, 0, n)
		for i := 0; i < n; i++ {
			a = append(a, g.Operand(doc, g.P(80)))
		}
		return bson.E{Key: g.PickS("$in", "$nin"), Value: a}
	case 10, 11:
		return bson.E{Key: "$exists", Value: g.Pick(true, false, int32(1), int32(0), nil, float64(0), "x")}
	case 12, 13:
		if g.P(50) {
			return bson.E{Key: "$type", Value: g.Pick("number", "string", "object", "array", "null", "bool", "int", "long", "double", "decimal", "objectId", "date", "timestamp", "binData", "regex", int32(16), int32(2), float64(1), int64(4))}
		}
		return bson.E{Key: "$type", Value: bson.A{g.Pick("number", "string", "array"), g.Pick("null", "int", "object", int32(8))}}
	case 14, 15:
		n := g.N(5)
		a := make(bson.A, 0, n)
		for i := 0; i < n; i++ {
			if i > 0 && g.P(35) {
				a = append(a, a[g.N(i)]) // a value listed twice is one requirement
			} else {
				a = append(a, g.Operand(doc, g.P(80)))
			}
		}
		return bson.E{Key: "$all", Value: a}
	case 16, 17:
		return bson.E{Key: "$size", Value: g.Pick(int32(0), int32(1), int32(2), int32(3), int64(2), float64(1))}
	case 18:
		if depth <= 0 {
			return bson.E{Key: "$eq", Value: g.Operand(doc, true)}
		}
		return bson.E{Key: "$not", Value: g.Cond(doc, depth-1)}
	case 19, 20:
		if depth <= 0 {
			return bson.E{Key: "$gt", Value: g.Operand(doc, true)}
		}
		// $elemMatch: operator form or sub-document conditions
		if g.P(50) {
			return bson.E{Key: "$elemMatch", Value: g.Cond(doc, 0)}
		}
		q := bson.D{}
		for i := 0; i < 1+g.N(2); i++ {
			k := Keys[g.N(len(Keys))]
			if g.P(50) {
				q = append(q, bson.E{Key: k, Value: g.Operand(doc, true)})
			} else {
				q = append(q, bson.E{Key: k, Value: g.Cond(doc, 0)})
			}
		}
		return bson.E{Key: "$elemMatch", Value: q}
	case 21:
		return bson.E{Key: "$mod", Value: bson.A{g.Pick(int32(2), int32(3), int64(2), float64(2.5), int32(-2)), g.Pick(int32(0), int32(1), int64(1), int32(-1), float64(1))}}
	default:
		op := g.PickS("$bitsAllSet", "$bitsAllClear", "$bitsAnySet", "$bitsAnyClear")
		switch g.N(3) {
		case 0:
			return bson.E{Key: op, Value: g.Pick(int32(1), int32(3), int32(5), int64(6), float64(2), int32(0))}
		case 1:
			return bson.E{Key: op, Value: bson.A{g.Pick(int32(0), int32(1), int64(2)), g.Pick(int32(1), int32(3), float64(0))}}
		default:
			return bson.E{Key: op, Value: primitive.Binary{Data: []byte{byte(1 + g.N(7))}}}
		}
	}
}

// FieldCond returns one top-level pair {path: literal | {$op...}}.
func (g *G) FieldCond(doc bson.D, depth int) bson.E {
	p := g.Path()
	if g.P(35) {
		return bson.E{Key: p, Value: g.Operand(doc, g.P(60))}
	}
	return bson.E{Key: p, Value: g.Cond(doc, depth)}
}

// Filter returns a well-formed filter document.
func (g *G) Filter(doc bson.D, depth int) bson.D {
	out := bson.D{}
	n := 1
	switch r := g.N(10); {
	case r == 0:
		n = 0
	case r >= 8:
		n = 2
	}
	for i := 0; i < n; i++ {
		if depth > 0 && g.P(18) {
			m := 1 + g.N(3)
			a := make(bson.A, 0, m)
			for j := 0; j < m; j++ {
				a = append(a, g.Filter(doc, depth-1))
			}
			out = append(out, bson.E{Key: g.PickS("$and", "$or", "$nor"), Value: a})
		} else {
			out = append(out, g.FieldCond(doc, depth))
		}
	}
	return out
}

// ID returns an _id from a small pool (collisions across numeric kinds).
func (g *G) ID() interface{} {
	switch g.N(12) {
	case 0:
		return int64(1 + g.N(4))
	case 1:
		return float64(1 + g.N(4))
	case 2:
		return "k" + strconv.Itoa(g.N(3))
	default:
		return int32(1 + g.N(8))
	}
}

// ---------------------------------------------------------------------------
// updates

// UpdPaths are paths used by generated updates.
var UpdPaths = []string{"a", "b", "c", "d", "e", "a.b", "a.a", "b.a", "a.0", "a.1", "b.0", "a.b.c", "a.0.b", "a.3", "c.d", "e.f", "a.$[]", "a.$[x]", "b.$[]", "a.$[x].b", "a.$[].a", "b.$[y]", "a.b.$[]"}

// existingPaths lists paths of fields present in the document (depth 2).
func existingPaths(d bson.D, prefix string, depth int, out *[]string) {
	for _, e := range d {
		p := e.Key
		if prefix != "" {
			p = prefix + "." + e.Key
		}
		*out = append(*out, p)
		if depth > 0 {
			if sub, ok := e.Value.(bson.D); ok {
				existingPaths(sub, p, depth-1, out)
			}
			if arr, ok := e.Value.(bson.A); ok {
				for i := range arr {
					*out = append(*out, p+"."+strconv.Itoa(i))
					if sub, ok := arr[i].(bson.D); ok && depth > 0 {
						existingPaths(sub, p+"."+strconv.Itoa(i), 0, out)
					}
				}
			}
		}
	}
}

// UpdPath returns an update path, often one that exists in the document.
func (g *G) UpdPath(doc bson.D) string {
	if g.P(50) {
		var ps []string
		existingPaths(doc, "", 2, &ps)
		if len(ps) > 0 {
			return ps[g.N(len(ps))]
		}
	}
	if g.P(60) {
		return UpdPaths[g.N(5)]
	}
	return UpdPaths[g.N(len(UpdPaths))]
}

// SmallNum returns a number suitable for arithmetic (exactly representable results).
func (g *G) SmallNum() interface{} {
	return g.Pick(int32(1), int32(2), int32(-3), int32(5), int32(0), int64(1), int64(7), int64(-2), float64(1), float64(2.5), float64(-0.5), float64(4),
		dec("1"), dec("2.5"), dec("-1.5"), dec("3"))
}

// UpdArg returns an argument for the operator.
func (g *G) UpdArg(op string, doc bson.D) interface{} {
	switch op {
	case "$set", "$setOnInsert", "$min", "$max":
		return g.Operand(doc, g.P(55))
	case "$unset":
		return g.Pick("", int32(1), true)
	case "$rename":
		return g.PickS("a", "b", "c", "e", "a.b", "e.f", "b.a", "d", "c.d", "a.0")
	case "$inc", "$mul":
		if g.P(6) {
			return g.Pick("x", nil, true)
		}
		return g.SmallNum()
	case "$currentDate":
		return g.Pick(true, false, bson.D{{Key: "$type", Value: "date"}}, bson.D{{Key: "$type", Value: "timestamp"}})
	case "$push":
		if g.P(45) {
			return g.Operand(doc, g.P(70))
		}
		n := g.N(4)
		each := make(bson.A, 0, n)
		for i := 0; i < n; i++ {
			each = append(each, g.Operand(doc, g.P(80)))
		}
		d := bson.D{{Key: "$each", Value: each}}
		if g.P(40) {
			d = append(d, bson.E{Key: "$position", Value: g.Pick(int32(0), int32(1), int32(-1), int64(2), int32(9), int32(-9), float64(1))})
		}
		if g.P(35) {
			if g.P(60) {
				d = append(d, bson.E{Key: "$sort", Value: g.Pick(int32(1), int32(-1), int64(1))})
			} else {
				d = append(d, bson.E{Key: "$sort", Value: bson.D{{Key: g.PickS("a", "b", "a.b"), Value: g.Pick(int32(1), int32(-1))}}})
			}
		}
		if g.P(35) {
			d = append(d, bson.E{Key: "$slice", Value: g.Pick(int32(0), int32(1), int32(2), int32(-1), int32(-2), int64(3), int32(9))})
		}
		return d
	case "$pop":
		return g.Pick(int32(1), int32(-1), int64(1), float64(-1), int32(1), int32(-1))
	case "$pull":
		switch g.N(4) {
		case 0:
			return bson.D{g.OneOp(doc, 0)}
		case 1:
			return bson.D{{Key: g.PickS("a", "b"), Value: g.Operand(doc, true)}}
		default:
			return g.Operand(doc, g.P(80))
		}
	case "$pullAll":
		n := g.N(3)
		a := make(bson.A, 0, n)
		for i := 0; i < n; i++ {
			a = append(a, g.Operand(doc, g.P(80)))
		}
		return a
	case "$addToSet":
		if g.P(60) {
			return g.Operand(doc, g.P(70))
		}
		n := g.N(5)
		each := make(bson.A, 0, n)
		for i := 0; i < n; i++ {
			if i > 0 && g.P(35) {
				each = append(each, each[g.N(i)]) // a value repeated inside $each is added once
			} else {
				each = append(each, g.Operand(doc, g.P(80)))
			}
		}
		return bson.D{{Key: "$each", Value: each}}
	case "$bit":
		return bson.D{{Key: g.PickS("and", "or", "xor"), Value: g.Pick(int32(1), int32(3), int32(6), int64(5), int32(12))}}
	}
	return nil
}

// UpdateOpNames lists the supported update operators.
var UpdateOpNames = []string{"$set", "$set", "$set", "$setOnInsert", "$unset", "$unset", "$rename", "$inc", "$inc", "$mul", "$min", "$max", "$currentDate",
	"$push", "$push", "$pop", "$pull", "$pullAll", "$addToSet", "$bit"}

// Update returns an update document and array filters.
func (g *G) Update(doc bson.D) (bson.D, []bson.D) {
	n := 1
	if g.P(35) {
		n = 2 + g.N(2)
	}
	upd := bson.D{}
	used := map[string]bool{}
	for i := 0; i < n; i++ {
		op := UpdateOpNames[g.N(len(UpdateOpNames))]
		if used[op] {
			continue
		}
		used[op] = true
		m := 1
		if g.P(25) {
			m = 2
		}
		args := bson.D{}
		seen := map[string]bool{}
		for j := 0; j < m; j++ {
			p := g.UpdPath(doc)
			if seen[p] {
				continue
			}
			seen[p] = true
			args = append(args, bson.E{Key: p, Value: g.UpdArg(op, doc)})
		}
		upd = append(upd, bson.E{Key: op, Value: args})
	}
	var afs []bson.D
	if g.P(85) {
		afs = append(afs, bson.D{{Key: "x", Value: bson.D{g.OneOp(doc, 0)}}})
		if g.P(40) {
			afs = append(afs, bson.D{{Key: g.PickS("y", "y.a", "x.b"), Value: g.Operand(doc, true)}})
		}
	}
	return upd, afs
}
