// Package enc converts between BSON values (as lungo sees them after
// bsonkit.Transform: bson.D, bson.A, primitives) and the tagged JSON encoding
// consumed and produced by the TLA+ specification (spec/BSON.tla).
package enc

import (
	"encoding/hex"
	"fmt"
	"math"
	"math/big"
	"sort"
	"strconv"
	"strings"
	"sync"
	"unicode/utf8"

	"go.mongodb.org/mongo-driver/bson"
	"go.mongodb.org/mongo-driver/bson/primitive"

	"github.com/256dpi/lungo/bsonkit"
)

// V is a tagged value.
type V = map[string]interface{}

// Table collects every string used in a run so that the string table
// (spec constant Str) can be emitted.
type Table struct {
	mu  sync.Mutex
	set map[string]struct{}
}

// NewTable creates a table that already knows the small indices and the
// strings the specification itself mentions.
func NewTable() *Table {
	t := &Table{set: map[string]struct{}{}}
	for i := 0; i < 24; i++ {
		t.Add(strconv.Itoa(i))
	}
	for _, s := range SpecStrings {
		t.Add(s)
	}
	return t
}

// SpecStrings are string literals that the TLA+ modules compare or build.
var SpecStrings = []string{"", "_id", "item", "_x", "$each", "$position", "$sort", "$slice", "$type", "date", "timestamp",
	"and", "or", "xor", "ns", "db", "coll", "ts", "clusterTime", "wallTime", "operationType", "documentKey", "fullDocument",
	"updateDescription", "updatedFields", "removedFields", "truncatedArrays", "insert", "replace", "update", "delete", "drop",
	"dropDatabase", "invalidate", "name", "key", "v", "unique", "partialFilterExpression", "expireAfterSeconds", "_id_",
	"$eq", "$gt", "$gte", "$lt", "$lte", "$ne", "$in", "$nin", "$not", "$and", "$or", "$nor", "$exists", "$size", "$all",
	"$elemMatch", "$mod", "$bitsAllSet", "$bitsAllClear", "$bitsAnySet", "$bitsAnyClear", "$jsonSchema", "number",
	"$set", "$setOnInsert", "$unset", "$rename", "$inc", "$mul", "$min", "$max", "$currentDate", "$push", "$pop", "$pull",
	"$pullAll", "$addToSet", "$bit", "$[]", "$"}

// Add interns a string together with its path segments.
func (t *Table) Add(s string) {
	t.mu.Lock()
	defer t.mu.Unlock()
	t.add(s)
}

func (t *Table) add(s string) {
	if _, ok := t.set[s]; ok {
		return
	}
	t.set[s] = struct{}{}
	if strings.HasPrefix(s, "$[") && strings.HasSuffix(s, "]") {
		t.add(s[2 : len(s)-1])
	}
	if strings.Contains(s, ".") {
		for _, seg := range strings.Split(s, ".") {
			t.add(seg)
		}
	}
}

// JSON returns the string table as a JSON-able object.
func (t *Table) JSON() map[string]interface{} {
	t.mu.Lock()
	defer t.mu.Unlock()
	out := map[string]interface{}{}
	keys := make([]string, 0, len(t.set))
	for s := range t.set {
		keys = append(keys, s)
	}
	sort.Strings(keys)
	for _, s := range keys {
		codes := make([]int, 0, len(s))
		for i := 0; i < len(s); i++ {
			codes = append(codes, int(s[i]))
		}
		segs := []string{}
		if s != "" {
			segs = strings.Split(s, ".")
		}
		idx := -1
		if n, ok := parseIndex(s); ok && n < 1<<20 {
			idx = n
		}
		// positional operator kind of a path segment: "$" implicit, "$[]" all,
		// "$[id]" identified, any other "$..." none
		pk, id := "none", ""
		switch {
		case s == "$":
			pk = "implicit"
		case s == "$[]":
			pk = "all"
		case strings.HasPrefix(s, "$[") && strings.HasSuffix(s, "]"):
			pk, id = "id", s[2:len(s)-1]
		}
		out[s] = map[string]interface{}{
			"c":  codes,
			"n":  utf8.RuneCountInString(s),
			"p":  segs,
			"i":  idx,
			"op": len(s) > 0 && s[0] == '$',
			"pk": pk,
			"id": id,
		}
	}
	return out
}

// parseIndex is the harness's own reading of "a path segment that is an array
// index": a string of decimal digits (independent of bsonkit.ParseIndex).
func parseIndex(s string) (int, bool) {
	if s == "" || len(s) > 9 {
		return 0, false
	}
	n := 0
	for i := 0; i < len(s); i++ {
		if s[i] < '0' || s[i] > '9' {
			return 0, false
		}
		n = n*10 + int(s[i]-'0')
	}
	return n, true
}

// digitsOf converts a decimal digit string to a slice of ints.
func digitsOf(s string) []int {
	out := make([]int, len(s))
	for i := 0; i < len(s); i++ {
		out[i] = int(s[i] - '0')
	}
	return out
}

// mag converts a non-negative decimal rendering "iii.fff" (or "iii") into the
// canonical magnitude (d, e): value = 0.d * 10^e, d without leading/trailing
// zeros; zero is ([], 0).
func mag(s string) ([]int, int) {
	ip, fp := s, ""
	if i := strings.IndexByte(s, '.'); i >= 0 {
		ip, fp = s[:i], s[i+1:]
	}
	ip = strings.TrimLeft(ip, "0")
	all := ip + fp
	e := len(ip)
	// strip leading zeros (only possible when ip is empty)
	lead := 0
	for lead < len(all) && all[lead] == '0' {
		lead++
	}
	all = all[lead:]
	e -= lead
	all = strings.TrimRight(all, "0")
	if all == "" {
		return []int{}, 0
	}
	return digitsOf(all), e
}

func num(kind, sp string, neg bool, d []int, e, q int) V {
	return V{"t": "num", "k": kind, "sp": sp, "neg": neg, "d": d, "e": e, "q": q}
}

// FloatExact returns the exact decimal expansion of a finite float64.
func FloatExact(f float64) string {
	r := new(big.Rat).SetFloat64(math.Abs(f))
	// the denominator is a power of two 2^k: k fraction digits are exact
	k := r.Denom().BitLen()
	return r.FloatString(k + 1)
}

// Val encodes a BSON value.
func (t *Table) Val(v interface{}) V {
	switch x := v.(type) {
	case nil, primitive.Null:
		return V{"t": "null"}
	case bsonkit.MissingType:
		return V{"t": "missing"}
	case bool:
		return V{"t": "bool", "b": x}
	case string:
		t.Add(x)
		return V{"t": "str", "s": x}
	case int32:
		return t.intNum("i32", int64(x))
	case int64:
		return t.intNum("i64", x)
	case float64:
		switch {
		case math.IsNaN(x):
			return num("f64", "nan", false, []int{}, 0, 0)
		case math.IsInf(x, 1):
			return num("f64", "pinf", false, []int{}, 0, 0)
		case math.IsInf(x, -1):
			return num("f64", "ninf", true, []int{}, 0, 0)
		}
		d, e := mag(FloatExact(x))
		return num("f64", "fin", math.Signbit(x), d, e, 0)
	case primitive.Decimal128:
		hi, _ := x.GetBytes()
		neg := hi>>63 == 1
		if x.IsNaN() {
			return num("dec", "nan", false, []int{}, 0, 0)
		}
		if inf := x.IsInf(); inf > 0 {
			return num("dec", "pinf", false, []int{}, 0, 0)
		} else if inf < 0 {
			return num("dec", "ninf", true, []int{}, 0, 0)
		}
		bi, exp, err := x.BigInt()
		if err != nil {
			panic(err)
		}
		s := new(big.Int).Abs(bi).String()
		d, e := mag(s)
		if len(d) > 0 {
			e += exp
		}
		return num("dec", "fin", neg, d, e, exp)
	case bson.D:
		f := make([]interface{}, 0, len(x))
		for _, el := range x {
			t.Add(el.Key)
			f = append(f, []interface{}{el.Key, t.Val(el.Value)})
		}
		return V{"t": "doc", "f": f}
	case *bson.D:
		return t.Val(*x)
	case bson.A:
		a := make([]interface{}, 0, len(x))
		for _, el := range x {
			a = append(a, t.Val(el))
		}
		return V{"t": "arr", "a": a}
	case primitive.Binary:
		d := make([]int, len(x.Data))
		for i, b := range x.Data {
			d[i] = int(b)
		}
		return V{"t": "bin", "st": int(x.Subtype), "d": d}
	case primitive.ObjectID:
		s := x.Hex()
		t.Add(s)
		return V{"t": "oid", "s": s}
	case primitive.DateTime:
		n := int64(x)
		neg := n < 0
		var s string
		if neg {
			s = new(big.Int).Neg(big.NewInt(n)).String()
		} else {
			s = strconv.FormatInt(n, 10)
		}
		d, e := mag(s)
		return V{"t": "date", "neg": neg, "d": d, "e": e}
	case primitive.Timestamp:
		return V{"t": "ts", "T": int(x.T), "I": int(x.I)}
	case primitive.Regex:
		t.Add(x.Pattern)
		t.Add(x.Options)
		return V{"t": "regex", "p": x.Pattern, "o": x.Options}
	default:
		panic(fmt.Sprintf("enc: unsupported type %T", v))
	}
}

func (t *Table) intNum(kind string, n int64) V {
	neg := n < 0
	var s string
	if neg {
		s = new(big.Int).Neg(big.NewInt(n)).String()
	} else {
		s = strconv.FormatInt(n, 10)
	}
	d, e := mag(s)
	return num(kind, "fin", neg, d, e, 0)
}

// Doc encodes a document pointer (nil becomes "missing").
func (t *Table) Doc(d bsonkit.Doc) V {
	if d == nil {
		return V{"t": "missing"}
	}
	return t.Val(*d)
}

// List encodes a list of documents.
func (t *Table) List(l bsonkit.List) []interface{} {
	out := make([]interface{}, 0, len(l))
	for _, d := range l {
		out = append(out, t.Doc(d))
	}
	return out
}

// ---------------------------------------------------------------------------
// decoding (TLC -> Go)

func ints(x interface{}) []int {
	arr, _ := x.([]interface{})
	out := make([]int, len(arr))
	for i, e := range arr {
		out[i] = int(e.(float64))
	}
	return out
}

func digitString(d []int) string {
	var sb strings.Builder
	for _, x := range d {
		sb.WriteByte(byte('0' + x))
	}
	return sb.String()
}

// ratOf builds the exact rational of a magnitude.
func ratOf(neg bool, d []int, e int) *big.Rat {
	if len(d) == 0 {
		return new(big.Rat)
	}
	n, _ := new(big.Int).SetString(digitString(d), 10)
	r := new(big.Rat).SetInt(n)
	shift := e - len(d)
	p := new(big.Int).Exp(big.NewInt(10), big.NewInt(int64(abs(shift))), nil)
	if shift >= 0 {
		r.Mul(r, new(big.Rat).SetInt(p))
	} else {
		r.Quo(r, new(big.Rat).SetInt(p))
	}
	if neg {
		r.Neg(r)
	}
	return r
}

func abs(x int) int {
	if x < 0 {
		return -x
	}
	return x
}

// Decode converts a tagged value (as parsed by encoding/json) into a BSON value.
func Decode(x interface{}) (interface{}, error) {
	m, ok := x.(map[string]interface{})
	if !ok {
		return nil, fmt.Errorf("enc: expected object, got %T", x)
	}
	switch m["t"] {
	case "null":
		return nil, nil
	case "missing":
		return bsonkit.Missing, nil
	case "bool":
		return m["b"].(bool), nil
	case "str":
		return m["s"].(string), nil
	case "num":
		kind := m["k"].(string)
		sp := m["sp"].(string)
		neg := m["neg"].(bool)
		d := ints(m["d"])
		e := int(m["e"].(float64))
		q := 0
		if qq, ok := m["q"].(float64); ok {
			q = int(qq)
		}
		switch kind {
		case "i32", "i64":
			r := ratOf(neg, d, e)
			if !r.IsInt() || !r.Num().IsInt64() {
				return nil, fmt.Errorf("enc: not an int64: %v", m)
			}
			n := r.Num().Int64()
			if kind == "i32" {
				if n < math.MinInt32 || n > math.MaxInt32 {
					return nil, fmt.Errorf("enc: not an int32: %v", m)
				}
				return int32(n), nil
			}
			return n, nil
		case "f64":
			switch sp {
			case "nan":
				return math.NaN(), nil
			case "pinf":
				return math.Inf(1), nil
			case "ninf":
				return math.Inf(-1), nil
			}
			f, _ := ratOf(false, d, e).Float64()
			if neg {
				f = math.Copysign(f, -1)
			}
			return f, nil
		case "dec":
			switch sp {
			case "nan":
				return primitive.NewDecimal128(0x7C00000000000000, 0), nil
			case "pinf":
				return primitive.NewDecimal128(0x7800000000000000, 0), nil
			case "ninf":
				return primitive.NewDecimal128(0xF800000000000000, 0), nil
			}
			// coefficient = value / 10^q
			coeff := new(big.Int)
			if len(d) > 0 {
				zeros := e - len(d) - q
				if zeros < 0 {
					return nil, fmt.Errorf("enc: decimal exponent mismatch: %v", m)
				}
				coeff.SetString(digitString(d)+strings.Repeat("0", zeros), 10)
			}
			if neg {
				coeff.Neg(coeff)
			}
			dd, ok := primitive.ParseDecimal128FromBigInt(coeff, q)
			if !ok {
				return nil, fmt.Errorf("enc: decimal out of range: %v", m)
			}
			if neg && len(d) == 0 {
				hi, lo := dd.GetBytes()
				dd = primitive.NewDecimal128(hi|1<<63, lo)
			}
			return dd, nil
		}
		return nil, fmt.Errorf("enc: bad number kind %q", kind)
	case "doc":
		f, _ := m["f"].([]interface{})
		out := make(bson.D, 0, len(f))
		for _, p := range f {
			pair := p.([]interface{})
			v, err := Decode(pair[1])
			if err != nil {
				return nil, err
			}
			out = append(out, bson.E{Key: pair[0].(string), Value: v})
		}
		return out, nil
	case "arr":
		a, _ := m["a"].([]interface{})
		out := make(bson.A, 0, len(a))
		for _, el := range a {
			v, err := Decode(el)
			if err != nil {
				return nil, err
			}
			out = append(out, v)
		}
		return out, nil
	case "bin":
		d := ints(m["d"])
		data := make([]byte, len(d))
		for i, b := range d {
			data[i] = byte(b)
		}
		return primitive.Binary{Subtype: byte(m["st"].(float64)), Data: data}, nil
	case "oid":
		b, err := hex.DecodeString(m["s"].(string))
		if err != nil || len(b) != 12 {
			return nil, fmt.Errorf("enc: bad oid %v", m["s"])
		}
		var id primitive.ObjectID
		copy(id[:], b)
		return id, nil
	case "date":
		r := ratOf(m["neg"].(bool), ints(m["d"]), int(m["e"].(float64)))
		return primitive.DateTime(r.Num().Int64()), nil
	case "ts":
		return primitive.Timestamp{T: uint32(m["T"].(float64)), I: uint32(m["I"].(float64))}, nil
	case "regex":
		return primitive.Regex{Pattern: m["p"].(string), Options: m["o"].(string)}, nil
	}
	return nil, fmt.Errorf("enc: unknown tag %v", m["t"])
}

// DecodeDoc decodes a tagged document.
func DecodeDoc(x interface{}) (bsonkit.Doc, error) {
	v, err := Decode(x)
	if err != nil {
		return nil, err
	}
	d, ok := v.(bson.D)
	if !ok {
		return nil, fmt.Errorf("enc: expected document, got %T", v)
	}
	return &d, nil
}

// ValidUTF8 reports whether all strings in the value are valid UTF-8 (the BSON
// codec replaces invalid sequences, which would break round trips).
func ValidUTF8(s string) bool { return utf8.ValidString(s) }
