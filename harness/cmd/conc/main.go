// Command conc drives the real engine under concurrency (properties C04, C16).
//
//	conc stress <dir> <seed> <runs> <workers> <ops>   concurrent workers on shared collections; every call is
//	        linearized by the hooks (read: catalog seen at begin; write: engine catalog at publish) and written as
//	        a call event for TLC (Database!Exec at the linearization point = strict serializability); the hook
//	        event sequence of every run is written as a protocol event.
//	conc faults <dir> <seed> <runs>     cancelled contexts, failing stores, panicking callbacks, sessions ended
//	        while waiting, Close at random points; after every scenario a probe write with a deadline and a
//	        goroutine count; hook events as protocol events.
//	conc guided <dir> <seed>            forced interleavings at hook granularity (lock hand-over windows).
//
// Findings that are real-code observations by themselves (a call that does not
// return, a leaked goroutine, a panic, a stale base catalog) are printed as JSON lines.
package main

import (
	"context"
	"encoding/json"
	"errors"
	"fmt"
	"math/rand"
	"os"
	"path/filepath"
	"runtime"
	"sort"
	"strconv"
	"strings"
	"sync"
	"time"

	"go.mongodb.org/mongo-driver/bson"
	"go.mongodb.org/mongo-driver/mongo"
	"go.mongodb.org/mongo-driver/mongo/options"

	"github.com/256dpi/lungo"

	"verif/harness/conc"
	"verif/harness/dbt"
	"verif/harness/enc"
	"verif/harness/gen"
	"verif/harness/util"
)

type V = map[string]interface{}

var out = json.NewEncoder(os.Stdout)
var outMu sync.Mutex
var findings int

func finding(kind, what string, extra V) {
	outMu.Lock()
	defer outMu.Unlock()
	findings++
	m := V{"kind": kind, "what": what}
	for k, v := range extra {
		m[k] = v
	}
	out.Encode(m)
}

func d(kv ...interface{}) bson.D {
	o := bson.D{}
	for i := 0; i+1 < len(kv); i += 2 {
		o = append(o, bson.E{Key: kv[i].(string), Value: kv[i+1]})
	}
	return o
}

// stacks returns the goroutine dump restricted to goroutines that are inside lungo.
func stacks() string {
	buf := make([]byte, 1<<20)
	n := runtime.Stack(buf, true)
	var keep []string
	for _, g := range strings.Split(string(buf[:n]), "\n\n") {
		if strings.Contains(g, "256dpi/lungo") || strings.Contains(g, "/repo/") {
			lines := strings.Split(g, "\n")
			if len(lines) > 12 {
				lines = lines[:12]
			}
			keep = append(keep, strings.Join(lines, "\n"))
		}
	}
	return strings.Join(keep, "\n\n")
}

// waitAll waits for the workers; if they do not finish, the run is a hang.
func waitAll(wg *sync.WaitGroup, timeout time.Duration) bool {
	done := make(chan struct{})
	go func() { wg.Wait(); close(done) }()
	select {
	case <-done:
		return true
	case <-time.After(timeout):
		return false
	}
}

// probe: a write with a deadline must succeed (or report the closed engine).
func probe(client lungo.IClient, closed bool, what string, extra V) {
	ctx, cancel := context.WithTimeout(context.Background(), 15*time.Second)
	defer cancel()
	start := time.Now()
	_, err := client.Database("probe").Collection("p").UpdateOne(ctx, d("_id", int32(1)), d("$inc", d("n", int32(1))), options.Update().SetUpsert(true))
	took := time.Since(start)
	if closed {
		if !errors.Is(err, lungo.ErrEngineClosed) || took > 5*time.Second {
			finding("wedge", what+": after Close a write must return the closed error promptly", V{"err": fmt.Sprint(err), "ms": took.Milliseconds()})
		}
		return
	}
	if err != nil {
		e := V{"err": err.Error(), "ms": took.Milliseconds(), "stacks": stacks()}
		for k, v := range extra {
			e[k] = v
		}
		finding("wedge", what+": the probe write did not succeed (the writer slot is not free)", e)
	}
}

// ---------------------------------------------------------------------------

func stress(dir string, seed int64, runs, workers, ops int, table *enc.Table, trace *util.NDJSON) {
	for run := 0; run < runs; run++ {
		g := gen.New(seed*1000 + int64(run))
		sched := conc.NewSched(seed*1000+int64(run), 35)
		base := dbt.Open(table, trace, g, nil)
		base.Hist = run
		// initial contents (not under the hooks)
		for k := 1; k <= 4; k++ {
			base.Client.Database("d").Collection("acc").InsertOne(base.Ctx, d("_id", int32(k), "n", int32(0)))
		}
		base.Client.Database("d").Collection("acc").Indexes().CreateOne(base.Ctx, dbt.MongoIndex(d("u", int32(1)), true, d("u", d("$exists", true))))
		sched.Install()
		var ws []*conc.Worker
		var wg sync.WaitGroup
		for w := 0; w < workers; w++ {
			env := *base
			env.Findings = nil
			env.G = gen.New(seed*1000 + int64(run)*100 + int64(w))
			wk := &conc.Worker{Env: &env, Sched: sched}
			ws = append(ws, wk)
			wg.Add(1)
			go func(w int, wk *conc.Worker) {
				defer wg.Done()
				e := wk.Env
				r := e.G
				for i := 0; i < ops; i++ {
					k := int32(1 + r.N(4))
					switch x := r.N(100); {
					case x < 25:
						wk.Do(e.Update("d.acc", false, d("_id", k), d("$inc", d("n", int32(1))), false, nil))
					case x < 40:
						wk.Do(e.FindOneAndUpdate("d.acc", d("_id", k), d("$inc", d("n", int32(1))), nil, nil, false, true, nil))
					case x < 52:
						wk.Do(e.InsertOne("d.log", d("_id", int32(w*1000+i), "w", int32(w))))
					case x < 58:
						wk.Do(e.Delete("d.log", false, d("w", int32(r.N(workers)))))
					case x < 70:
						// sorted reads in several orders (a read leaves the order of the stored documents alone)
						srt := []bson.D{d("_id", int32(1)), d("_id", int32(-1)), d("n", int32(-1), "_id", int32(-1)), d("m", int32(1), "_id", int32(-1))}[r.N(4)]
						wk.Do(e.Find("d.acc", d(), srt, nil, 0, 0))
					case x < 75:
						wk.Do(e.Count("d.log", d("w", int32(r.N(workers))), 0, 0))
					case x < 82:
						wk.Do(e.Update("d.acc", true, d(), d("$inc", d("m", int32(1))), false, nil))
					case x < 88:
						// unique collision race: only one of the concurrent writers may win each value
						wk.Do(e.Update("d.acc", false, d("_id", k), d("$set", d("u", int32(r.N(3)))), false, nil))
					case x < 92:
						wk.Do(e.InsertOne("d.acc", d("_id", k, "n", int32(99)))) // duplicate: fails
					default:
						// multi-document transaction: move one unit between two accounts
						a, b := int32(1+r.N(4)), int32(1+r.N(4))
						calls := []dbt.Call{e.Update("d.acc", false, d("_id", a), d("$inc", d("n", int32(-1))), false, nil),
							e.Update("d.acc", false, d("_id", b), d("$inc", d("n", int32(1))), false, nil),
							e.Find("d.acc", d("_id", d("$in", bson.A{a, b})), d("_id", int32(1)), nil, 0, 0)}
						// calls without effect at the end of a transaction must not make it forget its earlier writes
						switch r.N(5) {
						case 0:
							calls = append(calls, e.Update("d.acc", false, d("_id", int32(99)), d("$set", d("m", int32(1))), false, nil))
						case 1:
							calls = append(calls, e.Update("d.acc", true, d(), d("$max", d("m", int32(-1000))), false, nil))
						case 2:
							calls = append(calls, e.Delete("d.acc", false, d("_id", int32(98))), e.ReplaceOne("d.acc", d("_id", int32(97)), d("n", int32(0)), false))
						}
						wk.DoTxn(calls, r.P(20))
					}
				}
			}(w, wk)
		}
		ok := waitAll(&wg, 30*time.Second)
		sched.Quiet(true)
		if !ok {
			finding("wedge", "stress run did not finish within 30 s: calls are blocked", V{"run": run, "stacks": stacks()})
			conc.Uninstall()
			return // the engine is wedged; nothing further can be trusted in this process
		}
		finishRun(run, base, sched, ws, trace, false)
	}
}

// systematic: small scenarios (2-3 actors, 1-2 calls each) under the controlled scheduler; the interleavings at the
// scheduling points are enumerated depth-first up to maxSched schedules per scenario.  Every run is recorded and
// judged like a stress run (each call at its linearization point, publication chain, protocol events).
func systematic(dir string, seed int64, maxSched, randomSched int, faults bool, table *enc.Table, trace *util.NDJSON) (schedules int) {
	type program func(w *conc.Worker, id int)
	inc := func(w *conc.Worker, id int) {
		w.Do(w.Env.Update("d.acc", false, d("_id", int32(1)), d("$inc", d("n", int32(1))), false, nil))
	}
	fam := func(w *conc.Worker, id int) {
		w.Do(w.Env.FindOneAndUpdate("d.acc", d("_id", int32(1)), d("$inc", d("n", int32(1))), nil, nil, false, true, nil))
	}
	txnCommit := func(w *conc.Worker, id int) {
		w.DoTxn([]dbt.Call{w.Env.Update("d.acc", false, d("_id", int32(1)), d("$inc", d("n", int32(10))), false, nil),
			w.Env.Update("d.acc", false, d("_id", int32(2)), d("$inc", d("n", int32(-10))), false, nil)}, false)
	}
	txnAbort := func(w *conc.Worker, id int) {
		w.DoTxn([]dbt.Call{w.Env.Update("d.acc", false, d("_id", int32(1)), d("$inc", d("n", int32(100))), false, nil)}, true)
	}
	txnNoop := func(w *conc.Worker, id int) {
		w.DoTxn([]dbt.Call{w.Env.Update("d.acc", false, d("_id", int32(2)), d("$inc", d("n", int32(5))), false, nil),
			w.Env.Update("d.acc", false, d("_id", int32(99)), d("$set", d("m", int32(1))), false, nil)}, false)
	}
	uniq := func(w *conc.Worker, id int) {
		w.Do(w.Env.Update("d.acc", false, d("_id", int32(1+id)), d("$set", d("u", int32(7))), false, nil)) // only one may win
	}
	read := func(w *conc.Worker, id int) {
		w.Do(w.Env.Find("d.acc", d(), d("_id", int32(1)), nil, 0, 0))
		w.Do(w.Env.Count("d.acc", d("n", d("$gte", int32(1))), 0, 0))
	}
	twoWrites := func(w *conc.Worker, id int) {
		w.Do(w.Env.Update("d.acc", false, d("_id", int32(1)), d("$inc", d("n", int32(1))), false, nil))
		w.Do(w.Env.InsertOne("d.log", d("_id", int32(id))))
	}
	del := func(w *conc.Worker, id int) {
		w.Do(w.Env.Delete("d.acc", false, d("_id", int32(1))))
	}
	// scenarios with shutdown, cancelled contexts, abandoned sessions and streams (C16): every schedule must finish,
	// the writer slot must come back, after Close every call reports the closed engine
	closeEngine := func(w *conc.Worker, id int) {
		if w.Sched.Ctrl != nil {
			w.Sched.Ctrl.Park("call")
		}
		w.Env.Engine.Close()
	}
	cancelled := func(w *conc.Worker, id int) {
		ctx, cancel := context.WithCancel(w.Env.Ctx)
		cancel()
		plain := w.Env.Ctx
		w.Env.Ctx = ctx
		w.Do(w.Env.Update("d.acc", false, d("_id", int32(1)), d("$inc", d("n", int32(1))), false, nil))
		w.Env.Ctx = plain
	}
	shortCtx := func(w *conc.Worker, id int) {
		ctx, cancel := context.WithTimeout(w.Env.Ctx, 2*time.Millisecond)
		defer cancel()
		plain := w.Env.Ctx
		w.Env.Ctx = ctx
		w.Do(w.Env.Update("d.acc", false, d("_id", int32(2)), d("$inc", d("n", int32(1))), false, nil))
		w.Env.Ctx = plain
	}
	abandon := func(w *conc.Worker, id int) {
		if w.Sched.Ctrl != nil {
			w.Sched.Ctrl.Park("call")
		}
		w.Env.Client.UseSession(w.Env.Ctx, func(sc lungo.ISessionContext) error {
			if err := sc.StartTransaction(); err != nil {
				return err
			}
			w.Env.Client.Database("d").Collection("acc").UpdateOne(sc, d("_id", int32(3)), d("$inc", d("n", int32(1))))
			return nil // the session ends with the transaction open
		})
	}
	watcher := func(w *conc.Worker, id int) {
		if w.Sched.Ctrl != nil {
			w.Sched.Ctrl.Park("call")
		}
		cs, err := w.Env.Client.Watch(w.Env.Ctx, bson.A{})
		if err != nil {
			return
		}
		cs.TryNext(w.Env.Ctx)
		if w.Sched.Ctrl != nil {
			w.Sched.Ctrl.Park("call")
		}
		cs.TryNext(w.Env.Ctx)
		cs.Close(w.Env.Ctx)
	}
	closing := map[int]bool{}
	scenarios := [][]program{{inc, inc}, {inc, fam, inc}, {txnCommit, inc}, {txnCommit, txnCommit}, {txnAbort, inc}, {txnNoop, fam}, {uniq, uniq}, {txnCommit, read}, {twoWrites, twoWrites},
		{del, inc}, {txnCommit, del}, {txnAbort, txnCommit, inc}}
	if faults {
		scenarios = [][]program{{closeEngine, inc}, {closeEngine, txnCommit}, {closeEngine, inc, fam}, {closeEngine, closeEngine, inc}, {cancelled, inc}, {shortCtx, txnCommit}, {abandon, inc},
			{abandon, abandon}, {watcher, inc}, {watcher, closeEngine, inc}, {abandon, closeEngine}, {cancelled, txnAbort, inc}}
		for i, sc := range scenarios {
			for range sc {
			}
			closing[i] = i <= 3 || i == 9 || i == 10
		}
	}
	run := 0
	for si, sc := range scenarios {
		var prefix []int
		rnd := rand.New(rand.NewSource(seed*100 + int64(si)))
		for n := 0; n < maxSched+randomSched; n++ {
			g := gen.New(seed)
			sched := conc.NewSched(seed, 0)
			ctrl := conc.NewController()
			if n >= maxSched || prefix == nil && n > 0 {
				// the depth-first budget is used up (or the tree is exhausted): seeded random schedules
				if n < maxSched {
					break
				}
				prefix = nil
				ctrl.Rand = rnd
			}
			sched.Ctrl = ctrl
			base := dbt.Open(table, trace, g, nil)
			base.Hist = 5000 + run
			run++
			for k := 1; k <= 3; k++ {
				base.Client.Database("d").Collection("acc").InsertOne(base.Ctx, d("_id", int32(k), "n", int32(0)))
			}
			base.Client.Database("d").Collection("acc").Indexes().CreateOne(base.Ctx, dbt.MongoIndex(d("u", int32(1)), true, d("u", d("$exists", true))))
			sched.Install()
			var ws []*conc.Worker
			var wg sync.WaitGroup
			for id, prog := range sc {
				env := *base
				env.Findings = nil
				env.G = gen.New(seed + int64(id))
				wk := &conc.Worker{Env: &env, Sched: sched}
				ws = append(ws, wk)
				wg.Add(1)
				go func(id int, prog program, wk *conc.Worker) {
					defer wg.Done()
					defer ctrl.Finish()
					defer func() { recover() }()
					ctrl.Register(id)
					prog(wk, id)
				}(id, prog, wk)
			}
			ctrl.Run(len(sc), prefix, 3*time.Millisecond, 10*time.Second)
			if ctrl.Stuck {
				finding("wedge", "a schedule of the controlled scenario does not finish: the actors wait for each other", V{"scenario": si, "schedule": ctrl.Used, "points": ctrl.Points, "stacks": stacks()})
				ctrl.ReleaseAll()
				conc.Uninstall()
				return schedules
			}
			ok := waitAll(&wg, 20*time.Second)
			sched.Quiet(true)
			if !ok {
				finding("wedge", "the actors of a controlled scenario did not return", V{"scenario": si, "schedule": ctrl.Used, "stacks": stacks()})
				conc.Uninstall()
				return schedules
			}
			schedules++
			finishRun(base.Hist, base, sched, ws, trace, closing[si])
			if ctrl.Rand == nil {
				prefix = conc.Next(ctrl.Used, ctrl.Alts)
				if prefix == nil {
					n = maxSched - 1 // the tree is exhausted: go on with the random schedules
				}
			}
		}
	}
	return schedules
}

// finishRun: after the workers have returned - publication chain, the records of every call at its linearization
// point, the protocol events.
func finishRun(run int, base *dbt.Env, sched *conc.Sched, ws []*conc.Worker, trace *util.NDJSON, closed bool) {
	conc.Uninstall()
	if n := sched.Stale; n > 0 {
		finding("serial", "a writer published on top of a catalog that was not the base of its transaction (lost update)", V{"run": run, "count": n})
	}
	final := base.Engine.Catalog()
	probe(base.Client, closed, "after a run", V{"run": run})
	// write the records: publishes in version order, each validated at its linearization point
	cache := dbt.NewObsCache(base)
	type pub struct {
		pre, post *lungo.Catalog
	}
	var pubs []pub
	for _, wk := range ws {
		for _, f := range wk.Env.Findings {
			finding(fmt.Sprint(f["kind"]), fmt.Sprint(f["what"]), f)
		}
		for _, rec := range wk.Recs {
			if calls, ok := rec["calls"].([]dbt.Call); ok {
				// a session transaction
				results := rec["results"].([]V)
				pre, _ := rec["pubpre"].(*lungo.Catalog)
				post, _ := rec["pubpost"].(*lungo.Catalog)
				baseCat, _ := rec["base"].(*lungo.Catalog)
				if !rec["published"].(bool) {
					pre, post = baseCat, baseCat
				} else {
					pubs = append(pubs, pub{pre, post})
				}
				if pre == nil {
					continue
				}
				wk.Env.EmitSeq(cache, calls, results, pre, post, rec["committed"].(bool))
				continue
			}
			c := rec["call"].(dbt.Call)
			res, _ := rec["res"].(V)
			if res == nil {
				continue
			}
			var pre, post *lungo.Catalog
			switch {
			case rec["published"].(bool):
				pre, post = rec["pubpre"].(*lungo.Catalog), rec["pubpost"].(*lungo.Catalog)
				pubs = append(pubs, pub{pre, post})
			case rec["began"].(bool):
				pre = rec["base"].(*lungo.Catalog)
				post = pre
			case rec["read"].(*lungo.Catalog) != nil:
				pre = rec["read"].(*lungo.Catalog)
				post = pre
			default:
				continue
			}
			wk.Env.EmitCall(cache, c, res, pre, post, "worker", nil)
		}
	}
	// the published versions form one chain that ends in the current catalog
	next := map[*lungo.Catalog]*lungo.Catalog{}
	for _, p := range pubs {
		if _, dup := next[p.pre]; dup {
			finding("serial", "two commits were published on top of the same catalog", V{"run": run})
		}
		next[p.pre] = p.post
	}
	if len(pubs) > 0 {
		posts := map[*lungo.Catalog]bool{}
		for _, p := range pubs {
			posts[p.post] = true
		}
		var start *lungo.Catalog
		for _, p := range pubs {
			if !posts[p.pre] {
				start = p.pre
			}
		}
		cur, n := start, 0
		for next[cur] != nil && n <= len(pubs) {
			cur = next[cur]
			n++
		}
		if n != len(pubs) || cur != final {
			finding("serial", "the published catalogs do not form one chain ending in the current catalog", V{"run": run, "chain": n, "commits": len(pubs)})
		}
	}
	trace.Write(V{"fn": "proto", "hist": run, "events": sched.ProtoEvents(), "quiescent": !closed})
	base.Close()
}

// ---------------------------------------------------------------------------

type flaky struct {
	inner lungo.Store
	mu    sync.Mutex
	fail  int // fail the next n Store calls
}

func (f *flaky) Load() (*lungo.Catalog, error) { return f.inner.Load() }
func (f *flaky) Store(c *lungo.Catalog) error {
	f.mu.Lock()
	defer f.mu.Unlock()
	if f.fail > 0 {
		f.fail--
		return errors.New("injected store failure")
	}
	return f.inner.Store(c)
}

func faults(dir string, seed int64, runs int, table *enc.Table, trace *util.NDJSON) {
	for run := 0; run < runs; run++ {
		r := gen.New(seed*1000 + int64(run))
		sched := conc.NewSched(seed*1000+int64(run), 40)
		store := &flaky{inner: lungo.NewMemoryStore()}
		baseline := runtime.NumGoroutine()
		client, engine, err := lungo.Open(context.Background(), lungo.Options{Store: store})
		if err != nil {
			util.Die("open: %v", err)
		}
		coll := client.Database("d").Collection("c")
		coll.InsertOne(context.Background(), d("_id", int32(0), "n", int32(0), "s", "text"))
		coll.InsertOne(context.Background(), d("_id", int32(-1), "s", "text"))
		sched.Install()
		var wg sync.WaitGroup
		closeAt := -1
		if r.P(35) {
			closeAt = r.N(4)
		}
		actors := 2 + r.N(3)
		for a := 0; a < actors; a++ {
			wg.Add(1)
			go func(a int) {
				defer wg.Done()
				rr := gen.New(seed*1000 + int64(run)*10 + int64(a))
				for i := 0; i < 6; i++ {
					func() {
						defer func() { recover() }() // panics of callbacks are part of the scenario
						switch x := rr.N(100); {
						case x < 20:
							// cancelled / very short context around a write
							ctx, cancel := context.WithTimeout(context.Background(), time.Duration(rr.N(300))*time.Microsecond)
							coll.UpdateOne(ctx, d("_id", int32(0)), d("$inc", d("n", int32(1))))
							cancel()
						case x < 32:
							store.mu.Lock()
							store.fail = 1
							store.mu.Unlock()
							coll.InsertOne(context.Background(), d("_id", int32(a*100+i)))
						case x < 50:
							// session transaction: commit, abort, end without either, or a panicking callback
							client.UseSession(context.Background(), func(sc lungo.ISessionContext) error {
								how := rr.N(6)
								if how == 5 {
									// the UseSession callback itself panics with a transaction it started by hand: the session
									// is ended on the way out and the writer slot comes back
									if err := sc.StartTransaction(); err != nil {
										return err
									}
									coll.UpdateOne(sc, d("_id", int32(0)), d("$inc", d("n", int32(1))))
									panic("session callback panics with an open transaction")
								}
								if how == 4 {
									sc.WithTransaction(sc, func(sc2 lungo.ISessionContext) (interface{}, error) {
										coll.InsertOne(sc2, d("_id", int32(a*100+50+i)))
										panic("callback panics")
									})
									return nil
								}
								if err := sc.StartTransaction(); err != nil {
									return err
								}
								coll.UpdateOne(sc, d("_id", int32(0)), d("$inc", d("n", int32(1))))
								switch how {
								case 0:
									sc.CommitTransaction(sc)
								case 1:
									sc.AbortTransaction(sc)
								case 2:
									store.mu.Lock()
									store.fail = 1
									store.mu.Unlock()
									sc.CommitTransaction(sc)
								}
								return nil // case 3: the session ends with the transaction open
							})
						case x < 62:
							// a session ended by another goroutine while StartTransaction may be waiting
							sess, _ := client.StartSession()
							done := make(chan struct{})
							go func() {
								defer close(done)
								defer func() { recover() }()
								sess.StartTransaction()
							}()
							time.Sleep(time.Duration(rr.N(200)) * time.Microsecond)
							sess.EndSession(context.Background())
							select {
							case <-done:
							case <-time.After(15 * time.Second):
							}
							sess.AbortTransaction(context.Background())
						case x < 72:
							// collection-level operations that manage their own transaction, with a session context
							client.UseSession(context.Background(), func(sc lungo.ISessionContext) error {
								if rr.P(50) {
									sc.StartTransaction()
								}
								var wg2 sync.WaitGroup
								wg2.Add(1)
								go func() {
									defer wg2.Done()
									ctx, cancel := context.WithTimeout(sc, 200*time.Millisecond)
									defer cancel()
									client.Database("d").Collection("x" + strconv.Itoa(a)).Drop(ctx)
								}()
								sc.AbortTransaction(sc)
								wg2.Wait()
								return nil
							})
						case x < 82:
							cs, err := client.Watch(context.Background(), bson.A{})
							if err == nil {
								ctx, cancel := context.WithTimeout(context.Background(), time.Duration(rr.N(2000))*time.Microsecond)
								cs.Next(ctx)
								cancel()
								cs.Close(context.Background())
							}
						case x < 85:
							coll.Find(context.Background(), d())
						case x < 92:
							// calls that are refused after the writer slot was taken: an index build over duplicates (alone and
							// as the second of two), a duplicate key, an update that fails on the document, a drop of nothing
							switch rr.N(5) {
							case 0:
								coll.Indexes().CreateOne(context.Background(), dbt.MongoIndex(d("dup", int32(1)), true, nil))
							case 1:
								coll.Indexes().CreateMany(context.Background(), []mongo.IndexModel{dbt.MongoIndex(d("n", int32(1)), false, nil), dbt.MongoIndex(d("dup", int32(-1)), true, nil)})
							case 2:
								coll.InsertOne(context.Background(), d("_id", int32(0)))
							case 3:
								coll.UpdateMany(context.Background(), d(), d("$inc", d("s", int32(1))))
							default:
								coll.Indexes().DropOne(context.Background(), "nothing_1")
							}
						default:
							coll.UpdateOne(context.Background(), d("_id", int32(0)), d("$inc", d("n", int32(1))))
						}
					}()
					if a == 0 && i == closeAt {
						engine.Close()
					}
				}
			}(a)
		}
		ok := waitAll(&wg, 20*time.Second)
		sched.Quiet(true)
		conc.Uninstall()
		if !ok {
			finding("wedge", "fault scenario did not finish within 20 s: calls are blocked", V{"run": run, "stacks": stacks()})
			trace.Write(V{"fn": "proto", "hist": run, "events": sched.ProtoEvents(), "quiescent": false})
			return // goroutines are stuck inside the engine: nothing further can be trusted in this process
		}
		store.mu.Lock()
		store.fail = 0
		store.mu.Unlock()
		closed := closeAt >= 0
		probe(client, closed, "after a fault scenario", V{"run": run})
		trace.Write(V{"fn": "proto", "hist": run, "events": sched.ProtoEvents(), "quiescent": !closed})
		engine.Close()
		probe(client, true, "after Close", V{"run": run})
		// all background work must have stopped
		deadline := time.Now().Add(10 * time.Second)
		for runtime.NumGoroutine() > baseline && time.Now().Before(deadline) {
			time.Sleep(10 * time.Millisecond)
		}
		if n := runtime.NumGoroutine(); n > baseline {
			finding("wedge", "goroutines are still running after Close", V{"run": run, "before": baseline, "after": n, "stacks": stacks()})
		}
	}
}

// ---------------------------------------------------------------------------

// guided scenarios: forced interleavings taken from counterexamples / critical windows of EngineProto.
func guided(dir string, seed int64, table *enc.Table, trace *util.NDJSON) {
	type scen struct {
		name string
		run  func(client lungo.IClient, engine *lungo.Engine, s *conc.Sched) (hung bool)
	}
	within := func(d time.Duration, f func()) bool {
		done := make(chan struct{})
		go func() { defer close(done); defer func() { recover() }(); f() }()
		select {
		case <-done:
			return true
		case <-time.After(d):
			return false
		}
	}
	scens := []scen{
		// EngineProto counterexample: Begin holds the engine mutex and asks the session for its transaction while
		// AbortTransaction / CommitTransaction / EndSession hold the session mutex and call into the engine
		{"begin(session ctx) vs abort", func(client lungo.IClient, engine *lungo.Engine, s *conc.Sched) bool {
			for _, which := range []string{"abort", "commit", "end"} {
				gA := s.AddGate("A-"+which, "begin.enter")
				gB := s.AddGate("B-"+which, "session.locked")
				sess, _ := client.StartSession()
				sess.StartTransaction()
				ok := within(20*time.Second, func() {
					var wg sync.WaitGroup
					wg.Add(2)
					go func() {
						defer wg.Done()
						s.SetRole("A-" + which)
						ctx, cancel := context.WithTimeout(lungo.VerifSessionContext(context.Background(), sess), 2*time.Second)
						defer cancel()
						client.Database("d").Collection("g").Drop(ctx)
					}()
					go func() {
						defer wg.Done()
						s.SetRole("B-" + which)
						switch which {
						case "abort":
							sess.AbortTransaction(context.Background())
						case "commit":
							sess.CommitTransaction(context.Background())
						default:
							sess.EndSession(context.Background())
						}
					}()
					a, b := gA.Arrived(300*time.Millisecond), gB.Arrived(300*time.Millisecond)
					_ = a
					_ = b
					gA.Release()
					gB.Release()
					wg.Wait()
				})
				gA.Release()
				gB.Release()
				if !ok {
					return true
				}
			}
			return false
		}},
		// a writer waits for the slot while another transaction commits: it must start from the committed result
		{"writer queued behind a commit", func(client lungo.IClient, engine *lungo.Engine, s *conc.Sched) bool {
			coll := client.Database("d").Collection("q")
			coll.InsertOne(context.Background(), d("_id", int32(1), "n", int32(0)))
			for round := 0; round < 5; round++ {
				gW := s.AddGate("W"+strconv.Itoa(round), "begin.wait")
				sess, _ := client.StartSession()
				sess.StartTransaction()
				sctx := lungo.VerifSessionContext(context.Background(), sess)
				ok := within(20*time.Second, func() {
					var wg sync.WaitGroup
					wg.Add(1)
					go func() {
						defer wg.Done()
						s.SetRole("W" + strconv.Itoa(round))
						coll.UpdateOne(context.Background(), d("_id", int32(1)), d("$inc", d("n", int32(1))))
					}()
					gW.Arrived(2 * time.Second)
					coll.UpdateOne(sctx, d("_id", int32(1)), d("$inc", d("n", int32(10))))
					gW.Release()
					time.Sleep(2 * time.Millisecond)
					sess.CommitTransaction(context.Background())
					wg.Wait()
				})
				gW.Release()
				if !ok {
					return true
				}
				var doc bson.M
				coll.FindOne(context.Background(), d("_id", int32(1))).Decode(&doc)
				if want := int32(11 * (round + 1)); doc["n"] != want {
					finding("serial", "lost update: a writer that queued behind a committing transaction overwrote its result", V{"round": round, "n": doc["n"], "want": want})
				}
			}
			return false
		}},
		// shutdown while writers wait for the slot that a session transaction keeps: Close completes and the queued
		// calls return promptly, although the holder has not released anything
		{"close while writers are queued", func(client lungo.IClient, engine *lungo.Engine, s *conc.Sched) bool {
			coll := client.Database("d").Collection("z")
			coll.InsertOne(context.Background(), d("_id", int32(1), "n", int32(0)))
			sess, _ := client.StartSession()
			sess.StartTransaction()
			sctx := lungo.VerifSessionContext(context.Background(), sess)
			coll.UpdateOne(sctx, d("_id", int32(1)), d("$inc", d("n", int32(1)))) // the session now holds the writer slot
			var wg sync.WaitGroup
			errs := make([]error, 3)
			gates := []*conc.Gate{}
			for w := 0; w < 3; w++ {
				w := w
				g := s.AddGate("Q"+strconv.Itoa(w), "begin.wait")
				gates = append(gates, g)
				wg.Add(1)
				go func() {
					defer wg.Done()
					defer func() { recover() }()
					s.SetRole("Q" + strconv.Itoa(w))
					switch w {
					case 0:
						_, errs[w] = coll.UpdateOne(context.Background(), d("_id", int32(1)), d("$inc", d("n", int32(100))))
					case 1:
						_, errs[w] = coll.InsertOne(context.Background(), d("_id", int32(2)))
					default:
						errs[w] = client.Database("d").Collection("other").Drop(context.Background())
					}
				}()
			}
			for _, g := range gates {
				g.Arrived(2 * time.Second)
				g.Release()
			}
			time.Sleep(20 * time.Millisecond) // the writers are now waiting for the slot
			if !within(15*time.Second, engine.Close) {
				finding("wedge", "Engine.Close does not complete while writers are queued behind a session transaction", V{"stacks": stacks()})
				return false
			}
			if !waitAll(&wg, 15*time.Second) {
				finding("wedge", "writers queued for the slot are still blocked 15 s after Engine.Close", V{"stacks": stacks()})
				return false
			}
			for w, err := range errs {
				if err == nil {
					finding("wedge", "a write that was queued when the engine was closed reports success", V{"writer": w})
				}
			}
			sess.AbortTransaction(context.Background())
			sess.EndSession(context.Background())
			return false
		}},
	}
	for i, sc := range scens {
		s := conc.NewSched(seed+int64(i), 0)
		client, engine, err := lungo.Open(context.Background(), lungo.Options{Store: lungo.NewMemoryStore()})
		if err != nil {
			util.Die("open: %v", err)
		}
		s.Install()
		hung := sc.run(client, engine, s)
		s.Quiet(true)
		conc.Uninstall()
		if hung {
			finding("wedge", "deadlock in the forced interleaving '"+sc.name+"'", V{"stacks": stacks()})
			continue
		}
		closed := strings.HasPrefix(sc.name, "close ")
		probe(client, closed, "after the forced interleaving '"+sc.name+"'", nil)
		trace.Write(V{"fn": "proto", "hist": 1000 + i, "events": s.ProtoEvents(), "quiescent": !closed})
		engine.Close()
	}
}

func main() {
	if len(os.Args) < 4 {
		util.Die("usage: conc stress|faults|guided <dir> <seed> ...")
	}
	mode, dir := os.Args[1], os.Args[2]
	seed, _ := strconv.ParseInt(os.Args[3], 10, 64)
	table := enc.NewTable()
	trace := util.CreateNDJSON(filepath.Join(dir, "trace.ndjson"))
	arg := func(i, def int) int {
		if len(os.Args) > i {
			n, _ := strconv.Atoi(os.Args[i])
			return n
		}
		return def
	}
	switch mode {
	case "stress":
		stress(dir, seed, arg(4, 5), arg(5, 6), arg(6, 40), table, trace)
	case "faults":
		faults(dir, seed, arg(4, 20), table, trace)
	case "guided":
		guided(dir, seed, table, trace)
	case "systematic":
		n := systematic(dir, seed, arg(4, 40), arg(5, 40), false, table, trace)
		out.Encode(V{"kind": "schedules", "n": n})
	case "sysfaults":
		n := systematic(dir, seed, arg(4, 40), arg(5, 40), true, table, trace)
		out.Encode(V{"kind": "schedules", "n": n})
	default:
		util.Die("unknown mode")
	}
	trace.Close()
	util.WriteJSON(filepath.Join(dir, "strings.json"), table.JSON())
	keys := []string{}
	_ = sort.Strings
	_ = keys
	out.Encode(V{"kind": "summary", "cases": trace.N, "findings": findings})
}
