// Command c20 replays the grid enumerated by spec/gen/Robust.tla on the real code:
// every cell (call family, operator, argument class, path shape, document shape)
// is instantiated with concrete values and executed under recover() at the bsonkit /
// mongokit level and (for a deterministic sample) through the driver API.
//
//	c20 grid <cases.ndjson> <seed> <driver-every>
//
// Output: one JSON line per panic / hang / wedged engine, then a summary.
package main

import (
	"runtime/pprof"
	"bufio"
	"context"
	"encoding/json"
	"fmt"
	"math"
	"os"
	"strconv"
	"strings"
	"sync/atomic"
	"time"

	"go.mongodb.org/mongo-driver/bson"
	"go.mongodb.org/mongo-driver/bson/primitive"
	"go.mongodb.org/mongo-driver/mongo"
	"go.mongodb.org/mongo-driver/mongo/options"

	"github.com/256dpi/lungo"
	"github.com/256dpi/lungo/bsonkit"
	"github.com/256dpi/lungo/mongokit"

	"verif/harness/util"
)

type V = map[string]interface{}

type cell struct {
	Fam  string `json:"fam"`
	Op   string `json:"op"`
	Arg  string `json:"arg"`
	Path string `json:"path"`
	Doc  string `json:"doc"`
	// the options grid
	Upsert bool   `json:"upsert"`
	Match  string `json:"match"`
	After  bool   `json:"after"`
	Proj   string `json:"proj"`
	Sort   string `json:"sort"`
	Txn    bool   `json:"txn"`
}

// optionsCell runs one cell of the options grid: the call with exactly this combination of options on a small
// collection, inside a session transaction (committed afterwards) or on its own.
func optionsCell(client lungo.IClient, c cell) {
	coll := client.Database("r").Collection("o")
	coll.Drop(ctx)
	if c.Match != "nocoll" {
		coll.InsertMany(ctx, []interface{}{
			d("_id", int32(1), "a", int32(1), "b", bson.A{int32(1), int32(2), int32(3)}, "c", bson.A{d("x", int32(1)), d("x", int32(2))}),
			d("_id", int32(2), "a", int32(2), "b", bson.A{}, "c", "s"),
			d("_id", int32(3), "a", int32(2)),
		})
		if c.Match == "emptycoll" {
			coll.DeleteMany(ctx, bson.D{})
		}
	}
	var q bson.D
	switch c.Match {
	case "one":
		q = d("_id", int32(1))
	case "none":
		q = d("_id", int32(99))
	default:
		q = bson.D{}
	}
	var pr, so interface{}
	switch c.Proj {
	case "incl":
		pr = d("a", int32(1))
	case "excl":
		pr = d("a", int32(0))
	case "idonly":
		pr = d("_id", int32(1))
	case "noid":
		pr = d("_id", int32(0), "a", int32(1))
	case "slice":
		pr = d("b", d("$slice", int32(1)))
	case "elem":
		pr = d("c", d("$elemMatch", d("x", int32(2))), "b", d("$slice", bson.A{int32(1), int32(1)}))
	case "mixed":
		pr = d("a", int32(1), "b", int32(0))
	}
	switch c.Sort {
	case "asc":
		so = d("a", int32(1))
	case "desc":
		so = d("a", int32(-1), "_id", int32(-1))
	case "bad":
		so = d("a", "up")
	}
	rd := options.Before
	if c.After {
		rd = options.After
	}
	run := func(cx context.Context) {
		switch c.Op {
		case "findOneAndUpdate":
			o := options.FindOneAndUpdate().SetUpsert(c.Upsert).SetReturnDocument(rd)
			if pr != nil {
				o.SetProjection(pr)
			}
			if so != nil {
				o.SetSort(so)
			}
			var out bson.D
			coll.FindOneAndUpdate(cx, q, d("$inc", d("a", int32(1))), o).Decode(&out)
		case "findOneAndReplace":
			o := options.FindOneAndReplace().SetUpsert(c.Upsert).SetReturnDocument(rd)
			if pr != nil {
				o.SetProjection(pr)
			}
			if so != nil {
				o.SetSort(so)
			}
			var out bson.D
			coll.FindOneAndReplace(cx, q, d("a", int32(7)), o).Decode(&out)
		case "findOneAndDelete":
			o := options.FindOneAndDelete()
			if pr != nil {
				o.SetProjection(pr)
			}
			if so != nil {
				o.SetSort(so)
			}
			var out bson.D
			coll.FindOneAndDelete(cx, q, o).Decode(&out)
		case "updateOne":
			coll.UpdateOne(cx, q, d("$inc", d("a", int32(1))), options.Update().SetUpsert(c.Upsert))
		case "updateMany":
			coll.UpdateMany(cx, q, d("$inc", d("a", int32(1))), options.Update().SetUpsert(c.Upsert))
		case "replaceOne":
			coll.ReplaceOne(cx, q, d("a", int32(7)), options.Replace().SetUpsert(c.Upsert))
		case "deleteOne":
			coll.DeleteOne(cx, q)
		case "find":
			o := options.Find()
			if pr != nil {
				o.SetProjection(pr)
			}
			if so != nil {
				o.SetSort(so)
			}
			if c.After {
				o.SetSkip(1).SetLimit(1)
			}
			if cur, err := coll.Find(cx, q, o); err == nil {
				for cur.Next(cx) {
				}
				cur.Close(cx)
			}
		case "findOne":
			o := options.FindOne()
			if pr != nil {
				o.SetProjection(pr)
			}
			if so != nil {
				o.SetSort(so)
			}
			if c.After {
				o.SetSkip(1)
			}
			var out bson.D
			coll.FindOne(cx, q, o).Decode(&out)
		case "distinct":
			coll.Distinct(cx, map[bool]string{false: "a", true: "c.x"}[c.After], q)
		case "count":
			o := options.Count()
			if c.After {
				o.SetSkip(1).SetLimit(1)
			}
			coll.CountDocuments(cx, q, o)
		case "bulkWrite":
			coll.BulkWrite(cx, []mongo.WriteModel{
				mongo.NewUpdateOneModel().SetFilter(q).SetUpdate(d("$inc", d("a", int32(1)))).SetUpsert(c.Upsert),
				mongo.NewReplaceOneModel().SetFilter(q).SetReplacement(d("a", int32(7))).SetUpsert(c.Upsert),
				mongo.NewUpdateManyModel().SetFilter(q).SetUpdate(d("$set", d("z", int32(1)))).SetUpsert(c.Upsert),
				mongo.NewDeleteOneModel().SetFilter(q),
				mongo.NewInsertOneModel().SetDocument(d("_id", int32(1))),
			}, options.BulkWrite().SetOrdered(c.After))
		}
	}
	if !c.Txn {
		run(ctx)
		return
	}
	client.UseSession(ctx, func(sc lungo.ISessionContext) error {
		if err := sc.StartTransaction(); err != nil {
			return err
		}
		run(sc)
		if c.After {
			return sc.CommitTransaction(sc)
		}
		return sc.AbortTransaction(sc)
	})
}

var out = json.NewEncoder(os.Stdout)
var ctx = context.Background()
var panics, calls, driverCalls int
var current atomic.Value // description of the running call (for the watchdog)
var seen = map[string]int{}

func dec(s string) primitive.Decimal128 {
	v, err := primitive.ParseDecimal128(s)
	if err != nil {
		panic(err)
	}
	return v
}

func d(kv ...interface{}) bson.D {
	o := bson.D{}
	for i := 0; i+1 < len(kv); i += 2 {
		o = append(o, bson.E{Key: kv[i].(string), Value: kv[i+1]})
	}
	return o
}

func deep(n int) interface{} {
	if n == 0 {
		return int32(1)
	}
	return bson.D{{Key: "a", Value: bson.A{deep(n - 1), d("b", deep(n-1))}}}
}

func arg(class string) interface{} {
	switch class {
	case "null":
		return nil
	case "true":
		return true
	case "false":
		return false
	case "zero":
		return int32(0)
	case "negzero":
		return math.Copysign(0, -1)
	case "fraction":
		return 0.5
	case "negfraction":
		return -0.25
	case "tiny":
		return 1e-300
	case "int32":
		return int32(2)
	case "int64":
		return int64(3)
	case "double":
		return 1.5
	case "negative":
		return int32(-1)
	case "nan":
		return math.NaN()
	case "inf":
		return math.Inf(1)
	case "ninf":
		return math.Inf(-1)
	case "decimal":
		return dec("1.5")
	case "decnan":
		return dec("NaN")
	case "decinf":
		return dec("-Infinity")
	case "huge":
		return int64(math.MaxInt64)
	case "minint":
		return int64(math.MinInt64)
	case "minint32":
		return int32(math.MinInt32)
	case "mindouble":
		return float64(math.MinInt64) // -2^63, integral and the smallest double that converts to an int64
	case "maxdouble":
		return float64(1 << 63) // 2^63, integral and just outside the int64 range
	case "string":
		return "x"
	case "emptystr":
		return ""
	case "dollarstr":
		return "$x"
	case "dotstr":
		return "a.b"
	case "doc":
		return d("b", int32(1))
	case "emptydoc":
		return bson.D{}
	case "opdoc":
		return d("$gt", int32(1))
	case "baddoc":
		return d("$gt", int32(1), "b", int32(2))
	case "arr":
		return bson.A{int32(1), int32(2)}
	case "emptyarr":
		return bson.A{}
	case "arr1":
		return bson.A{int32(1)}
	case "arr2":
		return bson.A{int32(0), int32(1)}
	case "arr3":
		return bson.A{int32(1), "x", nil}
	case "nestedarr":
		return bson.A{bson.A{int32(1)}, bson.A{}}
	case "arrdocs":
		return bson.A{d("b", int32(1)), d("b", int32(2), "$c", int32(1)), bson.D{}}
	case "binary":
		return primitive.Binary{Subtype: 0, Data: []byte{1, 2}}
	case "oid":
		return primitive.ObjectID{1, 2, 3}
	case "date":
		return primitive.DateTime(1000)
	case "ts":
		return primitive.Timestamp{T: 1, I: 2}
	case "regex":
		return primitive.Regex{Pattern: "a", Options: "i"}
	default:
		return deep(5)
	}
}

func path(shape string) string {
	switch shape {
	case "top":
		return "a"
	case "nested":
		return "a.b"
	case "index":
		return "a.0"
	case "bigindex":
		return "a.99999"
	case "empty":
		return ""
	case "dotted-empty":
		return "a..b"
	case "trailing-dot":
		return "a."
	case "dollar":
		return "$a"
	case "pos-all":
		return "a.$[]"
	case "pos-id":
		return "a.$[x]"
	case "pos-unbound":
		return "a.$[zz].b"
	case "pos-implicit":
		return "a.$"
	case "missing":
		return "zz.y"
	case "through-array":
		return "a.b.c"
	default:
		return "_id"
	}
}

func doc(shape string) bson.D {
	switch shape {
	case "scalars":
		return d("_id", int32(1), "a", int32(1), "b", "s")
	case "arrays":
		return d("_id", int32(1), "a", bson.A{int32(1), int32(2), int32(3)}, "b", bson.A{})
	case "arrdocs":
		return d("_id", int32(1), "a", bson.A{d("b", int32(1), "c", bson.A{int32(1)}), d("b", d("c", int32(2))), int32(5)})
	case "nestedarr":
		return d("_id", int32(1), "a", bson.A{bson.A{int32(1), int32(2)}, bson.A{}, bson.A{d("b", int32(1))}})
	case "empty":
		return d("_id", int32(1))
	case "docid":
		return d("_id", d("k", int32(1), "l", bson.A{int32(1)}), "a", d("b", d("c", int32(1))))
	case "binid":
		return d("_id", primitive.Binary{Data: []byte{7}}, "a", bson.A{int32(1)})
	case "arrid":
		return d("_id", "s", "a", d("b", bson.A{d("c", int32(1)), d("c", bson.A{int32(2)})}))
	case "numkeys":
		return d("_id", int32(1), "a", d("0", int32(1), "1", d("b", int32(2)), "", int32(3)))
	default:
		return d("_id", int32(1), "a", deep(4))
	}
}

func guard(where string, c cell, fn func()) {
	calls++
	current.Store(fmt.Sprintf("%s %+v", where, c))
	defer func() {
		if r := recover(); r != nil {
			msg := fmt.Sprint(r)
			if strings.HasPrefix(msg, "lungo: ") {
				return // explicitly documented panics for unsupported options / nil arguments
			}
			panics++
			key := where + "|" + msg
			seen[key]++
			if seen[key] <= 3 {
				out.Encode(V{"kind": "panic", "where": where, "panic": msg, "cell": c})
			}
		}
	}()
	fn()
}

func clone(x bson.D) bsonkit.Doc { return bsonkit.MustConvert(x) }

func main() {
	if len(os.Args) < 5 || os.Args[1] != "grid" {
		util.Die("usage: c20 grid <cases.ndjson> <seed> <driver-every>")
	}
	f, err := os.Open(os.Args[2])
	if err != nil {
		util.Die("open: %v", err)
	}
	defer f.Close()
	every, _ := strconv.Atoi(os.Args[4])
	if every < 1 {
		every = 1
	}
	seed, _ := strconv.Atoi(os.Args[3])
	if pf := os.Getenv("C20_PROF"); pf != "" {
		f, _ := os.Create(pf)
		pprof.StartCPUProfile(f)
		defer pprof.StopCPUProfile()
	}
	ctx := context.Background()
	client, engine, err := lungo.Open(ctx, lungo.Options{Store: lungo.NewMemoryStore(), MinOplogSize: 2, MaxOplogSize: 8, MinOplogAge: time.Millisecond}) // a short change log keeps the per-write cost of the grid low
	if err != nil {
		util.Die("open: %v", err)
	}
	defer engine.Close()
	// watchdog: a call that does not return within 10 s is a hang
	go func() {
		last := ""
		since := time.Now()
		for {
			time.Sleep(500 * time.Millisecond)
			cur, _ := current.Load().(string)
			if cur != last {
				last, since = cur, time.Now()
			} else if cur != "" && cur != "done" && time.Since(since) > 30*time.Second {
				out.Encode(V{"kind": "hang", "where": cur})
				out.Encode(V{"kind": "summary", "cases": calls, "panics": panics, "aborted": true})
				os.Exit(0)
			}
		}
	}()
	coll := client.Database("r").Collection("c")
	probe := func(where string) {
		pctx, cancel := context.WithTimeout(ctx, 15*time.Second)
		defer cancel()
		if _, err := client.Database("r").Collection("probe").UpdateOne(pctx, d("_id", int32(1)), d("$inc", d("n", int32(1))), options.Update().SetUpsert(true)); err != nil {
			out.Encode(V{"kind": "wedge", "where": where, "err": err.Error()})
		}
	}
	sc := bufio.NewScanner(f)
	sc.Buffer(make([]byte, 1<<20), 1<<20)
	n, cells := 0, 0
	cover := map[string]bool{}
	for sc.Scan() {
		var c cell
		if json.Unmarshal(sc.Bytes(), &c) != nil {
			continue
		}
		cells++
		if c.Fam == "options" {
			cover[c.Fam+":"+c.Op+":"+c.Match+":"+c.Proj] = true
			driverCalls++
			guard(c.Op+" (options grid)", c, func() { optionsCell(client, c) })
			if driverCalls%400 == 0 {
				probe(fmt.Sprintf("after cell %+v", c))
			}
			continue
		}
		cover[c.Fam+":"+c.Op+":"+c.Arg] = true
		a, p, dc := arg(c.Arg), path(c.Path), doc(c.Doc)
		n++
		viaDriver := (n+seed)%every == 0
		reset := func() {
			coll.Drop(ctx)
			coll.InsertOne(ctx, dc)
		}
		switch c.Fam {
		case "query":
			var filters []bson.D
			switch c.Op {
			case "implicit":
				filters = []bson.D{d(p, a)}
			case "$and", "$or", "$nor":
				filters = []bson.D{d(c.Op, a), d(c.Op, bson.A{d(p, a)}), d(c.Op, bson.A{a}), d(p, d(c.Op, a))}
			case "$jsonSchema":
				filters = []bson.D{d("$jsonSchema", a), d("$jsonSchema", d("properties", d("a", d("type", a), "b", a), "required", a)), d("$jsonSchema", d("bsonType", a, "enum", a, "minimum", a, "maxItems", a, "items", a, "pattern", a))}
			case "$not":
				filters = []bson.D{d(p, d("$not", a)), d(p, d("$not", d("$gt", a))), d("$not", a)}
			case "$elemMatch":
				filters = []bson.D{d(p, d("$elemMatch", a)), d(p, d("$elemMatch", d("b", a))), d(p, d("$elemMatch", d("$gt", a)))}
			case "$mod":
				filters = []bson.D{d(p, d("$mod", a)), d(p, d("$mod", bson.A{a, int32(0)})), d(p, d("$mod", bson.A{int32(2), a})), d(p, d("$mod", bson.A{a, a, a}))}
			case "$in", "$nin", "$all":
				filters = []bson.D{d(p, d(c.Op, a)), d(p, d(c.Op, bson.A{a, a}))}
			default:
				filters = []bson.D{d(p, d(c.Op, a)), d(p, d(c.Op, a, "$exists", true))}
			}
			if strings.HasPrefix(c.Op, "$bits") && c.Arg == "binary" && c.Path == "top" {
				// binary values of every small length against positions, numeric and binary masks that end before, at and
				// after their last byte
				for _, bin := range [][]byte{{}, {0xff}, {0x01, 0x80}, {0, 0, 0, 0, 0, 0, 0, 0, 1}} {
					for _, operand := range []interface{}{bson.A{int32(0)}, bson.A{int32(7)}, bson.A{int32(8)}, bson.A{int32(15), int32(16)}, bson.A{int32(63), int32(64), int32(71), int32(72)},
						int32(255), int32(256), int64(65535), int64(1) << 40, primitive.Binary{Data: []byte{}}, primitive.Binary{Data: []byte{1}}, primitive.Binary{Data: []byte{0, 1}},
						primitive.Binary{Data: []byte{0, 0, 1}}, primitive.Binary{Data: []byte{0, 0, 0, 0, 0, 0, 0, 0, 0, 1}}} {
						fd, fq := d("f", primitive.Binary{Data: bin}), d("f", d(c.Op, operand))
						guard("mongokit.Match (binary field)", c, func() { mongokit.Match(clone(fd), clone(fq)) })
					}
				}
			}
			for _, q := range filters {
				guard("mongokit.Match", c, func() { mongokit.Match(clone(dc), clone(q)) })
				guard("mongokit.Extract", c, func() { mongokit.Extract(clone(q)) })
				if viaDriver {
					driverCalls++
					guard("Find/Count/Delete", c, func() {
						reset()
						if cur, err := coll.Find(ctx, q); err == nil {
							var all []bson.D
							cur.All(ctx, &all)
						}
						coll.CountDocuments(ctx, q)
						coll.UpdateOne(ctx, q, d("$set", d("z", int32(1))), options.Update().SetUpsert(true))
						coll.DeleteMany(ctx, q)
					})
				}
			}
		case "update":
			var upds []bson.D
			var afs []bson.D
			switch c.Op {
			case "replacement":
				upds = nil
			case "$push-each":
				upds = []bson.D{d("$push", d(p, d("$each", a))), d("$push", d(p, d("$each", bson.A{a, a})))}
			case "$push-position":
				upds = []bson.D{d("$push", d(p, d("$each", bson.A{int32(9)}, "$position", a)))}
			case "$push-sort":
				upds = []bson.D{d("$push", d(p, d("$each", bson.A{int32(9), d("b", int32(1))}, "$sort", a))), d("$push", d(p, d("$each", bson.A{}, "$sort", d("b", a))))}
			case "$push-slice":
				upds = []bson.D{d("$push", d(p, d("$each", bson.A{int32(9)}, "$slice", a)))}
			case "$addToSet-each":
				upds = []bson.D{d("$addToSet", d(p, d("$each", a)))}
			case "$rename":
				upds = []bson.D{d("$rename", d(p, a)), d("$rename", d("b", p))}
			case "$bit":
				upds = []bson.D{d("$bit", d(p, a)), d("$bit", d(p, d("and", a))), d("$bit", d(p, d("nope", int32(1))))}
			case "$currentDate":
				upds = []bson.D{d("$currentDate", d(p, a)), d("$currentDate", d(p, d("$type", a)))}
			default:
				upds = []bson.D{d(c.Op, d(p, a)), d(c.Op, a), d(c.Op, d(p, a, "b", a))}
			}
			if c.Path == "pos-id" || c.Path == "pos-unbound" {
				afs = []bson.D{d("x", a), d("x.b", d("$gt", a))}
			}
			for _, u := range upds {
				for _, upsert := range []bool{false, true} {
					guard("mongokit.Apply", c, func() {
						var list bsonkit.List
						for _, f := range afs {
							list = append(list, clone(f))
						}
						mongokit.Apply(clone(dc), clone(d("a", int32(1))), clone(u), upsert, list)
					})
				}
				if viaDriver {
					driverCalls++
					guard("UpdateOne/UpdateMany/FindOneAndUpdate", c, func() {
						reset()
						o := options.Update()
						fo := options.FindOneAndUpdate()
						if afs != nil {
							fl := []interface{}{}
							for _, f := range afs {
								fl = append(fl, f)
							}
							o.SetArrayFilters(options.ArrayFilters{Filters: fl})
							fo.SetArrayFilters(options.ArrayFilters{Filters: fl})
						}
						coll.UpdateOne(ctx, bson.D{}, u, o)
						coll.UpdateMany(ctx, bson.D{}, u, o)
						coll.FindOneAndUpdate(ctx, bson.D{}, u, fo)
						coll.UpdateOne(ctx, d("q", int32(1)), u, options.Update().SetUpsert(true))
						coll.BulkWrite(ctx, []mongo.WriteModel{mongo.NewUpdateOneModel().SetFilter(bson.D{}).SetUpdate(u)})
					})
				}
			}
			if c.Op == "replacement" && viaDriver {
				driverCalls++
				guard("ReplaceOne/FindOneAndReplace", c, func() {
					reset()
					repl := d("_id", dc[0].Value)
					if p != "" {
						repl = append(repl, bson.E{Key: p, Value: a})
					}
					coll.ReplaceOne(ctx, bson.D{}, repl)
					coll.FindOneAndReplace(ctx, bson.D{}, d(p, a))
					coll.ReplaceOne(ctx, d("q", a), d("v", a), options.Replace().SetUpsert(true))
				})
			}
		case "project":
			var projs []bson.D
			switch c.Op {
			case "flag":
				projs = []bson.D{d(p, a), d(p, a, "b", int32(1)), d(p, a, "b", int32(0))}
			case "$slice":
				projs = []bson.D{d(p, d("$slice", a)), d(p, d("$slice", bson.A{a, int32(1)})), d(p, d("$slice", bson.A{int32(1), a}))}
			case "$elemMatch":
				projs = []bson.D{d(p, d("$elemMatch", a)), d(p, d("$elemMatch", d("b", a)))}
			default:
				projs = []bson.D{d(p, d("$meta", a)), d("$x", a)}
			}
			for _, pr := range projs {
				guard("mongokit.Project", c, func() { mongokit.Project(clone(dc), clone(pr)) })
				if viaDriver {
					driverCalls++
					guard("Find(projection)", c, func() {
						reset()
						if cur, err := coll.Find(ctx, bson.D{}, options.Find().SetProjection(pr)); err == nil {
							var all []bson.D
							cur.All(ctx, &all)
						}
						coll.FindOneAndDelete(ctx, bson.D{}, options.FindOneAndDelete().SetProjection(pr))
					})
				}
			}
		default:
			switch c.Op {
			case "sort":
				guard("mongokit.Sort", c, func() { mongokit.Sort(bsonkit.List{clone(dc), clone(doc("scalars")), clone(doc("arrays"))}, clone(d(p, a))) })
				guard("bsonkit.Compare", c, func() {
					bsonkit.Compare(a, dc)
					bsonkit.Compare(dc, a)
					bsonkit.Compare(a, a)
				})
				if viaDriver {
					driverCalls++
					guard("Find(sort)", c, func() {
						reset()
						if cur, err := coll.Find(ctx, bson.D{}, options.Find().SetSort(d(p, a))); err == nil {
							var all []bson.D
							cur.All(ctx, &all)
						}
						coll.FindOneAndUpdate(ctx, bson.D{}, d("$set", d("z", int32(1))), options.FindOneAndUpdate().SetSort(d(p, a, "b", int32(-1))))
					})
				}
			case "distinct":
				guard("mongokit.Distinct", c, func() { mongokit.Distinct(bsonkit.List{clone(dc), clone(d("_id", int32(2), "a", a))}, p) })
				if viaDriver && p != "" {
					driverCalls++
					guard("Distinct", c, func() { reset(); coll.Distinct(ctx, p, bson.D{}) })
				}
			case "index-key", "index-partial":
				if viaDriver {
					driverCalls++
					guard("CreateIndex", c, func() {
						reset()
						coll.InsertOne(ctx, d("_id", int32(2), "a", a))
						if c.Op == "index-key" {
							coll.Indexes().CreateOne(ctx, mongo.IndexModel{Keys: d(p, a)})
							coll.Indexes().CreateOne(ctx, mongo.IndexModel{Keys: d(p, int32(1), "b", int32(-1)), Options: options.Index().SetUnique(true)})
						} else {
							coll.Indexes().CreateOne(ctx, mongo.IndexModel{Keys: d("a", int32(1)), Options: options.Index().SetPartialFilterExpression(d(p, a)).SetUnique(true)})
						}
						coll.InsertOne(ctx, d("_id", int32(3), "a", a, "b", a))
						coll.UpdateMany(ctx, bson.D{}, d("$set", d("b", a)))
						coll.DeleteMany(ctx, bson.D{})
						coll.Indexes().DropAll(ctx)
					})
				}
			case "skip-limit":
				if viaDriver {
					var nn int64
					switch x := a.(type) {
					case int32:
						nn = int64(x)
					case int64:
						nn = x
					case float64:
						if !math.IsNaN(x) && !math.IsInf(x, 0) {
							nn = int64(x)
						}
					default:
						continue
					}
					driverCalls++
					guard("Find(skip,limit)", c, func() {
						reset()
						for _, o := range []*options.FindOptions{options.Find().SetSkip(nn), options.Find().SetLimit(nn), options.Find().SetSkip(nn).SetLimit(nn), options.Find().SetSkip(1).SetLimit(nn)} {
							if cur, err := coll.Find(ctx, bson.D{}, o); err == nil {
								var all []bson.D
								cur.All(ctx, &all)
							}
						}
						coll.CountDocuments(ctx, bson.D{}, options.Count().SetSkip(nn).SetLimit(nn))
						coll.FindOne(ctx, bson.D{}, options.FindOne().SetSkip(nn))
					})
				}
			case "arrayFilters":
				guard("mongokit.Apply(arrayFilters)", c, func() {
					var list bsonkit.List
					if ad, ok := a.(bson.D); ok {
						list = append(list, clone(ad))
					}
					list = append(list, clone(d("x", a)), clone(d("x.b", a, "y", a)))
					mongokit.Apply(clone(dc), clone(bson.D{}), clone(d("$set", d("a.$[x].b", int32(1), "a.$[y]", a))), false, list)
				})
			case "insert":
				if viaDriver {
					driverCalls++
					guard("InsertOne/InsertMany", c, func() {
						reset()
						coll.InsertOne(ctx, d("_id", a, "v", int32(1)))
						coll.InsertOne(ctx, d("_id", a, "v", int32(2)))
						if p != "" {
							coll.InsertOne(ctx, d(p, a))
						}
						coll.InsertMany(ctx, []interface{}{d("_id", a), d("x", a), dc})
						coll.UpdateOne(ctx, d("_id", a), d("$set", d("w", a)))
						coll.ReplaceOne(ctx, d("_id", a), d("w", int32(1)))
						coll.DeleteOne(ctx, d("_id", a))
					})
				}
			case "id":
				if viaDriver {
					driverCalls++
					guard("writes on odd _id", c, func() {
						reset()
						coll.UpdateOne(ctx, bson.D{}, d("$set", d("_id", a)))
						coll.UpdateOne(ctx, bson.D{}, d("$set", d("w", a)))
						coll.ReplaceOne(ctx, bson.D{}, d("_id", a, "w", int32(1)))
						coll.ReplaceOne(ctx, bson.D{}, d("w", int32(2)))
						coll.FindOneAndReplace(ctx, bson.D{}, d("w", int32(3)))
						coll.FindOneAndDelete(ctx, d("_id", dc[0].Value))
					})
				}
			}
		}
		if viaDriver && driverCalls%400 == 0 {
			probe(fmt.Sprintf("after cell %+v", c))
		}
	}
	probe("at the end of the grid")
	current.Store("done")
	out.Encode(V{"kind": "summary", "cases": calls, "cells": cells, "driver_calls": driverCalls, "panics": panics, "distinct_cells": len(cover)})
}
