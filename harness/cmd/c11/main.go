// Command c11 produces update cases from the real mongokit.Apply for TLC and
// checks idempotence directly on the real code.
//
//	c11 gen <dir> <seed> <n>
package main

import (
	"context"
	"encoding/json"
	"fmt"
	"math"
	"os"
	"path/filepath"
	"sort"
	"strconv"
	"strings"

	"go.mongodb.org/mongo-driver/bson"
	"go.mongodb.org/mongo-driver/bson/primitive"
	"go.mongodb.org/mongo-driver/mongo/options"

	"github.com/256dpi/lungo"
	"github.com/256dpi/lungo/bsonkit"
	"github.com/256dpi/lungo/mongokit"

	"verif/harness/enc"
	"verif/harness/gen"
	"verif/harness/util"
)

var out = json.NewEncoder(os.Stdout)
var table = enc.NewTable()
var trace *util.NDJSON
var panics int

type result struct {
	err bool
	msg string
	doc bson.D
	rec map[string]interface{}
	pnc bool
}

func apply(doc bson.D, upd bson.D, afs []bson.D, upsert bool) (res result) {
	defer func() {
		if r := recover(); r != nil {
			panics++
			out.Encode(map[string]interface{}{"kind": "panic", "doc": table.Val(doc), "upd": table.Val(upd), "panic": fmt.Sprint(r)})
			res = result{pnc: true}
		}
	}()
	d := bsonkit.Clone(&doc)
	u := bsonkit.Clone(&upd)
	var list bsonkit.List
	for i := range afs {
		list = append(list, bsonkit.Clone(&afs[i]))
	}
	ch, err := mongokit.Apply(d, &bson.D{}, u, upsert, list)
	if err != nil {
		return result{err: true, msg: err.Error()}
	}
	return result{doc: *d, rec: ch.Changed}
}

func dec(s string) primitive.Decimal128 {
	d, err := primitive.ParseDecimal128(s)
	if err != nil {
		panic(err)
	}
	return d
}

func record(doc, upd bson.D, afs []bson.D, upsert bool) result {
	res := apply(doc, upd, afs, upsert)
	if res.pnc {
		return res
	}
	afl := make([]interface{}, 0, len(afs))
	for _, f := range afs {
		afl = append(afl, table.Val(f))
	}
	r := map[string]interface{}{"err": res.err}
	if !res.err {
		r["doc"] = table.Val(res.doc)
		keys := make([]string, 0, len(res.rec))
		for k := range res.rec {
			keys = append(keys, k)
		}
		sort.Strings(keys)
		rec := make([]interface{}, 0, len(keys))
		for _, k := range keys {
			table.Add(k)
			rec = append(rec, []interface{}{k, table.Val(res.rec[k])})
		}
		r["rec"] = rec
	}
	trace.Write(map[string]interface{}{"fn": "apply", "doc": table.Val(doc), "upd": table.Val(upd), "afs": afl, "upsert": upsert, "res": r})
	return res
}

// driverCheck runs the update through the driver API (InsertOne, UpdateOne,
// FindOne) and checks that the stored document is the one mongokit.Apply
// produced and that ModifiedCount is 1 exactly when the stored bytes changed.
var client lungo.IClient
var collSeq int

func driverCheck(doc, upd bson.D, afs []bson.D, applied result) (checked bool) {
	defer func() {
		if r := recover(); r != nil {
			panics++
			out.Encode(map[string]interface{}{"kind": "panic", "doc": table.Val(doc), "upd": table.Val(upd), "panic": "driver: " + fmt.Sprint(r)})
		}
	}()
	for _, e := range doc {
		if e.Key == "_id" {
			return false
		}
	}
	doc = append(bson.D{{Key: "_id", Value: int32(1)}}, doc...)
	applied = apply(doc, upd, afs, false)
	if applied.pnc {
		return false
	}
	ctx := context.Background()
	if client == nil {
		c, _, err := lungo.Open(ctx, lungo.Options{Store: lungo.NewMemoryStore()})
		if err != nil {
			util.Die("open: %v", err)
		}
		client = c
	}
	collSeq++
	coll := client.Database("d").Collection("c" + strconv.Itoa(collSeq%4))
	coll.Drop(ctx)
	if _, err := coll.InsertOne(ctx, doc); err != nil {
		return false
	}
	opts := options.Update()
	if len(afs) > 0 {
		fl := make([]interface{}, 0, len(afs))
		for _, f := range afs {
			fl = append(fl, f)
		}
		opts.SetArrayFilters(options.ArrayFilters{Filters: fl})
	}
	res, err := coll.UpdateOne(ctx, bson.D{{Key: "_id", Value: doc[0].Value}}, upd, opts)
	var stored bson.D
	if e := coll.FindOne(ctx, bson.D{}).Decode(&stored); e != nil {
		return false
	}
	if applied.err != (err != nil) {
		out.Encode(map[string]interface{}{"kind": "driver", "what": "rejection differs between mongokit.Apply and UpdateOne", "doc": table.Val(doc), "upd": table.Val(upd)})
		return true
	}
	if err != nil {
		if !sameBytes(stored, doc) {
			out.Encode(map[string]interface{}{"kind": "driver", "what": "rejected UpdateOne changed the stored document", "doc": table.Val(doc), "upd": table.Val(upd), "stored": table.Val(stored)})
		}
		return true
	}
	changed := !sameBytes(stored, doc)
	if (res.ModifiedCount == 1) != changed || res.MatchedCount != 1 {
		out.Encode(map[string]interface{}{"kind": "modified", "doc": table.Val(doc), "upd": table.Val(upd), "modified": res.ModifiedCount == 1, "stored": table.Val(stored)})
	}
	hasNow := false
	for _, e := range upd {
		if e.Key == "$currentDate" {
			hasNow = true
		}
	}
	if !hasNow && !sameBytes(stored, applied.doc) {
		out.Encode(map[string]interface{}{"kind": "driver", "what": "UpdateOne stored a different document than mongokit.Apply produced", "doc": table.Val(doc), "upd": table.Val(upd), "stored": table.Val(stored)})
	}
	// the same update once more, as an upsert: the document is matched, so nothing is inserted - also when the update
	// no longer changes anything
	res2, err2 := coll.UpdateOne(ctx, bson.D{{Key: "_id", Value: doc[0].Value}}, upd, opts.SetUpsert(true))
	n, _ := coll.CountDocuments(ctx, bson.D{})
	if err2 == nil && (res2.MatchedCount != 1 || res2.UpsertedCount != 0 || n != 1) {
		out.Encode(map[string]interface{}{"kind": "driver", "what": fmt.Sprintf("an upserting UpdateOne on a document that matches reports matched=%d upserted=%d and leaves %d documents",
			res2.MatchedCount, res2.UpsertedCount, n), "doc": table.Val(doc), "upd": table.Val(upd)})
	} else if err2 != nil && n != 1 {
		out.Encode(map[string]interface{}{"kind": "driver", "what": "a rejected upserting UpdateOne changed the number of documents", "doc": table.Val(doc), "upd": table.Val(upd)})
	}
	// and through a filter that is not on _id
	res3, err3 := coll.UpdateMany(ctx, bson.D{{Key: "_id", Value: bson.D{{Key: "$gte", Value: int32(0)}}}}, upd, opts)
	n, _ = coll.CountDocuments(ctx, bson.D{})
	if err3 == nil && (res3.MatchedCount != 1 || res3.UpsertedCount != 0 || n != 1) {
		out.Encode(map[string]interface{}{"kind": "driver", "what": fmt.Sprintf("an upserting UpdateMany on a document that matches reports matched=%d upserted=%d and leaves %d documents",
			res3.MatchedCount, res3.UpsertedCount, n), "doc": table.Val(doc), "upd": table.Val(upd)})
	}
	return true
}

// overlap: one path is a prefix of (or equal to) the other when a positional segment ($[], $[id]) stands for any
// array index: "a.$[]" and "a.1" address the same element once the array is long enough.
func overlap(p, q string) bool {
	a, b := strings.Split(p, "."), strings.Split(q, ".")
	isPos := func(s string) bool { return strings.HasPrefix(s, "$[") }
	isNum := func(s string) bool { _, err := strconv.Atoi(s); return err == nil }
	for i := 0; i < len(a) && i < len(b); i++ {
		if a[i] == b[i] || (isPos(a[i]) && (isPos(b[i]) || isNum(b[i]))) || (isPos(b[i]) && isNum(a[i])) {
			continue
		}
		return false
	}
	return true
}

var idempotent = map[string]bool{"$set": true, "$unset": true, "$min": true, "$max": true, "$addToSet": true, "$pull": true, "$pullAll": true}

func sameBytes(a, b bson.D) bool {
	x, e1 := bson.Marshal(a)
	y, e2 := bson.Marshal(b)
	return e1 == nil && e2 == nil && string(x) == string(y)
}

// boundaryGrid: $inc/$mul for every pair of integer boundary values in both integer kinds
// (the promotion and overflow rules of MongoDB are exact on integers).
func boundaryGrid() [][2]bson.D {
	one := func(doc bson.D, op, path string, v interface{}) [2]bson.D {
		return [2]bson.D{doc, {{Key: op, Value: bson.D{{Key: path, Value: v}}}}}
	}
	vals := []interface{}{int32(math.MinInt32), int32(math.MaxInt32), int32(-1), int32(0), int32(1), int32(2), int32(-2), int32(65536), int32(46341),
		int64(math.MinInt64), int64(math.MaxInt64), int64(-1), int64(0), int64(1), int64(2), int64(-2), int64(1 << 31), int64(-(1 << 31)), int64(1 << 62), int64(-(1 << 62)),
		int64(math.MaxInt64 - 1), int64(math.MinInt64 + 1), int64(3037000500), int64(math.MaxInt32), int64(math.MinInt32)}
	var out [][2]bson.D
	for _, x := range vals {
		for _, y := range vals {
			out = append(out, one(bson.D{{Key: "a", Value: x}}, "$inc", "a", y), one(bson.D{{Key: "a", Value: x}}, "$mul", "a", y))
		}
	}
	return out
}

// typeOnlyCases: updates whose only effect is a change of numeric kind (the bytes change, the value does not).
func typeOnlyCases() [][2]bson.D {
	one := func(doc bson.D, op, path string, v interface{}) [2]bson.D {
		return [2]bson.D{doc, {{Key: op, Value: bson.D{{Key: path, Value: v}}}}}
	}
	a := func(v interface{}) bson.D { return bson.D{{Key: "a", Value: v}} }
	return [][2]bson.D{
		one(a(int32(1)), "$set", "a", int64(1)), one(a(int32(1)), "$set", "a", float64(1)), one(a(int64(5)), "$set", "a", dec("5")),
		one(a(dec("5.0")), "$set", "a", dec("5")), one(a(float64(0)), "$set", "a", math.Copysign(0, -1)),
		one(a(int32(1)), "$inc", "a", float64(0)), one(a(int32(1)), "$inc", "a", int64(0)), one(a(int32(3)), "$mul", "a", int64(1)),
		one(a(int32(3)), "$mul", "a", float64(1)), one(a(int64(3)), "$mul", "a", dec("1")), one(a(int32(1)), "$max", "a", int64(1)),
		one(a(int32(1)), "$min", "a", float64(1)), one(a(bson.A{int32(1), int32(2)}), "$set", "a", bson.A{int64(1), int32(2)}),
		one(a(bson.D{{Key: "b", Value: int32(1)}}), "$set", "a.b", int64(1)), one(a(bson.A{int32(1)}), "$addToSet", "a", int64(1)),
	}
}

// specialValueCases: the array operators decide membership by BSON comparison, under which NaN equals NaN, the
// infinities equal themselves and -0 equals 0, for doubles and decimals alike.
func specialValueCases() [][2]bson.D {
	var out [][2]bson.D
	nan, pinf, ninf := math.NaN(), math.Inf(1), math.Inf(-1)
	a := func(v interface{}) bson.D { return bson.D{{Key: "a", Value: v}} }
	v := func(x interface{}) bson.D { return bson.D{{Key: "v", Value: x}} }
	docs := []bson.D{a(bson.A{nan, int32(1)}), a(bson.A{v(nan), v(int32(1))}), a(bson.A{pinf, ninf}), a(bson.A{dec("NaN"), dec("Infinity")}), a(bson.A{nil, "x", float64(0)}), a(bson.A{}),
		a(bson.A{nan, nan, int32(2)})}
	args := []struct {
		op string
		v  interface{}
	}{
		{"$addToSet", nan}, {"$addToSet", bson.D{{Key: "$each", Value: bson.A{nan, nan, int32(1)}}}}, {"$addToSet", v(nan)}, {"$addToSet", pinf}, {"$addToSet", dec("NaN")},
		{"$addToSet", math.Copysign(0, -1)}, {"$addToSet", bson.D{{Key: "$each", Value: bson.A{ninf, dec("-Infinity"), nil}}}},
		{"$pull", nan}, {"$pull", v(nan)}, {"$pull", pinf}, {"$pull", dec("NaN")}, {"$pull", bson.D{{Key: "$in", Value: bson.A{nan, nil}}}}, {"$pull", bson.D{{Key: "v", Value: nan}}},
		{"$pullAll", bson.A{nan}}, {"$pullAll", bson.A{v(nan), ninf}}, {"$pullAll", bson.A{dec("NaN"), int32(0)}}, {"$push", nan},
	}
	for _, d := range docs {
		for _, x := range args {
			out = append(out, [2]bson.D{d, {{Key: x.op, Value: bson.D{{Key: "a", Value: x.v}}}}})
		}
	}
	return out
}

// filteredCases: $[identifier] touches exactly the elements that satisfy the array filter, wherever they stand.
type filtered struct {
	doc, upd bson.D
	afs      []bson.D
}

func filteredCases() []filtered {
	e := func(k string, v interface{}) bson.D { return bson.D{{Key: k, Value: v}} }
	var out []filtered
	arrays := []bson.A{{int32(95), int32(70), int32(60)}, {int32(60), int32(95), int32(70), int32(99)}, {int32(1), int32(2)}, {int32(95)}, {}}
	for _, arr := range arrays {
		for _, u := range []bson.D{e("$set", e("g.$[x]", int32(90))), e("$inc", e("g.$[x]", int32(1))), e("$mul", e("g.$[x]", int32(2))), e("$max", e("g.$[x]", int32(96)))} {
			out = append(out, filtered{e("g", arr), u, []bson.D{e("x", e("$gte", int32(90)))}})
			out = append(out, filtered{e("g", arr), u, []bson.D{e("x", e("$lt", int32(65)))}})
		}
	}
	docs := bson.A{bson.D{{Key: "k", Value: "a"}, {Key: "n", Value: int32(1)}}, bson.D{{Key: "k", Value: "b"}, {Key: "n", Value: int32(2)}}, bson.D{{Key: "k", Value: "a"}, {Key: "n", Value: int32(3)}},
		bson.D{{Key: "k", Value: "c"}}}
	for _, u := range []bson.D{e("$set", e("items.$[x].n", int32(0))), e("$inc", e("items.$[x].n", int32(10))), e("$unset", e("items.$[x].n", "")), e("$set", e("items.$[x].tags", bson.A{"t"})),
		bson.D{{Key: "$set", Value: e("items.$[x].n", int32(7))}, {Key: "$inc", Value: e("items.$[y].m", int32(1))}}} {
		for _, f := range [][]bson.D{{e("x.k", "a"), e("y.k", "b")}, {e("x.k", "b"), e("y.k", "c")}, {e("x.n", e("$gte", int32(2))), e("y.n", e("$exists", false))}} {
			afs := f
			if len(u) == 1 {
				afs = f[:1]
			}
			out = append(out, filtered{e("items", docs), u, afs})
		}
	}
	return out
}

func fixedCases() [][2]bson.D {
	one := func(doc bson.D, op, path string, v interface{}) [2]bson.D {
		return [2]bson.D{doc, {{Key: op, Value: bson.D{{Key: path, Value: v}}}}}
	}
	a := func(v interface{}) bson.D { return bson.D{{Key: "a", Value: v}} }
	return [][2]bson.D{
		// numeric promotion boundaries
		one(a(int32(math.MaxInt32)), "$inc", "a", int32(1)),
		one(a(int32(math.MinInt32)), "$inc", "a", int32(-1)),
		one(a(int32(math.MaxInt32)), "$mul", "a", int32(2)),
		one(a(int32(65536)), "$mul", "a", int32(65536)),
		one(a(int32(math.MaxInt32)), "$inc", "a", int64(1)),
		one(a(int64(math.MaxInt64)), "$inc", "a", int64(1)),
		one(a(int64(math.MaxInt64)), "$inc", "a", int32(1)),
		one(a(int64(math.MinInt64)), "$inc", "a", int64(-1)),
		one(a(int64(math.MaxInt64)), "$mul", "a", int32(2)),
		one(a(int64(1<<62)), "$mul", "a", int64(2)),
		one(a(int64(1<<62)), "$mul", "a", int64(-2)),
		one(a(int64(math.MaxInt64-1)), "$inc", "a", int64(1)),
		one(a(int32(math.MaxInt32-1)), "$inc", "a", int32(1)),
		one(a(int64(1<<53)), "$inc", "a", int64(1)),
		one(a(int32(5)), "$inc", "a", float64(0.5)),
		one(a(int64(5)), "$mul", "a", float64(1.5)),
		one(a(float64(1.5)), "$inc", "a", dec("0.25")),
		one(a(dec("1.10")), "$mul", "a", int32(2)),
		one(a(dec("1.10")), "$inc", "a", dec("2.345")),
		one(bson.D{}, "$inc", "a", int64(3)),
		one(bson.D{}, "$mul", "a", float64(3)),
		one(bson.D{}, "$mul", "a", dec("3.0")),
		// push on a missing field with an empty $each
		one(bson.D{}, "$push", "a", bson.D{{Key: "$each", Value: bson.A{}}}),
		one(a(bson.A{int32(1)}), "$push", "a", bson.D{{Key: "$each", Value: bson.A{}}}),
	}
}

func main() {
	if len(os.Args) < 5 || os.Args[1] != "gen" {
		fmt.Fprintln(os.Stderr, "usage: c11 gen <dir> <seed> <n>")
		os.Exit(2)
	}
	dir := os.Args[2]
	seed, _ := strconv.ParseInt(os.Args[3], 10, 64)
	n, _ := strconv.Atoi(os.Args[4])
	g := gen.New(seed)
	trace = util.CreateNDJSON(filepath.Join(dir, "trace.ndjson"))
	errs, oks, idem, idemViol, modChecks := 0, 0, 0, 0, 0
		for _, fc := range fixedCases() {
		record(fc[0], fc[1], nil, false)
	}
	for _, fc := range boundaryGrid() {
		record(fc[0], fc[1], nil, false)
	}
	for _, fc := range filteredCases() {
		res := record(fc.doc, fc.upd, fc.afs, false)
		if !res.pnc && driverCheck(fc.doc, fc.upd, fc.afs, res) {
			modChecks++
		}
	}
	for _, fc := range specialValueCases() {
		res := record(fc[0], fc[1], nil, false)
		if !res.pnc && driverCheck(fc[0], fc[1], nil, res) {
			modChecks++
		}
	}
	for _, fc := range typeOnlyCases() {
		res := record(fc[0], fc[1], nil, false)
		if !res.pnc && driverCheck(fc[0], fc[1], nil, res) {
			modChecks++
		}
	}
	for i := 0; i < n; i++ {
		doc := g.Doc(2, g.P(10))
		upd, afs := g.Update(doc)
		upsert := g.P(15)
		res := record(doc, upd, afs, upsert)
		if res.pnc {
			continue
		}
		if !upsert && i%3 == 0 && driverCheck(doc, upd, afs, res) {
			modChecks++
		}
		if res.err {
			errs++
			continue
		}
		oks++
		// idempotence on the real code
		all := true
		var paths []string
		for _, e := range upd {
			if !idempotent[e.Key] {
				all = false
			}
			for _, c := range e.Value.(bson.D) {
				paths = append(paths, c.Key)
			}
		}
		// updates whose paths overlap are ill-formed for MongoDB (always a
		// conflict); lungo detects the conflict only when both operators
		// change something, so they are outside the idempotence claim
		for x := range paths {
			for y := range paths {
				if x != y && (paths[x] == paths[y] || strings.HasPrefix(paths[x], paths[y]+".") || overlap(paths[x], paths[y])) {
					all = false
				}
			}
		}
		if all {
			idem++
			again := record(res.doc, upd, afs, upsert)
			if again.pnc {
				continue
			}
			if again.err || !sameBytes(again.doc, res.doc) {
				idemViol++
				out.Encode(map[string]interface{}{"kind": "idempotence", "doc": table.Val(doc), "upd": table.Val(upd), "once": table.Val(res.doc),
					"twice": func() interface{} {
						if again.err {
							return "error: " + again.msg
						}
						return table.Val(again.doc)
					}()})
			}
		}
	}
	trace.Close()
	util.WriteJSON(filepath.Join(dir, "strings.json"), table.JSON())
	out.Encode(map[string]interface{}{"kind": "summary", "cases": trace.N, "ok": oks, "rejected": errs, "idempotence_checks": idem, "idempotence_violations": idemViol, "modified_checks": modChecks, "panics": panics})
}
