// Command c05 is the real-code side of property C05 (crash safety of the
// single-file store).
//
//	c05 writer <dir> <n> [seed]  opens an engine on lungo.NewFileStore(<dir>/db.bson) and performs a
//	                             deterministic history of n commits (session transactions over the
//	                             driver API: inserts, updates, deletes, index creation/drop,
//	                             collection creation/drop).  Before commit k it writes the canonical
//	                             dump of the state being committed to <dir>/expected-k.json
//	                             (expected-0.json = the state loaded at start) and prints "BEGIN k";
//	                             after the commit it prints "DONE k" or "FAIL k <err>" followed by
//	                             "VISIBLE k <sha of engine.Catalog() dump>"; it then goes on.
//	c05 load <dir>               loads <dir>/db.bson with a fresh FileStore/engine, prints one JSON
//	                             object {load, error, dump, sha, followup, ...}; after the dump it
//	                             performs one more commit (2 s deadline) and reloads once more.
//	c05 failstore <dir> <n> [seed]  engine-level fault grid: for every k the k-th Store call of the
//	                             history fails (before or after the inner FileStore ran): Commit must
//	                             return the error, engine.Catalog() must equal the last accepted
//	                             state, a reload must equal the file's last accepted state, a probe
//	                             write with a 2 s deadline must succeed.  One JSON line per case.
//
// The main goroutine is locked to the main OS thread so that all file system
// calls of a commit are issued by one thread: strace counts `when=` per thread.
package main

import (
	"context"
	"crypto/sha256"
	"encoding/hex"
	"encoding/json"
	"errors"
	"fmt"
	"os"
	"path/filepath"
	"runtime"
	"sort"
	"strconv"
	"strings"
	"time"

	"go.mongodb.org/mongo-driver/bson"
	"go.mongodb.org/mongo-driver/bson/primitive"
	"go.mongodb.org/mongo-driver/mongo"
	"go.mongodb.org/mongo-driver/mongo/options"

	"github.com/256dpi/lungo"
	"github.com/256dpi/lungo/bsonkit"

	"verif/harness/util"
)

func init() {
	runtime.LockOSThread()
}

// ---------------------------------------------------------------------------
// canonical dump

type idxDump struct {
	Name    string `json:"name"`
	Key     string `json:"key"`
	Unique  bool   `json:"unique"`
	Partial string `json:"partial"`
	Expiry  int64  `json:"expiry"`
}

type nsDump struct {
	Name    string    `json:"name"`
	Docs    []string  `json:"docs"`
	Indexes []idxDump `json:"indexes"`
}

type dump struct {
	Namespaces []nsDump `json:"namespaces"`
	OplogLen   int      `json:"oplog_len"`
	OplogIDs   []string `json:"oplog_ids"`
}

// ext renders a document through its BSON encoding (what the store would
// write) as canonical extended JSON.
func ext(doc bsonkit.Doc) string {
	if doc == nil {
		return ""
	}
	raw, err := bson.Marshal(*doc)
	if err != nil {
		return "MARSHAL-ERROR " + err.Error()
	}
	js, err := bson.MarshalExtJSON(bson.Raw(raw), true, false)
	if err != nil {
		return "hex:" + hex.EncodeToString(raw)
	}
	return string(js)
}

func dumpCatalog(cat *lungo.Catalog) *dump {
	d := &dump{Namespaces: []nsDump{}, OplogIDs: []string{}}
	for h, ns := range cat.Namespaces {
		nd := nsDump{Name: h.String(), Docs: []string{}, Indexes: []idxDump{}}
		for _, doc := range ns.Documents.List {
			nd.Docs = append(nd.Docs, ext(doc))
		}
		for name, idx := range ns.Indexes {
			cfg := idx.Config()
			part := ""
			if cfg.Partial != nil && len(*cfg.Partial) > 0 {
				part = ext(cfg.Partial)
			}
			nd.Indexes = append(nd.Indexes, idxDump{Name: name, Key: ext(cfg.Key), Unique: cfg.Unique, Partial: part, Expiry: int64(cfg.Expiry)})
		}
		sort.Slice(nd.Indexes, func(i, j int) bool { return nd.Indexes[i].Name < nd.Indexes[j].Name })
		d.Namespaces = append(d.Namespaces, nd)
		if h == lungo.Oplog {
			d.OplogLen = len(ns.Documents.List)
			for _, doc := range ns.Documents.List {
				id := bson.D{{Key: "_id", Value: bsonkit.Get(doc, "_id")}}
				d.OplogIDs = append(d.OplogIDs, ext(&id))
			}
		}
	}
	sort.Slice(d.Namespaces, func(i, j int) bool { return d.Namespaces[i].Name < d.Namespaces[j].Name })
	return d
}

func (d *dump) sha() string {
	buf, _ := json.Marshal(d)
	s := sha256.Sum256(buf)
	return hex.EncodeToString(s[:8])
}

func (d *dump) docCount() int {
	n := 0
	for _, ns := range d.Namespaces {
		n += len(ns.Docs)
	}
	return n
}

// ---------------------------------------------------------------------------
// the deterministic history

type rng struct{ s uint64 }

func (r *rng) next(n int) int {
	r.s = r.s*6364136223846793005 + 1442695040888963407
	return int((r.s >> 33) % uint64(n))
}

// step performs the operations of commit k through the driver API on ctx
// (a session context inside a transaction, or a plain context: then every
// call is its own commit).  Errors of single operations are tolerated (after
// a failed commit later steps meet a different state), the first insert
// guarantees that the transaction is dirty.
func step(ctx context.Context, client lungo.IClient, k int, seed int64, errs *[]error) (err error) {
	defer func() {
		if r := recover(); r != nil {
			err = fmt.Errorf("PANIC %v", r)
		}
	}()
	note := func(_ interface{}, e error) {
		if e != nil && errs != nil {
			*errs = append(*errs, e)
		}
	}
	r := &rng{s: uint64(seed)*1000003 + uint64(k)*7919}
	db := client.Database("app")
	items := db.Collection("items")
	logs := db.Collection("audit.logs.v2") // a collection name with dots (like GridFS's fs.files): it must come back under the same name
	pad := strings.Repeat("p", 40+r.next(400))
	_, err = items.InsertOne(ctx, bson.D{{Key: "_id", Value: int32(k)}, {Key: "v", Value: int64(k*10 + r.next(7))}, {Key: "s", Value: fmt.Sprintf("item-%d", k)},
		{Key: "pad", Value: pad}, {Key: "sub", Value: bson.D{{Key: "a", Value: bson.A{int32(1), "x", nil}}, {Key: "f", Value: 1.5 + float64(k)}}}})
	if err != nil {
		note(nil, err)
		return err
	}
	note(logs.InsertOne(ctx, bson.D{{Key: "_id", Value: fmt.Sprintf("log-%d", k)}, {Key: "msg", Value: fmt.Sprintf("commit %d", k)}, {Key: "n", Value: int32(r.next(100))}}))
	if k >= 2 {
		note(items.UpdateOne(ctx, bson.D{{Key: "_id", Value: int32(k - 1)}}, bson.D{{Key: "$set", Value: bson.D{{Key: "u", Value: int32(k)}}}, {Key: "$inc", Value: bson.D{{Key: "v", Value: int64(1000)}}}}))
	}
	if k >= 3 {
		note(items.DeleteOne(ctx, bson.D{{Key: "_id", Value: int32(k - 2)}}))
	}
	switch k % 6 {
	case 1:
		note(items.Indexes().CreateOne(ctx, mongo.IndexModel{Keys: bson.D{{Key: "v", Value: int32(1)}}, Options: options.Index().SetUnique(true)}))
	case 2:
		note(logs.Indexes().CreateOne(ctx, mongo.IndexModel{Keys: bson.D{{Key: "msg", Value: int32(-1)}}, Options: options.Index().SetName("by_msg").SetPartialFilterExpression(bson.D{{Key: "n", Value: bson.D{{Key: "$gt", Value: int32(5)}}}})}))
	case 3:
		note(nil, db.CreateCollection(ctx, "extra"))
		note(db.Collection("extra").InsertOne(ctx, bson.D{{Key: "_id", Value: "e"}, {Key: "k", Value: int32(k)}}))
	case 4:
		note(items.Indexes().DropOne(ctx, "v_1"))
		note(logs.UpdateMany(ctx, bson.D{}, bson.D{{Key: "$set", Value: bson.D{{Key: "seen", Value: true}}}}))
	case 5:
		note(nil, db.Collection("extra").Drop(ctx))
		note(logs.Indexes().CreateOne(ctx, mongo.IndexModel{Keys: bson.D{{Key: "at", Value: int32(1)}}, Options: options.Index().SetExpireAfterSeconds(3600)}))
	case 0:
		note(logs.DeleteMany(ctx, bson.D{{Key: "n", Value: bson.D{{Key: "$lt", Value: int32(50)}}}}))
		note(items.ReplaceOne(ctx, bson.D{{Key: "_id", Value: int32(k)}}, bson.D{{Key: "v", Value: int64(-k)}, {Key: "r", Value: true}}))
	}
	return nil
}

func sessionTxn(sc lungo.ISessionContext) *lungo.Transaction {
	switch s := sc.(type) {
	case lungo.SessionContext:
		return s.Session.Transaction()
	case *lungo.SessionContext:
		return s.Session.Transaction()
	}
	return nil
}

func writeExpected(dir string, k int, d *dump) {
	// write + rename so that a kill never leaves a partial expectation file
	p := filepath.Join(dir, fmt.Sprintf("expected-%d.json", k))
	util.WriteJSON(p+".part", map[string]interface{}{"sha": d.sha(), "dump": d})
	if err := os.Rename(p+".part", p); err != nil {
		util.Die("rename %s: %v", p, err)
	}
}

func say(format string, args ...interface{}) {
	// one write(2) per marker line
	_, _ = os.Stdout.WriteString(fmt.Sprintf(format, args...) + "\n")
}

func oneLine(err error) string {
	return strings.ReplaceAll(err.Error(), "\n", " ")
}

func writer(dir string, n int, seed int64) {
	store := lungo.NewFileStore(filepath.Join(dir, "db.bson"), 0666)
	client, engine, err := lungo.Open(nil, lungo.Options{Store: store})
	if err != nil {
		say("OPENFAIL %s", oneLine(err))
		os.Exit(3)
	}
	defer engine.Close()
	writeExpected(dir, 0, dumpCatalog(engine.Catalog()))
	say("READY")
	for k := 1; k <= n; k++ {
		var cerr error
		inflight := false
		uerr := func() (err error) {
			defer func() {
				if r := recover(); r != nil {
					err = fmt.Errorf("PANIC %v", r)
				}
			}()
			return client.UseSession(context.Background(), func(sc lungo.ISessionContext) error {
				if err := sc.StartTransaction(); err != nil {
					return err
				}
				if err := step(sc, client, k, seed, nil); err != nil {
					_ = sc.AbortTransaction(sc)
					return err
				}
				txn := sessionTxn(sc)
				if txn == nil {
					return errors.New("no session transaction")
				}
				writeExpected(dir, k, dumpCatalog(txn.Catalog()))
				inflight = true
				say("BEGIN %d", k)
				cerr = sc.CommitTransaction(sc)
				return nil
			})
		}()
		if uerr != nil {
			say("HARNESS %d %s", k, oneLine(uerr))
			os.Exit(2)
		}
		if !inflight {
			continue
		}
		if cerr != nil {
			say("FAIL %d %s", k, oneLine(cerr))
		} else {
			say("DONE %d", k)
		}
		say("VISIBLE %d %s", k, dumpCatalog(engine.Catalog()).sha())
	}
	say("END")
}

// ---------------------------------------------------------------------------
// load

type loadReport struct {
	Load     string `json:"load"` // ok | error | panic
	Error    string `json:"error"`
	Sha      string `json:"sha"`
	Dump     *dump  `json:"dump"`
	Followup string `json:"followup"` // ok | fail | timeout | skipped
	FollowE  string `json:"followup_error"`
	Reload   string `json:"reload"` // ok | differs | error
	TmpLeft  bool   `json:"tmp_left"`
}

// probe performs one more commit with a deadline.
func probe(client lungo.IClient, id string, deadline time.Duration) (string, string) {
	ctx, cancel := context.WithTimeout(context.Background(), deadline)
	defer cancel()
	done := make(chan error, 1)
	go func() {
		defer func() {
			if r := recover(); r != nil {
				done <- fmt.Errorf("PANIC %v", r)
			}
		}()
		_, err := client.Database("app").Collection("probe").InsertOne(ctx, bson.D{{Key: "_id", Value: id}, {Key: "at", Value: int32(1)}})
		done <- err
	}()
	select {
	case err := <-done:
		if err != nil {
			return "fail", oneLine(err)
		}
		return "ok", ""
	case <-time.After(deadline + 500*time.Millisecond):
		return "timeout", "probe write did not return within the deadline"
	}
}

func openEngine(path string) (client lungo.IClient, engine *lungo.Engine, err error) {
	defer func() {
		if r := recover(); r != nil {
			err = fmt.Errorf("PANIC %v", r)
		}
	}()
	return lungo.Open(nil, lungo.Options{Store: lungo.NewFileStore(path, 0666)})
}

func load(dir string) {
	path := filepath.Join(dir, "db.bson")
	rep := loadReport{Followup: "skipped", Reload: "skipped"}
	client, engine, err := openEngine(path)
	if err != nil {
		rep.Load = "error"
		if strings.HasPrefix(err.Error(), "PANIC") {
			rep.Load = "panic"
		}
		rep.Error = oneLine(err)
		_ = json.NewEncoder(os.Stdout).Encode(rep)
		return
	}
	rep.Load = "ok"
	rep.Dump = dumpCatalog(engine.Catalog())
	rep.Sha = rep.Dump.sha()
	rep.Followup, rep.FollowE = probe(client, fmt.Sprintf("after-load-%d", rep.Dump.OplogLen), 15*time.Second)
	if rep.Followup == "ok" {
		want := dumpCatalog(engine.Catalog()).sha()
		engine.Close()
		_, e2, err := openEngine(path)
		if err != nil {
			rep.Reload = "error"
			rep.FollowE = oneLine(err)
		} else {
			if dumpCatalog(e2.Catalog()).sha() == want {
				rep.Reload = "ok"
			} else {
				rep.Reload = "differs"
			}
			e2.Close()
		}
	}
	_, serr := os.Stat(path + ".tmp")
	rep.TmpLeft = serr == nil
	_ = json.NewEncoder(os.Stdout).Encode(rep)
}

// ---------------------------------------------------------------------------
// failstore: a Store whose k-th Store call fails

type failStore struct {
	inner lungo.Store
	calls int
	k     int
	after bool // run the inner store first, then report the failure
	mem   string
	last  string // sha of the last state the store accepted
}

var errInjected = errors.New("injected store failure")

func (f *failStore) Load() (*lungo.Catalog, error) { return f.inner.Load() }

func (f *failStore) Store(c *lungo.Catalog) error {
	f.calls++
	if f.calls == f.k {
		if f.after {
			_ = f.inner.Store(c)
			f.mem = dumpCatalog(c).sha()
		}
		return errInjected
	}
	if err := f.inner.Store(c); err != nil {
		return err
	}
	f.last = dumpCatalog(c).sha()
	f.mem = f.last
	return nil
}

type failCase struct {
	Kind      string `json:"kind"`
	K         int    `json:"k"`
	After     bool   `json:"after"`
	Mode      string `json:"mode"` // session | auto
	Commit    int    `json:"commit"`
	Reported  bool   `json:"reported"`   // Commit returned the injected error
	CatalogOK bool   `json:"catalog_ok"` // engine.Catalog() = last accepted state
	ReloadOK  bool   `json:"reload_ok"`  // fresh load of the file = last accepted state (or the failed one when after=true)
	ReloadNew bool   `json:"reload_new"` // the file holds the state of the failed commit (after=true only)
	Probe     string `json:"probe"`
	ProbeErr  string `json:"probe_error"`
	LaterOK   bool   `json:"later_ok"` // the rest of the history committed and the final reload equals the final catalog
	Detail    string `json:"detail"`
	Docs      int    `json:"docs"`
}

func runFail(dir string, n int, seed int64, k int, after bool, mode string) (fc failCase, calls int) {
	fc = failCase{Kind: "case", K: k, After: after, Mode: mode}
	defer func() {
		if r := recover(); r != nil {
			fc.Detail += fmt.Sprintf(" PANIC %v", r)
		}
	}()
	sub := filepath.Join(dir, fmt.Sprintf("fs-%s-%d-%v", mode, k, after))
	if err := os.MkdirAll(sub, 0777); err != nil {
		util.Die("mkdir: %v", err)
	}
	path := filepath.Join(sub, "db.bson")
	fs := &failStore{inner: lungo.NewFileStore(path, 0666), k: k, after: after}
	client, engine, err := lungo.Open(nil, lungo.Options{Store: fs})
	if err != nil {
		util.Die("open: %v", err)
	}
	defer engine.Close()
	fs.last = dumpCatalog(engine.Catalog()).sha()
	fs.mem = fs.last
	fc.LaterOK = true
	var sess *lungo.Session
	for c := 1; c <= n; c++ {
		before := fs.calls
		var cerr error
		if mode == "expire" {
			// commits made by TTL expiry passes (Transaction.Expire on a locked transaction, as the background loop does),
			// between commits that create the TTL index and insert documents that are already expired
			tc := client.Database("app").Collection("ttl")
			switch {
			case c == 1:
				_, cerr = tc.Indexes().CreateOne(context.Background(), mongo.IndexModel{Keys: bson.D{{Key: "at", Value: int32(1)}}, Options: options.Index().SetExpireAfterSeconds(1)})
			case c%2 == 0:
				_, cerr = tc.InsertMany(context.Background(), []interface{}{
					bson.D{{Key: "_id", Value: int32(c)}, {Key: "at", Value: primitive.NewDateTimeFromTime(time.Now().Add(-time.Hour))}},
					bson.D{{Key: "_id", Value: int32(1000 + c)}, {Key: "at", Value: primitive.NewDateTimeFromTime(time.Now().Add(time.Hour))}}})
			default:
				txn, err := engine.Begin(context.Background(), true)
				if err != nil {
					cerr = err
				} else if err = txn.Expire(); err != nil {
					engine.Abort(txn)
					cerr = err
				} else {
					cerr = engine.Commit(txn)
				}
			}
		} else if mode == "session" {
			// one session for the whole history: after a commit that the store rejected it is used again
			if sess == nil {
				s0, err := client.StartSession()
				if err != nil {
					util.Die("session: %v", err)
				}
				sess = s0.(*lungo.Session)
				defer sess.EndSession(context.Background())
			}
			sc := lungo.VerifSessionContext(context.Background(), sess)
			if err := sess.StartTransaction(); err != nil {
				cerr = err
			} else if err := step(sc, client, c, seed, nil); err != nil {
				_ = sess.AbortTransaction(context.Background())
			} else {
				cerr = sess.CommitTransaction(context.Background())
			}
		} else {
			// every driver call is its own commit
			ctx, cancel := context.WithTimeout(context.Background(), 15*time.Second)
			var errs []error
			_ = step(ctx, client, c, seed, &errs)
			cancel()
			for _, e := range errs {
				if errors.Is(e, errInjected) {
					cerr = e
				}
			}
		}
		hit := before < k && fs.calls >= k
		if !hit {
			if cerr != nil && !errors.Is(cerr, errInjected) {
				fc.LaterOK = false
				fc.Detail += fmt.Sprintf(" commit %d: %v;", c, cerr)
			}
			continue
		}
		// the k-th Store call happened inside this step
		fc.Commit = c
		fc.Reported = errors.Is(cerr, errInjected)
		fc.CatalogOK = dumpCatalog(engine.Catalog()).sha() == fs.last
		_, e2, err := openEngine(path)
		if err != nil {
			fc.Detail += " reload: " + oneLine(err)
		} else {
			got := dumpCatalog(e2.Catalog()).sha()
			fc.ReloadOK = got == fs.last
			fc.ReloadNew = after && got == fs.mem && got != fs.last
			e2.Close()
		}
		fc.Probe, fc.ProbeErr = probe(client, fmt.Sprintf("probe-%d", k), 15*time.Second)
	}
	final := dumpCatalog(engine.Catalog())
	fc.Docs = final.docCount()
	_, e3, err := openEngine(path)
	if err != nil {
		fc.LaterOK = false
		fc.Detail += " final reload: " + oneLine(err)
	} else {
		if dumpCatalog(e3.Catalog()).sha() != final.sha() {
			fc.LaterOK = false
			fc.Detail += " final reload differs from the engine's catalog;"
		}
		e3.Close()
	}
	return fc, fs.calls
}

func failstore(dir string, n int, seed int64) {
	out := json.NewEncoder(os.Stdout)
	total := 0
	for _, mode := range []string{"session", "auto", "expire"} {
		// k = 0 never fails: counts the Store calls of the history
		_, calls := runFail(dir, n, seed, 0, false, mode)
		for k := 1; k <= calls; k++ {
			for _, after := range []bool{false, true} {
				// a case normally takes milliseconds; if it does not finish, writes are blocked
				ch := make(chan failCase, 1)
				go func() {
					fc, _ := runFail(dir, n, seed, k, after, mode)
					ch <- fc
				}()
				select {
				case fc := <-ch:
					_ = out.Encode(fc)
				case <-time.After(40 * time.Second):
					_ = out.Encode(failCase{Kind: "case", K: k, After: after, Mode: mode, Reported: true, CatalogOK: true, ReloadOK: true, Probe: "timeout",
						ProbeErr: "the case did not finish within 20 s", Detail: "writes after the failed commit are blocked (the writer slot was not released)"})
					_ = out.Encode(map[string]interface{}{"kind": "summary", "cases": total, "aborted": true})
					os.Exit(0)
				}
				total++
			}
		}
		_ = out.Encode(map[string]interface{}{"kind": "calls", "mode": mode, "store_calls": calls})
	}
	_ = out.Encode(map[string]interface{}{"kind": "summary", "cases": total})
}

func main() {
	if len(os.Args) < 3 {
		fmt.Fprintln(os.Stderr, "usage: c05 writer <dir> <n> [seed] | load <dir> | failstore <dir> <n> [seed]")
		os.Exit(2)
	}
	dir := os.Args[2]
	n := 0
	seed := int64(1)
	if len(os.Args) > 3 {
		n, _ = strconv.Atoi(os.Args[3])
	}
	if len(os.Args) > 4 {
		seed, _ = strconv.ParseInt(os.Args[4], 10, 64)
	}
	switch os.Args[1] {
	case "writer":
		writer(dir, n, seed)
	case "load":
		load(dir)
	case "failstore":
		failstore(dir, n, seed)
	default:
		fmt.Fprintln(os.Stderr, "unknown sub-command")
		os.Exit(2)
	}
}
