// Command rd produces read-path cases (C13: sort/skip/limit/distinct, C14:
// projections) from the real lungo code for validation by TLC.
//
//	rd sort <dir> <seed> <n>   every case builds a collection through the driver API, then runs
//	                           Find / FindOne / FindOneAnd{Delete,Update,Replace} / Distinct with sort,
//	                           skip and limit options and logs {fn:"find"|"distinct", docs, ..., res}
//	rd proj <dir> <seed> <n>   every case evaluates mongokit.Project on a document and the same
//	                           projection through Find/FindOne/FindOneAndUpdate with SetProjection; the stored
//	                           document is re-read afterwards (non-mutation clause) and the returned
//	                           value is mutated before re-reading
//
// Findings that need no specification (stored document changed by a read, driver
// and mongokit.Project disagree, panic) are printed as JSON lines on stdout.
package main

import (
	"context"
	"encoding/json"
	"fmt"
	"math"
	"os"
	"path/filepath"
	"strconv"

	"go.mongodb.org/mongo-driver/bson"
	"go.mongodb.org/mongo-driver/bson/primitive"
	"go.mongodb.org/mongo-driver/mongo"
	"go.mongodb.org/mongo-driver/mongo/options"

	"github.com/256dpi/lungo"
	"github.com/256dpi/lungo/bsonkit"
	"github.com/256dpi/lungo/mongokit"

	"verif/harness/enc"
	"verif/harness/gen"
	"verif/harness/util"
)

var out = json.NewEncoder(os.Stdout)
var table = enc.NewTable()
var trace *util.NDJSON
var panics, findings int
var ctx = context.Background()

func finding(kind, what string, extra map[string]interface{}) {
	findings++
	m := map[string]interface{}{"kind": kind, "what": what}
	for k, v := range extra {
		m[k] = v
	}
	out.Encode(m)
}

func guard(what string, args map[string]interface{}, fn func()) {
	defer func() {
		if r := recover(); r != nil {
			panics++
			args["panic"] = fmt.Sprint(r)
			finding("panic", what, args)
		}
	}()
	fn()
}

func vals(list []bson.D) []interface{} {
	o := make([]interface{}, 0, len(list))
	for _, d := range list {
		o = append(o, table.Val(d))
	}
	return o
}

func sameBytes(a, b interface{}) bool {
	x, e1 := bson.Marshal(a)
	y, e2 := bson.Marshal(b)
	return e1 == nil && e2 == nil && string(x) == string(y)
}

// ---------------------------------------------------------------------------
// sort / window / distinct

var sortVals = []interface{}{int32(1), int32(2), int64(2), float64(2), int32(3), float64(1.5), "a", "b", nil, true,
	bson.A{int32(1), int32(3)}, bson.A{int32(2)}, bson.A{int32(3), int32(0)}, bson.A{"a", int32(2)}, bson.A{int64(2), float64(2)},
	math.NaN(), math.NaN(), math.Inf(1), math.Inf(-1), math.Copysign(0, -1), int32(0), // NaN sorts below every number and ties with itself
	// one or two values of the remaining type classes (the order between classes, dates against timestamps included)
	primitive.DateTime(1), primitive.DateTime(5), primitive.Timestamp{T: 1, I: 1}, primitive.Timestamp{T: 0, I: 9}, false,
	primitive.Binary{Data: []byte{1}}, primitive.ObjectID{1}, bson.D{{Key: "q", Value: int32(1)}}, primitive.Regex{Pattern: "a"}}

func sortDoc(g *gen.G, id int) bson.D {
	d := bson.D{{Key: "_id", Value: int32(id)}}
	for _, k := range []string{"a", "b", "c"} {
		switch r := g.N(10); {
		case r < 6:
			d = append(d, bson.E{Key: k, Value: sortVals[g.N(len(sortVals))]})
		case r < 8:
			d = append(d, bson.E{Key: k, Value: bson.D{{Key: "b", Value: sortVals[g.N(len(sortVals))]}}})
		case r == 8 && g.P(30):
			// outside the sort-key domain (empty array / array of sub-documents): only used when not sorted on
			if g.P(50) {
				d = append(d, bson.E{Key: k, Value: bson.A{}})
			} else {
				d = append(d, bson.E{Key: k, Value: g.Pick(bson.A{bson.D{{Key: "b", Value: int32(1)}}, bson.D{{Key: "b", Value: int32(3)}}},
					// leaf arrays below an array of sub-documents: distinct unwinds them as well
					bson.A{bson.D{{Key: "b", Value: bson.A{int32(1), int32(2)}}}, bson.D{{Key: "b", Value: bson.A{int32(2), int32(3)}}}},
					bson.A{bson.D{{Key: "b", Value: bson.A{"x"}}}, bson.D{{Key: "b", Value: "x"}}, bson.D{{Key: "c", Value: int32(1)}}})})
			}
		}
	}
	return d
}

func sortSpec(g *gen.G) bson.D {
	if g.P(12) {
		return nil
	}
	n := 1 + g.N(3)
	s := bson.D{}
	used := map[string]bool{}
	for i := 0; i < n; i++ {
		k := g.PickS("a", "b", "c", "a.b", "b.b", "_id", "a", "b")
		if used[k] {
			continue
		}
		used[k] = true
		var dir interface{} = g.Pick(int32(1), int32(-1), int32(1), int32(-1), int64(-1), float64(1), float64(-1))
		if g.P(3) {
			dir = g.Pick(int32(0), int32(2), "x", float64(0.5), nil)
		}
		s = append(s, bson.E{Key: k, Value: dir})
	}
	return s
}

func readFilter(g *gen.G, docs []bson.D) bson.D {
	switch r := g.N(10); {
	case r < 3:
		return bson.D{}
	case r < 5:
		return bson.D{{Key: g.PickS("a", "b", "c"), Value: bson.D{{Key: g.PickS("$gt", "$gte", "$lt", "$ne", "$exists"), Value: g.Pick(int32(1), int32(2), float64(1.5), "a", true)}}}}
	case r < 6:
		return bson.D{{Key: "_id", Value: bson.D{{Key: "$in", Value: bson.A{int32(g.N(6)), int32(g.N(6)), int32(g.N(6))}}}}}
	default:
		if len(docs) == 0 {
			return bson.D{}
		}
		return g.Filter(docs[g.N(len(docs))], 1)
	}
}

func cursorDocs(cur lungo.ICursor, err error) ([]bson.D, bool) {
	if err != nil {
		return nil, true
	}
	var res []bson.D
	if e := cur.All(ctx, &res); e != nil {
		return nil, true
	}
	if res == nil {
		res = []bson.D{}
	}
	return res, false
}

func single(sr lungo.ISingleResult) ([]bson.D, bool) {
	var d bson.D
	err := sr.Decode(&d)
	if err == mongo.ErrNoDocuments {
		return []bson.D{}, false
	}
	if err != nil {
		return nil, true
	}
	return []bson.D{d}, false
}

func logFind(via string, docs []bson.D, q, sort bson.D, skip, limit int, res []bson.D, isErr bool) {
	if sort == nil {
		sort = bson.D{}
	}
	r := map[string]interface{}{"err": isErr}
	if !isErr {
		r["docs"] = vals(res)
	}
	trace.Write(map[string]interface{}{"fn": "find", "via": via, "docs": vals(docs), "q": table.Val(q), "sort": table.Val(sort), "skip": skip, "limit": limit, "res": r})
}

func runSort(dir string, seed int64, n int) {
	g := gen.New(seed)
	client, _, err := lungo.Open(ctx, lungo.Options{Store: lungo.NewMemoryStore()})
	if err != nil {
		util.Die("open: %v", err)
	}
	coll := client.Database("d").Collection("c")
	for i := 0; i < n; i++ {
		nd := g.N(7)
		if g.P(25) {
			nd = 13 + g.N(8) // sort.Slice is an insertion sort up to 12 elements: stability needs larger lists
		}
		docs := make([]bson.D, 0, nd)
		order := g.R.Perm(21)
		for j := 0; j < nd; j++ {
			docs = append(docs, sortDoc(g, order[j]))
		}
		q := readFilter(g, docs)
		srt := sortSpec(g)
		skip, limit := 0, 0
		if g.P(60) {
			skip = g.N(5)
		}
		if g.P(60) {
			limit = g.N(5)
		}
		args := map[string]interface{}{"docs": vals(docs), "q": table.Val(q), "sort": table.Val(srt), "skip": skip, "limit": limit}
		decoys := i%2 == 1 // other documents are inserted in between and deleted again: the order of the rest is kept
		reset := func() {
			coll.Drop(ctx)
			if len(docs) > 0 {
				list := make([]interface{}, 0, 2*len(docs))
				var gone []interface{}
				for j, d := range docs {
					if decoys && (j%3 == 0 || j == len(docs)/2) {
						id := "decoy-" + strconv.Itoa(j)
						gone = append(gone, id)
						list = append(list, bson.D{{Key: "_id", Value: id}, {Key: "a", Value: int32(j)}})
					}
					list = append(list, d)
				}
				if _, err := coll.InsertMany(ctx, list); err != nil {
					util.Die("insert: %v", err)
				}
				for k, id := range gone {
					if k%2 == 0 {
						coll.DeleteOne(ctx, bson.D{{Key: "_id", Value: id}})
					}
				}
				if len(gone) > 0 {
					coll.DeleteMany(ctx, bson.D{{Key: "_id", Value: bson.D{{Key: "$in", Value: bson.A(gone)}}}})
				}
			}
		}
		guard("Find", args, func() {
			reset()
			fo := options.Find().SetSkip(int64(skip)).SetLimit(int64(limit))
			if srt != nil {
				fo.SetSort(srt)
			}
			res, isErr := cursorDocs(coll.Find(ctx, q, fo))
			logFind("Find", docs, q, srt, skip, limit, res, isErr)
			// a second, different ordering of the same collection, then the natural order: an earlier
			// sorted read must not influence later ones
			srt2 := sortSpec(g)
			fo2 := options.Find()
			if srt2 != nil {
				fo2.SetSort(srt2)
			}
			res, isErr = cursorDocs(coll.Find(ctx, q, fo2))
			logFind("Find", docs, q, srt2, 0, 0, res, isErr)
			res, isErr = cursorDocs(coll.Find(ctx, bson.D{}))
			logFind("Find", docs, bson.D{}, nil, 0, 0, res, isErr)
			// FindOne = window of one
			oo := options.FindOne().SetSkip(int64(skip))
			if srt != nil {
				oo.SetSort(srt)
			}
			res, isErr = single(coll.FindOne(ctx, q, oo))
			logFind("FindOne", docs, q, srt, skip, 1, res, isErr)
			// distinct
			path := g.PickS("a", "b", "c", "a.b", "_id", "b.b")
			dv, derr := coll.Distinct(ctx, path, q)
			r := map[string]interface{}{"err": derr != nil}
			if derr == nil {
				vs := make([]interface{}, 0, len(dv))
				for _, v := range dv {
					vs = append(vs, table.Val(v))
				}
				r["vals"] = vs
			}
			table.Add(path)
			trace.Write(map[string]interface{}{"fn": "distinct", "docs": vals(docs), "q": table.Val(q), "path": path, "res": r})
			// sorted one-document writes act on the first element of the ordering (the returned
			// document is the pre-image)
			switch g.N(3) {
			case 0:
				do := options.FindOneAndDelete()
				if srt != nil {
					do.SetSort(srt)
				}
				res, isErr = single(coll.FindOneAndDelete(ctx, q, do))
				logFind("FindOneAndDelete", docs, q, srt, 0, 1, res, isErr)
				if !isErr && len(res) == 1 {
					left, _ := cursorDocs(coll.Find(ctx, bson.D{}))
					want := make([]bson.D, 0, len(docs))
					for _, d := range docs {
						if !sameBytes(d, res[0]) {
							want = append(want, d)
						}
					}
					if len(left) != len(want) {
						finding("driver", "FindOneAndDelete did not remove exactly the returned document", args)
					}
				}
			case 1:
				uo := options.FindOneAndUpdate()
				if srt != nil {
					uo.SetSort(srt)
				}
				res, isErr = single(coll.FindOneAndUpdate(ctx, q, bson.D{{Key: "$set", Value: bson.D{{Key: "zz", Value: int32(1)}}}}, uo))
				logFind("FindOneAndUpdate", docs, q, srt, 0, 1, res, isErr)
				if !isErr && len(res) == 1 {
					cnt, _ := coll.CountDocuments(ctx, bson.D{{Key: "zz", Value: int32(1)}, {Key: "_id", Value: res[0][0].Value}})
					tot, _ := coll.CountDocuments(ctx, bson.D{{Key: "zz", Value: int32(1)}})
					if cnt != 1 || tot != 1 {
						finding("driver", "FindOneAndUpdate did not update exactly the returned document", args)
					}
				}
			default:
				ro := options.FindOneAndReplace()
				if srt != nil {
					ro.SetSort(srt)
				}
				res, isErr = single(coll.FindOneAndReplace(ctx, q, bson.D{{Key: "zz", Value: int32(1)}}, ro))
				logFind("FindOneAndReplace", docs, q, srt, 0, 1, res, isErr)
			}
		})
	}
}

// ---------------------------------------------------------------------------
// projections

func projDoc(g *gen.G) bson.D {
	d := bson.D{{Key: "_id", Value: g.Pick(int32(1), "id", bson.D{{Key: "k", Value: int32(1)}}, bson.D{{Key: "k", Value: bson.A{int32(1), int32(2), int32(3)}}, {Key: "j", Value: "x"}})}}
	arr := func() bson.A {
		n := g.N(5)
		a := bson.A{}
		for i := 0; i < n; i++ {
			if g.P(40) {
				a = append(a, bson.D{{Key: "b", Value: int32(g.N(4))}, {Key: "c", Value: g.PickS("x", "y")}})
			} else {
				a = append(a, g.Pick(int32(1), int32(2), int32(3), "x", int64(2), nil))
			}
		}
		return a
	}
	for _, k := range []string{"a", "b", "c"} {
		switch r := g.N(10); {
		case r < 3:
			d = append(d, bson.E{Key: k, Value: g.SimpleScalar()})
		case r < 6:
			sub := bson.D{}
			for _, kk := range []string{"b", "c", "d"} {
				switch g.N(4) {
				case 0:
					sub = append(sub, bson.E{Key: kk, Value: g.SimpleScalar()})
				case 1:
					sub = append(sub, bson.E{Key: kk, Value: arr()})
				case 2:
					sub = append(sub, bson.E{Key: kk, Value: bson.D{{Key: "c", Value: g.SimpleScalar()}, {Key: "d", Value: arr()}}})
				}
			}
			d = append(d, bson.E{Key: k, Value: sub})
		case r < 9:
			d = append(d, bson.E{Key: k, Value: arr()})
		}
	}
	return d
}

func projection(g *gen.G) bson.D {
	p := bson.D{}
	n := 1 + g.N(3)
	used := map[string]bool{}
	mode := g.N(3) // 0 include, 1 exclude, 2 mixed
	for i := 0; i < n; i++ {
		k := g.PickS("a", "b", "c", "a.b", "a.c", "b.c", "a.b.c", "a.b.d", "b.d", "_id", "a.d", "zz", "_id.k", "_id")
		if used[k] {
			continue
		}
		used[k] = true
		var v interface{}
		switch r := g.N(12); {
		case r < 6:
			inc := mode == 0 || (mode == 2 && g.P(50))
			if k == "_id" {
				inc = g.P(50)
			}
			if inc {
				v = g.Pick(int32(1), true, int64(1), float64(1), int32(1))
			} else {
				v = g.Pick(int32(0), false, int64(0), float64(0), int32(0))
			}
		case r < 8:
			v = bson.D{{Key: "$slice", Value: g.Pick(int32(0), int32(1), int32(2), int32(-1), int32(-2), int32(5), int32(-7), int64(2), float64(1))}}
		case r < 10:
			v = bson.D{{Key: "$slice", Value: bson.A{g.Pick(int32(0), int32(1), int32(2), int32(-1), int32(-2), int32(-9), int32(7), int64(1)), g.Pick(int32(0), int32(1), int32(2), int32(5), int64(1), float64(2))}}}
		case r < 11:
			if g.P(50) {
				v = bson.D{{Key: "$elemMatch", Value: bson.D{{Key: g.PickS("$gt", "$gte", "$lt", "$eq", "$ne"), Value: g.Pick(int32(1), int32(2), "x")}}}}
			} else {
				v = bson.D{{Key: "$elemMatch", Value: bson.D{{Key: "b", Value: g.Pick(int32(1), int32(2), bson.D{{Key: "$gt", Value: int32(0)}}, bson.D{{Key: "$lt", Value: int32(2)}})}}}}
			}
		default:
			v = g.Pick("x", int32(2), nil, bson.D{{Key: "b", Value: int32(1)}}, bson.D{{Key: "$slice", Value: "x"}}, bson.D{{Key: "$slice", Value: bson.A{int32(1), int32(-1)}}},
				bson.D{{Key: "$slice", Value: bson.A{int32(1)}}}, bson.D{{Key: "$elemMatch", Value: int32(1)}}, bson.D{{Key: "$foo", Value: int32(1)}})
		}
		p = append(p, bson.E{Key: k, Value: v})
	}
	return p
}

// scribble overwrites every container position reachable from v (caller-side
// mutation of a returned value).
func scribble(v interface{}) {
	switch x := v.(type) {
	case bson.D:
		for i := range x {
			scribble(x[i].Value)
			x[i].Value = "SCRIBBLED"
		}
	case *bson.D:
		scribble(*x)
	case bson.A:
		for i := range x {
			scribble(x[i])
			x[i] = "SCRIBBLED"
		}
	}
}

func runProj(dir string, seed int64, n int) {
	g := gen.New(seed)
	client, _, err := lungo.Open(ctx, lungo.Options{Store: lungo.NewMemoryStore()})
	if err != nil {
		util.Die("open: %v", err)
	}
	coll := client.Database("d").Collection("p")
	multi := client.Database("d").Collection("pm")
	var window []bson.D
	for i := 0; i < n; i++ {
		doc := projDoc(g)
		proj := projection(g)
		args := map[string]interface{}{"doc": table.Val(doc), "proj": table.Val(proj)}
		// 0. a result of several different documents: every one is projected on its own (nothing carries over from
		// the documents before it); each (document, projection) pair is also handed to the specification
		if i%2 == 0 && len(window) >= 2 {
			guard("Find over several documents", args, func() {
				multi.Drop(ctx)
				var want []bson.D
				rejected := false
				for j, wd := range window {
					wd = append(bson.D{{Key: "_id", Value: int32(j)}}, wd...)
					if _, err := multi.InsertOne(ctx, wd); err != nil {
						return
					}
					res, perr := mongokit.Project(bsonkit.Clone(&wd), bsonkit.Clone(&proj))
					r := map[string]interface{}{"err": perr != nil}
					if perr == nil {
						r["doc"] = table.Val(*res)
						want = append(want, *res)
					} else {
						rejected = true
					}
					trace.Write(map[string]interface{}{"fn": "project", "doc": table.Val(wd), "proj": table.Val(proj), "res": r})
				}
				got, isErr := cursorDocs(multi.Find(ctx, bson.D{}, options.Find().SetProjection(proj)))
				if isErr != rejected {
					finding("driver", "Find over several documents and mongokit.Project disagree on rejecting the projection", args)
				} else if !isErr {
					same := len(got) == len(want)
					for j := 0; same && j < len(got); j++ {
						same = sameBytes(got[j], want[j])
					}
					if !same {
						finding("driver", "Find over several documents returns something else than the projection of each document", map[string]interface{}{"proj": table.Val(proj), "docs": vals(window), "got": vals(got), "want": vals(want)})
					}
				}
			})
		}
		window = append(window, stripID(doc))
		if len(window) > 4 {
			window = window[1:]
		}
		guard("Project", args, func() {
			// 1. mongokit.Project on a private copy that plays the role of the stored document
			stored := bsonkit.Clone(&doc)
			p := bsonkit.Clone(&proj)
			res, perr := mongokit.Project(stored, p)
			r := map[string]interface{}{"err": perr != nil}
			if perr == nil {
				r["doc"] = table.Val(*res)
			}
			trace.Write(map[string]interface{}{"fn": "project", "doc": table.Val(doc), "proj": table.Val(proj), "res": r})
			if !sameBytes(*stored, doc) {
				finding("mutation", "mongokit.Project changed the document it projects", map[string]interface{}{"doc": table.Val(doc), "proj": table.Val(proj), "after": table.Val(*stored)})
			}
			if !sameBytes(*p, proj) {
				finding("mutation", "mongokit.Project changed the projection document", args)
			}
			// 2. through the driver API
			coll.Drop(ctx)
			if _, err := coll.InsertOne(ctx, doc); err != nil {
				return
			}
			var first []bson.D
			var firstErr bool
			for round := 0; round < 2; round++ {
				got, isErr := cursorDocs(coll.Find(ctx, bson.D{}, options.Find().SetProjection(proj)))
				if round == 0 {
					first, firstErr = got, isErr
					if isErr != (perr != nil) {
						finding("driver", "Find with projection and mongokit.Project disagree on rejection", args)
					} else if !isErr && (len(got) != 1 || !sameBytes(got[0], *mustProject(doc, proj))) {
						finding("driver", "Find with projection returns a different document than mongokit.Project", args)
					}
				} else if isErr != firstErr || (!isErr && (len(got) != len(first) || (len(got) == 1 && !sameBytes(got[0], first[0])))) {
					finding("mutation", "repeating a projected Find returns a different result", args)
				}
				one, oneErr := single(coll.FindOne(ctx, bson.D{}, options.FindOne().SetProjection(proj)))
				if oneErr != isErr || (!isErr && len(got) == 1 && (len(one) != 1 || !sameBytes(one[0], got[0]))) {
					finding("driver", "FindOne and Find disagree on a projection", args)
				}
				if !isErr && len(got) == 1 && round == 1 {
					scribble(got[0]) // caller-side mutation of a returned document
				}
				full, _ := cursorDocs(coll.Find(ctx, bson.D{}))
				if len(full) != 1 || !sameBytes(full[0], doc) {
					finding("mutation", "a projected read changed the stored document", map[string]interface{}{"doc": table.Val(doc), "proj": table.Val(proj), "after": vals(full)})
					return
				}
			}
			// FindOneAndUpdate with projection (pre-image), update is a no-op on the projected fields
			fu, fuErr := single(coll.FindOneAndUpdate(ctx, bson.D{}, bson.D{{Key: "$set", Value: bson.D{{Key: "zz9", Value: int32(1)}}}}, options.FindOneAndUpdate().SetProjection(proj)))
			if fuErr != firstErr || (!fuErr && len(first) == 1 && (len(fu) != 1 || !sameBytes(fu[0], first[0]))) {
				finding("driver", "FindOneAndUpdate with projection returns a different document than Find", args)
			}
			if fuErr {
				// a projection that is rejected makes the call an error, and a call that fails leaves the document as it was
				if full, _ := cursorDocs(coll.Find(ctx, bson.D{})); len(full) != 1 || !sameBytes(full[0], doc) {
					finding("mutation", "a FindOneAndUpdate whose projection is rejected changed the stored document", map[string]interface{}{"doc": table.Val(doc), "proj": table.Val(proj), "after": vals(full)})
				}
			}
			// the post-image of an upsert is projected like any other returned document (and an ill-formed projection
			// is rejected there as well)
			if i%3 == 0 {
				for _, how := range []string{"update", "replace"} {
					coll.Drop(ctx)
					body := stripID(doc)
					var up []bson.D
					var upErr bool
					if how == "update" {
						if len(body) == 0 {
							continue
						}
						up, upErr = single(coll.FindOneAndUpdate(ctx, bson.D{{Key: "_id", Value: int32(777)}}, bson.D{{Key: "$set", Value: body}},
							options.FindOneAndUpdate().SetUpsert(true).SetReturnDocument(options.After).SetProjection(proj)))
					} else {
						up, upErr = single(coll.FindOneAndReplace(ctx, bson.D{{Key: "_id", Value: int32(777)}}, body,
							options.FindOneAndReplace().SetUpsert(true).SetReturnDocument(options.After).SetProjection(proj)))
					}
					stored, _ := cursorDocs(coll.Find(ctx, bson.D{}))
					if upErr != firstErr {
						finding("driver", "an upserting FindOneAnd"+how+" and Find disagree on rejecting the projection", args)
					} else if !upErr && len(stored) == 1 {
						want, werr := mongokit.Project(bsonkit.Clone(&stored[0]), bsonkit.Clone(&proj))
						if werr != nil || len(up) != 1 || !sameBytes(up[0], *want) {
							finding("driver", "the post-image returned by an upserting FindOneAnd"+how+" is not the projection of the upserted document", args)
						}
					}
				}
			}
		})
	}
}

func stripID(doc bson.D) bson.D {
	out := bson.D{}
	for _, e := range doc {
		if e.Key != "_id" {
			out = append(out, e)
		}
	}
	return out
}

func mustProject(doc, proj bson.D) *bson.D {
	res, err := mongokit.Project(bsonkit.Clone(&doc), bsonkit.Clone(&proj))
	if err != nil {
		return &bson.D{}
	}
	return res
}

func main() {
	if len(os.Args) < 5 {
		util.Die("usage: rd sort|proj <dir> <seed> <n>")
	}
	dir := os.Args[2]
	seed, _ := strconv.ParseInt(os.Args[3], 10, 64)
	n, _ := strconv.Atoi(os.Args[4])
	trace = util.CreateNDJSON(filepath.Join(dir, "trace.ndjson"))
	switch os.Args[1] {
	case "sort":
		runSort(dir, seed, n)
	case "proj":
		runProj(dir, seed, n)
	default:
		util.Die("unknown mode")
	}
	trace.Close()
	util.WriteJSON(filepath.Join(dir, "strings.json"), table.JSON())
	out.Encode(map[string]interface{}{"kind": "summary", "cases": trace.N, "base": n, "panics": panics, "findings": findings})
}
