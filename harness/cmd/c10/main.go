// Command c10 produces match cases from the real mongokit.Match for TLC and
// checks the logical laws of property C10 directly on the real code.
//
//	c10 gen <dir> <seed> <n>   writes trace.ndjson (one case per line:
//	                           {fn:"match", doc, q, res}), strings.json and
//	                           prints law violations / panics as JSON lines and a summary
package main

import (
	"encoding/json"
	"fmt"
	"os"
	"path/filepath"
	"strconv"

	"go.mongodb.org/mongo-driver/bson"
	"go.mongodb.org/mongo-driver/bson/primitive"

	"github.com/256dpi/lungo/bsonkit"
	"github.com/256dpi/lungo/mongokit"

	"verif/harness/enc"
	"verif/harness/gen"
	"verif/harness/util"
)

type caseRec struct {
	doc bson.D
	q   bson.D
	res string
}

var out = json.NewEncoder(os.Stdout)
var table = enc.NewTable()
var trace *util.NDJSON
var panics int

func match(doc, q bson.D) (res string) {
	defer func() {
		if r := recover(); r != nil {
			panics++
			out.Encode(map[string]interface{}{"kind": "panic", "doc": table.Val(doc), "q": table.Val(q), "panic": fmt.Sprint(r)})
			res = "P"
		}
	}()
	d := bsonkit.Clone(&doc)
	qq := bsonkit.Clone(&q)
	ok, err := mongokit.Match(d, qq)
	if err != nil {
		return "E"
	}
	if ok {
		return "T"
	}
	return "F"
}

func record(doc, q bson.D) string {
	res := match(doc, q)
	if res != "P" {
		trace.Write(map[string]interface{}{"fn": "match", "doc": table.Val(doc), "q": table.Val(q), "res": res})
	}
	return res
}

func neg(r string) string {
	switch r {
	case "T":
		return "F"
	case "F":
		return "T"
	}
	return r
}

var lawChecks, lawViolations int

func law(name string, doc bson.D, lhs bson.D, lres string, expect string, parts interface{}) {
	lawChecks++
	if lres == "P" || expect == "P" {
		return
	}
	if lres != expect {
		lawViolations++
		out.Encode(map[string]interface{}{"kind": "law", "law": name, "doc": table.Val(doc), "q": table.Val(lhs), "got": lres, "expect": expect, "parts": parts,
			"docgo": fmt.Sprintf("%v", doc), "qgo": fmt.Sprintf("%v", lhs)})
	}
}

func and3(a, b string) string {
	if a == "E" || b == "E" || a == "P" || b == "P" {
		return "?"
	}
	if a == "T" && b == "T" {
		return "T"
	}
	return "F"
}
func or3(a, b string) string {
	if a == "E" || b == "E" || a == "P" || b == "P" {
		return "?"
	}
	if a == "T" || b == "T" {
		return "T"
	}
	return "F"
}

// numericNameCases: field names that are decimal numbers inside the documents of an array, addressed by a path
// whose numeric component is an existing index, an index past the end, or no index at all.
func numericNameCases() [][2]bson.D {
	var out [][2]bson.D
	e := func(k string, v interface{}) bson.D { return bson.D{{Key: k, Value: v}} }
	docs := []bson.D{
		e("items", bson.A{e("3", "x"), e("3", "y")}),
		e("items", bson.A{e("3", "x"), e("4", "y"), bson.D{}}),
		e("items", bson.A{e("0", int32(1)), e("1", int32(2))}),
		e("items", bson.A{int32(5), e("1", int32(2)), "s"}),
		e("items", bson.A{e("3", e("b", int32(1))), e("3", e("b", int32(2)))}),
		e("items", bson.A{e("b", int32(1)), e("b", int32(2))}),
		e("items", bson.A{}),
		e("items", e("3", "y")),
		e("m", e("items", bson.A{e("3", "x"), e("3", "y"), e("7", int32(1))})),
	}
	paths := []string{"items.3", "items.1", "items.0", "items.7", "items.3.b", "items.1.b", "m.items.3", "m.items.7", "m.items.2"}
	conds := []bson.D{e("$eq", "y"), e("$ne", "y"), e("$in", bson.A{"y", int32(2)}), e("$nin", bson.A{"x"}), e("$gte", "y"), e("$lt", int32(2)), e("$exists", true), e("$exists", false),
		e("$eq", int32(2)), e("$type", "string"), e("$not", e("$eq", "x")), e("$gt", int32(0)), e("$eq", int32(1))}
	for _, d := range docs {
		for _, p := range paths {
			for _, c := range conds {
				out = append(out, [2]bson.D{d, {{Key: p, Value: c}}})
			}
		}
	}
	return out
}

// bigNumberCases: longs beyond 2^53 against the neighbouring doubles (exact comparison in both directions and for
// both signs), through every comparison operator, $in and $all with repeated members.
func bigNumberCases() [][2]bson.D {
	var out [][2]bson.D
	e := func(k string, v interface{}) bson.D { return bson.D{{Key: k, Value: v}} }
	const p53 = int64(1) << 53
	vals := []interface{}{p53 + 1, p53, p53 - 1, -p53 - 1, -p53, -p53 + 1, float64(p53), float64(-p53), float64(p53) * 2, int64(1)<<62 + 1, float64(int64(1) << 62), int64(-(1 << 62)) - 1,
		-float64(int64(1) << 62), int64(9007199254740993), float64(9007199254740994)}
	for _, dv := range vals {
		for _, qv := range vals {
			for _, op := range []string{"$eq", "$ne", "$gt", "$gte", "$lt", "$lte"} {
				out = append(out, [2]bson.D{e("a", dv), e("a", e(op, qv))})
			}
			out = append(out, [2]bson.D{e("a", dv), e("a", qv)}, [2]bson.D{e("a", bson.A{dv, int32(1)}), e("a", e("$in", bson.A{qv, "x"}))},
				[2]bson.D{e("a", bson.A{dv, int32(1)}), e("a", e("$all", bson.A{qv, int32(1), qv}))})
		}
	}
	// $all whose members are met partly by elements and partly by the whole array
	out = append(out, [2]bson.D{e("c", bson.A{int64(12), nil, false}), e("c", e("$all", bson.A{int64(12), bson.A{int64(12), nil, false}}))},
		[2]bson.D{e("c", bson.A{int64(12), nil, false}), e("c", e("$all", bson.A{bson.A{int64(12), nil, false}}))},
		[2]bson.D{e("c", bson.A{int64(12), nil, false}), e("c", e("$all", bson.A{bson.A{int64(12), nil, false}, int32(13)}))},
		[2]bson.D{e("c", bson.A{bson.A{int32(1)}, int32(2)}), e("c", e("$all", bson.A{bson.A{int32(1)}, bson.A{bson.A{int32(1)}, int32(2)}}))})
	// $all with members listed twice, also through a fan-out path
	for _, d := range []bson.D{e("a", bson.A{int32(1), int32(2)}), e("a", bson.A{int32(1)}), e("a", int32(1)), e("a", bson.A{})} {
		for _, l := range []bson.A{{int32(1), int32(2), int32(1)}, {int32(1), int32(1)}, {int32(2), int32(1), int32(2), int32(1)}, {int32(1), int32(1), int32(3)}} {
			out = append(out, [2]bson.D{d, e("a", e("$all", l))})
		}
	}
	return out
}

// bitsCases: the $bits* operators on negative and positive numbers of every integer width and on integral doubles,
// with masks given as positions up to and past bit 63 (negative numbers are sign-extended to 64 bits whatever their
// width), as numbers and as binaries longer than four bytes.
func bitsCases() [][2]bson.D {
	var out [][2]bson.D
	fields := []interface{}{int32(-1), int32(-5), int64(-5), float64(-5), int32(5), int64(5), float64(5), int32(-1048576), int64(-1048576), int32(0),
		primitive.Binary{Data: []byte{5, 0, 0, 0, 1}}, primitive.Binary{Data: []byte{0xfb, 0xff, 0xff, 0xff, 0xff, 0xff, 0xff, 0xff}}}
	masks := []interface{}{bson.A{int32(32)}, bson.A{int32(31)}, bson.A{int32(33), int32(63)}, bson.A{int32(2), int32(40)}, bson.A{int32(0), int32(62)}, bson.A{int32(63)},
		bson.A{int32(64)}, bson.A{int32(2)}, bson.A{int32(0), int32(1)}, bson.A{int64(35), float64(1)}, int32(4), int32(5), int64(1048576),
		primitive.Binary{Data: []byte{0, 0, 0, 0, 1}}, primitive.Binary{Data: []byte{4, 0, 0, 0, 0, 0, 0, 128}}, primitive.Binary{Data: []byte{1, 0, 0, 0, 0, 0, 0, 0, 1}}}
	for _, f := range fields {
		for _, m := range masks {
			for _, op := range []string{"$bitsAllSet", "$bitsAllClear", "$bitsAnySet", "$bitsAnyClear"} {
				out = append(out, [2]bson.D{{{Key: "a", Value: f}}, {{Key: "a", Value: bson.D{{Key: op, Value: m}}}}})
			}
		}
	}
	return out
}

func fixedCases() [][2]bson.D {
	return append(append(append(numericNameCases(), bigNumberCases()...), bitsCases()...), [][2]bson.D{
		// KF-C10-1: $type "array" over a fan-out path
		{bson.D{{Key: "a", Value: bson.A{bson.D{{Key: "b", Value: bson.A{int32(1), int32(2)}}}}}}, bson.D{{Key: "a.b", Value: bson.D{{Key: "$type", Value: "array"}}}}},
		{bson.D{{Key: "a", Value: bson.A{bson.D{{Key: "b", Value: bson.A{}}}}}}, bson.D{{Key: "a.b", Value: bson.D{{Key: "$type", Value: int32(4)}}}}},
		// KF-C10-3: $size on a path that passes through two arrays; and through one array (agrees with the reference)
		{bson.D{{Key: "a", Value: bson.A{bson.D{{Key: "b", Value: bson.A{int32(1), int32(2)}}}}}}, bson.D{{Key: "a.b.c", Value: bson.D{{Key: "$size", Value: int32(2)}}}}},
		{bson.D{{Key: "a", Value: bson.A{bson.D{{Key: "b", Value: bson.A{bson.D{{Key: "c", Value: bson.A{int32(1), int32(2)}}}, bson.D{{Key: "c", Value: bson.A{int32(3)}}}}}}}}}, bson.D{{Key: "a.b.c", Value: bson.D{{Key: "$size", Value: int32(1)}}}}},
		{bson.D{{Key: "a", Value: bson.A{bson.D{{Key: "b", Value: bson.A{int32(1), int32(2)}}}, bson.D{{Key: "b", Value: bson.A{}}}}}}, bson.D{{Key: "a.b", Value: bson.D{{Key: "$size", Value: int32(2)}}}}},
		{bson.D{{Key: "a", Value: bson.A{bson.D{{Key: "b", Value: bson.A{int32(1), int32(2)}}}, bson.D{{Key: "b", Value: bson.A{}}}}}}, bson.D{{Key: "a.b", Value: bson.D{{Key: "$size", Value: int32(0)}}}}},
		// $type on missing and null fields
		{bson.D{}, bson.D{{Key: "a", Value: bson.D{{Key: "$type", Value: "null"}}}}},
		{bson.D{{Key: "a", Value: nil}}, bson.D{{Key: "a", Value: bson.D{{Key: "$type", Value: "null"}}}}},
	}...)
}

func main() {
	if len(os.Args) == 3 && os.Args[1] == "strings" {
		// string table for the bounded specification-level check
		for _, k := range []string{"a", "b", "c", "x", "1", "a.b", "a.0", "a.0.b", "a.1", "a.1.b", "a.b.c", "number", "string", "array", "object", "null", "int"} {
			table.Add(k)
		}
		util.WriteJSON(filepath.Join(os.Args[2], "strings.json"), table.JSON())
		return
	}
	if len(os.Args) < 5 || os.Args[1] != "gen" {
		fmt.Fprintln(os.Stderr, "usage: c10 gen <dir> <seed> <n>")
		os.Exit(2)
	}
	dir := os.Args[2]
	seed, _ := strconv.ParseInt(os.Args[3], 10, 64)
	n, _ := strconv.Atoi(os.Args[4])
	g := gen.New(seed)
	trace = util.CreateNDJSON(filepath.Join(dir, "trace.ndjson"))
	counts := map[string]int{}
	// fixed cases: witnesses of known findings and boundary cases
	for _, fc := range fixedCases() {
		counts[record(fc[0], fc[1])]++
	}
	for i := 0; i < n; i++ {
		nested := g.P(25)
		doc := g.Doc(2, nested)
		// 1. a random filter
		q := g.Filter(doc, 2)
		counts[record(doc, q)]++

		// 2. laws on a single condition
		p := g.Path()
		v := g.Operand(doc, g.P(60))
		one := func(op string, val interface{}) bson.D { return bson.D{{Key: p, Value: bson.D{{Key: op, Value: val}}}} }
		eq := record(doc, one("$eq", v))
		ne := record(doc, one("$ne", v))
		law("L2 $ne = not $eq", doc, one("$ne", v), ne, neg(eq), nil)
		// implicit equality equals $eq unless the literal is an operator document
		if d, ok := v.(bson.D); !ok || len(d) == 0 || len(d[0].Key) == 0 || d[0].Key[0] != '$' {
			imp := record(doc, bson.D{{Key: p, Value: v}})
			law("L2' implicit = $eq", doc, bson.D{{Key: p, Value: v}}, imp, eq, nil)
		}
		gt := record(doc, one("$gt", v))
		gte := record(doc, one("$gte", v))
		lt := record(doc, one("$lt", v))
		lte := record(doc, one("$lte", v))
		if e := or3(gt, eq); e != "?" {
			law("L7 $gte = $gt or $eq", doc, one("$gte", v), gte, e, nil)
		}
		if e := or3(lt, eq); e != "?" {
			law("L7 $lte = $lt or $eq", doc, one("$lte", v), lte, e, nil)
		}
		// $in / $nin
		m := g.N(4)
		list := make(bson.A, 0, m)
		for j := 0; j < m; j++ {
			list = append(list, g.Operand(doc, g.P(70)))
		}
		in := record(doc, one("$in", list))
		nin := record(doc, one("$nin", list))
		law("L3 $nin = not $in", doc, one("$nin", list), nin, neg(in), nil)
		disj := "F"
		for _, item := range list {
			r := record(doc, one("$eq", item))
			disj = or3(disj, r)
			if disj == "?" {
				break
			}
		}
		if disj != "?" && in != "E" {
			law("L6 $in = or of $eq", doc, one("$in", list), in, disj, nil)
		}
		// $not
		cond := g.OneOp(doc, 1)
		c1 := bson.D{{Key: p, Value: bson.D{cond}}}
		notc := bson.D{{Key: p, Value: bson.D{{Key: "$not", Value: bson.D{cond}}}}}
		r1 := record(doc, c1)
		rn := record(doc, notc)
		law("L4 $not = not", doc, notc, rn, neg(r1), nil)

		// 3. connectives
		q1 := g.Filter(doc, 1)
		q2 := g.Filter(doc, 1)
		a := record(doc, q1)
		b := record(doc, q2)
		if len(q1) > 0 && len(q2) > 0 {
			andq := bson.D{{Key: "$and", Value: bson.A{q1, q2}}}
			orq := bson.D{{Key: "$or", Value: bson.A{q1, q2}}}
			norq := bson.D{{Key: "$nor", Value: bson.A{q1, q2}}}
			ra := record(doc, andq)
			ro := record(doc, orq)
			rnor := record(doc, norq)
			if e := and3(a, b); e != "?" {
				law("L5 $and = conjunction", doc, andq, ra, e, nil)
			}
			if e := or3(a, b); e != "?" {
				law("L5 $or = disjunction", doc, orq, ro, e, nil)
			}
			law("L1 $nor = not $or", doc, norq, rnor, neg(ro), nil)
		}
	}
	schemaCases(g, n/4, counts)
	trace.Close()
	util.WriteJSON(filepath.Join(dir, "strings.json"), table.JSON())
	out.Encode(map[string]interface{}{"kind": "summary", "cases": trace.N, "base": n, "results": counts, "law_checks": lawChecks, "law_violations": lawViolations, "panics": panics})
}
