package main

import (
	"fmt"

	"go.mongodb.org/mongo-driver/bson"

	"github.com/256dpi/lungo/bsonkit"

	"verif/harness/gen"
)

// $jsonSchema: random schemas of the keyword subset of Schema.tla (and a few that leave it) applied to random
// values through bsonkit.Schema.Evaluate, and as {$jsonSchema: s} filters through mongokit.Match.

func e(k string, v interface{}) bson.E { return bson.E{Key: k, Value: v} }

func schemaOf(g *gen.G, depth int) bson.D {
	n := 1 + g.N(3)
	used := map[string]bool{}
	out := bson.D{}
	sub := func() bson.D {
		if depth <= 0 {
			return bson.D{e("type", g.PickS("number", "string", "object", "array", "null", "boolean"))}
		}
		return schemaOf(g, depth-1)
	}
	count := func() interface{} { return g.Pick(int32(0), int32(1), int32(2), int64(1), int32(3), int64(2)) }
	names := func(pool ...string) interface{} {
		if g.P(60) {
			return g.PickS(pool...)
		}
		a := bson.A{}
		for i := 0; i <= g.N(3); i++ {
			a = append(a, g.PickS(pool...))
		}
		return a
	}
	paths := func() bson.A {
		a := bson.A{}
		for i := 0; i <= g.N(2); i++ {
			a = append(a, g.PickS("a", "b", "c", "d", "a.b", "zz", "a.0"))
		}
		return a
	}
	for len(out) < n {
		k := g.PickS("type", "bsonType", "enum", "allOf", "anyOf", "oneOf", "not", "minimum", "maximum", "minLength", "maxLength", "required", "minProperties", "maxProperties",
			"properties", "additionalProperties", "dependencies", "items", "additionalItems", "minItems", "maxItems", "uniqueItems", "title", "properties", "type", "bsonType", "required", "patternProperties", "additionalProperties")
		if used[k] || (k == "type" && used["bsonType"]) || (k == "bsonType" && used["type"]) {
			continue
		}
		used[k] = true
		switch k {
		case "type":
			out = append(out, e(k, names("number", "string", "object", "array", "null", "boolean", "object", "number")))
		case "bsonType":
			out = append(out, e(k, names("int", "long", "double", "decimal", "string", "object", "array", "bool", "null", "number", "date", "objectId", "binData", "timestamp", "regex")))
		case "enum":
			a := bson.A{}
			for i := 0; i <= g.N(3); i++ {
				a = append(a, g.Value(1, false))
			}
			out = append(out, e(k, a))
		case "allOf", "anyOf", "oneOf":
			a := bson.A{}
			for i := 0; i <= g.N(3); i++ {
				a = append(a, sub())
			}
			out = append(out, e(k, a))
		case "not":
			out = append(out, e(k, sub()))
		case "minimum", "maximum":
			out = append(out, e(k, g.SmallNum()))
			if g.P(40) {
				out = append(out, e("exclusive"+map[string]string{"minimum": "Minimum", "maximum": "Maximum"}[k], g.P(70)))
			}
		case "minLength", "maxLength", "minProperties", "maxProperties", "minItems", "maxItems":
			out = append(out, e(k, count()))
		case "required":
			out = append(out, e(k, paths()))
		case "properties":
			p := bson.D{}
			for _, f := range []string{"a", "b", "c", "_id"} {
				if g.P(45) {
					p = append(p, e(f, sub()))
				}
			}
			out = append(out, e(k, p))
		case "patternProperties":
			p := bson.D{}
			for _, f := range []string{"^a", "b$", "^c$", "_", "^", "d", "^zz", "a.b"} {
				if g.P(30) {
					p = append(p, e(f, sub()))
				}
			}
			out = append(out, e(k, p))
		case "additionalProperties", "additionalItems":
			if g.P(60) {
				out = append(out, e(k, g.P(40)))
			} else {
				out = append(out, e(k, sub()))
			}
		case "dependencies":
			dd := bson.D{}
			for _, f := range []string{"a", "b", "zz"} {
				if g.P(50) {
					if g.P(60) {
						dd = append(dd, e(f, paths()))
					} else {
						dd = append(dd, e(f, sub()))
					}
				}
			}
			out = append(out, e(k, dd))
		case "items":
			if g.P(55) {
				out = append(out, e(k, sub()))
			} else {
				a := bson.A{}
				for i := 0; i < g.N(3); i++ {
					a = append(a, sub())
				}
				out = append(out, e(k, a))
			}
		case "uniqueItems":
			out = append(out, e(k, g.P(75)))
		case "title":
			out = append(out, e(k, "t"))
		}
	}
	return out
}

func evalSchema(s bson.D, v interface{}) (res string) {
	defer func() {
		if r := recover(); r != nil {
			panics++
			out.Encode(map[string]interface{}{"kind": "panic", "doc": table.Val(v), "q": table.Val(s), "panic": fmt.Sprint(r)})
			res = "P"
		}
	}()
	err := bsonkit.NewSchema(*bsonkit.Clone(&s)).Evaluate(bsonkit.MustConvertValue(v))
	switch {
	case err == nil:
		return "T"
	case err == bsonkit.ErrValidationFailed:
		return "F"
	}
	return "E"
}

// schemaCases records n schema evaluations and n filters.
func schemaCases(g *gen.G, n int, counts map[string]int) {
	fixed := [][2]interface{}{
		// property dependencies bind only when the property is there
		{bson.D{e("dependencies", bson.D{e("a", bson.A{"b"})})}, bson.D{e("x", int32(1))}},
		{bson.D{e("dependencies", bson.D{e("a", bson.A{"b"})})}, bson.D{e("a", int32(1))}},
		{bson.D{e("dependencies", bson.D{e("a", bson.A{"b"})})}, bson.D{e("a", int32(1)), e("b", int32(2))}},
		{bson.D{e("dependencies", bson.D{e("a", bson.D{e("required", bson.A{"c"})})})}, bson.D{e("x", int32(1))}},
		{bson.D{e("dependencies", bson.D{e("a", bson.D{e("required", bson.A{"c"})})})}, bson.D{e("a", int32(1))}},
	}
	// members matched by a pattern are not additional ones; prefix, suffix, exact and substring patterns
	for _, pat := range []string{"^ab", "ab$", "^ab$", "ab", "^", "x_1"} {
		for _, ap := range []interface{}{false, true, bson.D{e("type", "string")}, nil} {
			sc := bson.D{e("patternProperties", bson.D{e(pat, bson.D{e("type", "number")})})}
			if ap != nil {
				sc = append(sc, e("additionalProperties", ap))
			}
			if pat == "ab" {
				sc = append(sc, e("properties", bson.D{e("zab", bson.D{e("type", "string")})}))
			}
			for _, v := range []bson.D{{e("ab", int32(1))}, {e("abc", int32(1))}, {e("cab", int32(1))}, {e("cabc", "s")}, {e("ab", "s")}, {e("b", "s")}, {e("zab", "s"), e("ab", int32(2))}, {e("x_1", int32(1)), e("q", "s")}, {}} {
				fixed = append(fixed, [2]interface{}{sc, v})
			}
		}
	}
	for _, f := range fixed {
		s, v := f[0].(bson.D), f[1]
		if r := evalSchema(s, v); r != "P" {
			trace.Write(map[string]interface{}{"fn": "schema", "schema": table.Val(s), "value": table.Val(v), "res": r})
			counts["schema:"+r]++
		}
	}
	for i := 0; i < n; i++ {
		s := schemaOf(g, 2)
		var v interface{}
		if g.P(60) {
			v = g.Doc(2, false)
		} else {
			v = g.Value(2, false)
		}
		if r := evalSchema(s, v); r != "P" {
			trace.Write(map[string]interface{}{"fn": "schema", "schema": table.Val(s), "value": table.Val(v), "res": r})
			counts["schema:"+r]++
		}
		// as a filter, alone and under the connectives
		doc := g.Doc(2, false)
		q := bson.D{e("$jsonSchema", s)}
		r := record(doc, q)
		counts[r]++
		nor := bson.D{e("$nor", bson.A{q})}
		law("L1 $nor = not $jsonSchema", doc, nor, record(doc, nor), neg(r), nil)
		other := g.Filter(doc, 1)
		if len(other) > 0 {
			and := bson.D{e("$and", bson.A{q, other})}
			ro := record(doc, other)
			if x := and3(r, ro); x != "?" {
				law("L5 $and with $jsonSchema", doc, and, record(doc, and), x, nil)
			}
		}
	}
}
