// Command strtab writes the string table (strings.json) for specification-level
// TLC runs: strtab <dir> <string>...
package main

import (
	"os"
	"path/filepath"

	"verif/harness/enc"
	"verif/harness/util"
)

func main() {
	if len(os.Args) < 2 {
		util.Die("usage: strtab <dir> <string>...")
	}
	t := enc.NewTable()
	for _, s := range os.Args[2:] {
		t.Add(s)
	}
	util.WriteJSON(filepath.Join(os.Args[1], "strings.json"), t.JSON())
}
