// Command strm drives change streams on the real engine (property C09).
//
//	strm seq <dir> <seed> <histories>   sequential histories: writes, drops and drop-database on three namespaces,
//	        streams opened at random points on client / database / collection scope with start positions now,
//	        resumeAfter, startAfter and startAt; every TryNext call is recorded with the complete history of the
//	        change log ({fn:"snext"}); a retention scenario trims the log under a slow consumer.
//	strm conc <dir> <seed> <runs>       writers commit while consumers block in Next (hooks inject yields in the window
//	        between the consumer's check and its wait and before the commit's broadcast); a watchdog reports a consumer
//	        that has not caught up 3 s after the writers went quiet; blocked consumers must be woken by Close and by
//	        context cancellation; the delivered sequences are recorded ({fn:"sdeliv"}).
package main

import (
	"context"
	"encoding/json"
	"fmt"
	"os"
	"path/filepath"
	"runtime"
	"strconv"
	"strings"
	"sync"
	"time"

	"go.mongodb.org/mongo-driver/bson"
	"go.mongodb.org/mongo-driver/bson/primitive"
	"go.mongodb.org/mongo-driver/mongo/options"

	"github.com/256dpi/lungo"
	"github.com/256dpi/lungo/bsonkit"

	"verif/harness/conc"
	"verif/harness/gen"
	"verif/harness/util"
)

type V = map[string]interface{}

var out = json.NewEncoder(os.Stdout)
var outMu sync.Mutex
var findings int

func finding(kind, what string, extra V) {
	outMu.Lock()
	defer outMu.Unlock()
	findings++
	m := V{"kind": kind, "what": what}
	for k, v := range extra {
		m[k] = v
	}
	out.Encode(m)
}

func d(kv ...interface{}) bson.D {
	o := bson.D{}
	for i := 0; i+1 < len(kv); i += 2 {
		o = append(o, bson.E{Key: kv[i].(string), Value: kv[i+1]})
	}
	return o
}

func stacks() string {
	buf := make([]byte, 1<<20)
	n := runtime.Stack(buf, true)
	var keep []string
	for _, g := range strings.Split(string(buf[:n]), "\n\n") {
		if strings.Contains(g, "/repo/") {
			lines := strings.Split(g, "\n")
			if len(lines) > 10 {
				lines = lines[:10]
			}
			keep = append(keep, strings.Join(lines, "\n"))
		}
	}
	return strings.Join(keep, "\n\n")
}

type event struct {
	ts   primitive.Timestamp
	db   string
	coll string
	op   string
}

func idOf(ts primitive.Timestamp) string { return fmt.Sprintf("%d.%d", ts.T, ts.I) }

// history accumulates every event ever seen in the change log.
type history struct {
	evs   []event
	index map[string]int // id -> 1-based index
	first int
}

func (h *history) observe(engine *lungo.Engine) {
	list := engine.Catalog().Namespaces[lungo.Oplog].Documents.List
	if h.index == nil {
		h.index = map[string]int{}
	}
	for _, doc := range list {
		ts, _ := bsonkit.Get(doc, "_id.ts").(primitive.Timestamp)
		if _, ok := h.index[idOf(ts)]; ok {
			continue
		}
		db, _ := bsonkit.Get(doc, "ns.db").(string)
		coll, _ := bsonkit.Get(doc, "ns.coll").(string)
		op, _ := bsonkit.Get(doc, "operationType").(string)
		h.evs = append(h.evs, event{ts, db, coll, op})
		h.index[idOf(ts)] = len(h.evs)
	}
	h.first = len(h.evs) + 1
	if len(list) > 0 {
		ts, _ := bsonkit.Get(list[0], "_id.ts").(primitive.Timestamp)
		h.first = h.index[idOf(ts)]
	}
}

func (h *history) json() []interface{} {
	o := make([]interface{}, 0, len(h.evs))
	for _, e := range h.evs {
		o = append(o, V{"db": e.db, "coll": e.coll, "op": e.op, "id": idOf(e.ts)})
	}
	return o
}

type stream struct {
	cs          lungo.IChangeStream
	scope       [2]string
	start       int
	k           int
	invalidated bool
	closed      bool
	lastToken   bson.Raw
	lastIdx     int
	kind        string
}

func open(client lungo.IClient, scope [2]string, opts *options.ChangeStreamOptions) (lungo.IChangeStream, error) {
	ctx := context.Background()
	switch {
	case scope[0] == "":
		return client.Watch(ctx, bson.A{}, opts)
	case scope[1] == "":
		return client.Database(scope[0]).Watch(ctx, bson.A{}, opts)
	default:
		return client.Database(scope[0]).Collection(scope[1]).Watch(ctx, bson.A{}, opts)
	}
}

func (s *stream) tryNext(h *history, engine *lungo.Engine, trace *util.NDJSON, hist, step int) {
	h.observe(engine)
	ok := s.cs.TryNext(context.Background())
	res := V{"ok": ok, "id": "", "op": "", "err": ""}
	if ok {
		var ev bson.M
		if err := s.cs.Decode(&ev); err == nil {
			res["op"], _ = ev["operationType"].(string)
			if id, ok := ev["_id"].(bson.M); ok {
				if ts, ok := id["ts"].(primitive.Timestamp); ok {
					res["id"] = idOf(ts)
				}
			}
		}
	} else if err := s.cs.Err(); err != nil {
		if err == lungo.ErrLostOplogPosition {
			res["err"] = "lost"
		} else {
			res["err"] = "other"
		}
	}
	trace.Write(V{"fn": "snext", "hist": hist, "step": step, "kind": s.kind, "scope": []interface{}{s.scope[0], s.scope[1]}, "log": h.json(), "first": h.first, "start": s.start, "k": s.k,
		"invalidated": s.invalidated, "closed": s.closed, "res": res})
	if ok {
		if res["op"] == "invalidate" {
			s.invalidated = true
		} else {
			s.k++
			s.lastToken = s.cs.ResumeToken()
			s.lastIdx = h.index[res["id"].(string)]
		}
	} else if res["err"] != "" {
		s.closed = true
	}
}

var namespaces = [][2]string{{"d", "c1"}, {"d", "c2"}, {"e", "c1"}}
var scopes = [][2]string{{"", ""}, {"d", ""}, {"e", ""}, {"d", "c1"}, {"d", "c2"}, {"e", "c1"}, {"d", "c9"}, {"e", "c9"}} // c9 is never written: such a stream only ever sees its database being dropped

func write(client lungo.IClient, g *gen.G, n int) {
	ctx := context.Background()
	ns := namespaces[g.N(len(namespaces))]
	coll := client.Database(ns[0]).Collection(ns[1])
	switch x := g.N(100); {
	case x < 40:
		coll.InsertOne(ctx, d("_id", int32(n), "v", int32(0)))
	case x < 55:
		coll.InsertMany(ctx, []interface{}{d("_id", int32(1000+n)), d("_id", int32(2000+n))})
	case x < 68:
		coll.UpdateMany(ctx, d(), d("$inc", d("v", int32(1))))
	case x < 78:
		coll.DeleteOne(ctx, d())
	case x < 84:
		coll.ReplaceOne(ctx, d(), d("r", int32(n)))
	case x < 92:
		coll.Drop(ctx)
	case x < 96:
		client.Database(ns[0]).Drop(ctx)
	default:
		coll.UpdateOne(ctx, d("_id", int32(-1)), d("$set", d("v", int32(1)))) // matches nothing: no event
	}
}

func seq(dir string, seed int64, histories int, trace *util.NDJSON) {
	for hi := 0; hi < histories; hi++ {
		g := gen.New(seed*1000 + int64(hi))
		client, engine, err := lungo.Open(context.Background(), lungo.Options{Store: lungo.NewMemoryStore()})
		if err != nil {
			util.Die("open: %v", err)
		}
		h := &history{}
		var streams []*stream
		step := 0
		for i := 0; i < 14; i++ {
			step++
			h.observe(engine)
			if g.P(45) && len(streams) < 6 {
				scope := scopes[g.N(len(scopes))]
				opts := options.ChangeStream()
				st := &stream{scope: scope, start: len(h.evs), kind: "now"}
				// start positions derived from what an earlier stream delivered
				var donor *stream
				for _, s := range streams {
					if s.lastToken != nil && s.lastIdx >= h.first {
						donor = s
					}
				}
				switch x := g.N(10); {
				case x < 3 && donor != nil:
					opts.SetResumeAfter(donor.lastToken)
					st.start, st.kind = donor.lastIdx, "resumeAfter"
				case x < 5 && donor != nil:
					opts.SetStartAfter(donor.lastToken)
					st.start, st.kind = donor.lastIdx, "startAfter"
				case x < 7 && len(h.evs) >= h.first && len(h.evs) > 0:
					j := h.first + g.N(len(h.evs)-h.first+1)
					ts := h.evs[j-1].ts
					opts.SetStartAtOperationTime(&ts)
					st.start, st.kind = j-1, "startAt"
				}
				cs, err := open(client, scope, opts)
				if err != nil {
					finding("stream", "Watch failed: "+err.Error(), V{"hist": hi, "kind": st.kind})
				} else {
					st.cs = cs
					streams = append(streams, st)
				}
			}
			write(client, g, i)
			for _, s := range streams {
				for n := g.N(3); n > 0; n-- {
					s.tryNext(h, engine, trace, hi, step)
				}
			}
			if g.P(8) && len(streams) > 0 {
				s := streams[g.N(len(streams))]
				s.cs.Close(context.Background())
				s.closed = true
				s.tryNext(h, engine, trace, hi, step)
			}
		}
		// drain
		for _, s := range streams {
			for n := 0; n < len(h.evs)+3; n++ {
				s.tryNext(h, engine, trace, hi, step)
			}
		}
		engine.Close()
	}
	retention(trace)
	uncommitted(trace)
}

// retention: a slow consumer on an engine with small change-log limits; events it has not yet delivered are
// discarded, so it must fail with the lost-position error; a consumer that is up to date continues.
func retention(trace *util.NDJSON) {
	client, engine, err := lungo.Open(context.Background(), lungo.Options{Store: lungo.NewMemoryStore(), MinOplogSize: 1, MaxOplogSize: 2, MinOplogAge: time.Nanosecond, MaxOplogAge: time.Hour})
	if err != nil {
		return
	}
	defer engine.Close()
	h := &history{}
	coll := client.Database("d").Collection("c1")
	ctx := context.Background()
	coll.InsertOne(ctx, d("_id", int32(0)))
	h.observe(engine)
	slow := &stream{scope: [2]string{"d", "c1"}, start: len(h.evs), kind: "slow"}
	fast := &stream{scope: [2]string{"", ""}, start: len(h.evs), kind: "fast"}
	slow.cs, _ = open(client, slow.scope, options.ChangeStream())
	fast.cs, _ = open(client, fast.scope, options.ChangeStream())
	for i := 1; i <= 5; i++ {
		coll.InsertOne(ctx, d("_id", int32(i)))
		fast.tryNext(h, engine, trace, 9000, i)
	}
	slow.tryNext(h, engine, trace, 9000, 6) // delivers the first of the five
	time.Sleep(1100 * time.Millisecond)
	coll.InsertOne(ctx, d("_id", int32(6))) // this commit trims the log to its two newest events
	h.observe(engine)
	for n := 0; n < 4; n++ {
		fast.tryNext(h, engine, trace, 9000, 7)
		slow.tryNext(h, engine, trace, 9000, 7)
	}
}

type flaky struct {
	inner lungo.Store
	fail  bool
}

func (f *flaky) Load() (*lungo.Catalog, error) { return f.inner.Load() }
func (f *flaky) Store(c *lungo.Catalog) error {
	if f.fail {
		f.fail = false
		return fmt.Errorf("injected store failure")
	}
	return f.inner.Store(c)
}

// uncommitted: writes whose commit fails (the store rejects) or that are aborted at engine level must not
// reach any stream: no phantom events, no invalidate for a collection that still exists.
func uncommitted(trace *util.NDJSON) {
	store := &flaky{inner: lungo.NewMemoryStore()}
	client, engine, err := lungo.Open(context.Background(), lungo.Options{Store: store})
	if err != nil {
		return
	}
	defer engine.Close()
	ctx := context.Background()
	coll := client.Database("d").Collection("c1")
	h := &history{}
	coll.InsertOne(ctx, d("_id", int32(0)))
	h.observe(engine)
	sts := []*stream{{scope: [2]string{"d", "c1"}, start: len(h.evs), kind: "uncommitted"}, {scope: [2]string{"d", ""}, start: len(h.evs), kind: "uncommitted"}, {scope: [2]string{"", ""}, start: len(h.evs), kind: "uncommitted"}}
	for _, s := range sts {
		s.cs, _ = open(client, s.scope, options.ChangeStream())
	}
	step := 0
	check := func(what string, failed bool) {
		before := len(h.evs)
		h.observe(engine)
		if failed && len(h.evs) != before {
			finding("stream", "a write that did not commit ("+what+") left events in the change log that streams read", V{"events": len(h.evs) - before})
		}
		step++
		for _, s := range sts {
			s.tryNext(h, engine, trace, 9100, step)
			s.tryNext(h, engine, trace, 9100, step)
		}
	}
	coll.InsertOne(ctx, d("_id", int32(1)))
	check("insert", false)
	store.fail = true
	err = coll.Drop(ctx)
	check("Drop with a failing store", err != nil)
	store.fail = true
	err = client.Database("d").Drop(ctx)
	check("drop database with a failing store", err != nil)
	store.fail = true
	_, err = coll.InsertOne(ctx, d("_id", int32(2)))
	check("insert with a failing store", err != nil)
	if txn, err := engine.Begin(ctx, true); err == nil {
		txn.Drop(lungo.Handle{"d", "c1"})
		txn.Insert(lungo.Handle{"d", "c1"}, bsonkit.List{bsonkit.MustConvert(d("_id", int32(3)))}, true)
		engine.Abort(txn)
		check("engine-level Drop + Insert, aborted", true)
	}
	coll.InsertOne(ctx, d("_id", int32(4)))
	check("insert", false)
	coll.Drop(ctx)
	check("drop", false)
	check("after drop", false)
}

// ---------------------------------------------------------------------------

func concurrent(dir string, seed int64, runs int, trace *util.NDJSON) {
	for run := 0; run < runs; run++ {
		sched := conc.NewSched(seed*1000+int64(run), 50)
		client, engine, err := lungo.Open(context.Background(), lungo.Options{Store: lungo.NewMemoryStore()})
		if err != nil {
			util.Die("open: %v", err)
		}
		h := &history{}
		h.observe(engine)
		type consumer struct {
			st        *stream
			delivered []string
			gotInv    bool
			mu        sync.Mutex
			done      chan struct{}
			cancel    context.CancelFunc
		}
		var cons []*consumer
		for i, scope := range [][2]string{{"", ""}, {"d", ""}, {"d", "c1"}, {"d", "c2"}, {"", ""}} {
			cs, err := open(client, scope, options.ChangeStream())
			if err != nil {
				util.Die("watch: %v", err)
			}
			c := &consumer{st: &stream{cs: cs, scope: scope, start: 0}, done: make(chan struct{})}
			_ = i
			cons = append(cons, c)
		}
		sched.Install()
		for _, c := range cons {
			ctx, cancel := context.WithCancel(context.Background())
			c.cancel = cancel
			go func(c *consumer) {
				defer close(c.done)
				for c.st.cs.Next(ctx) {
					var ev bson.M
					if c.st.cs.Decode(&ev) != nil {
						continue
					}
					c.mu.Lock()
					if ev["operationType"] == "invalidate" {
						c.gotInv = true
					} else if id, ok := ev["_id"].(bson.M); ok {
						if ts, ok := id["ts"].(primitive.Timestamp); ok {
							c.delivered = append(c.delivered, idOf(ts))
						}
					}
					c.mu.Unlock()
				}
			}(c)
		}
		// writers: bursts with quiet phases in between (a lost wake-up shows when the writers go quiet)
		rounds := 12
		for round := 0; round < rounds; round++ {
			var wg sync.WaitGroup
			for w := 0; w < 3; w++ {
				wg.Add(1)
				go func(w int) {
					defer wg.Done()
					coll := client.Database("d").Collection([]string{"c1", "c2", "c1"}[w])
					for i := 0; i < 2; i++ {
						coll.InsertOne(context.Background(), d("_id", int32(round*100+w*10+i)))
					}
				}(w)
			}
			wdone := make(chan struct{})
			go func() { wg.Wait(); close(wdone) }()
			select {
			case <-wdone:
			case <-time.After(30 * time.Second):
				// the engine is wedged (writers and consumers block each other): nothing further can be observed in this process
				finding("stall", "writers did not return within 30 s while consumers were reading: the engine is deadlocked", V{"run": run, "round": round, "stacks": stacks()})
				out.Encode(V{"kind": "summary", "cases": 0, "findings": findings, "aborted": true})
				os.Exit(0)
			}
			// quiet: every consumer must catch up with everything committed so far
			sched.Quiet(true)
			h.observe(engine)
			sched.Quiet(false)
			deadline := time.Now().Add(15 * time.Second)
			for _, c := range cons {
				want := 0
				for _, e := range h.evs {
					if (c.st.scope[0] == "" || e.db == c.st.scope[0]) && (c.st.scope[1] == "" || e.coll == c.st.scope[1]) {
						want++
					}
				}
				for {
					c.mu.Lock()
					got := len(c.delivered)
					c.mu.Unlock()
					if got >= want {
						break
					}
					if time.Now().After(deadline) {
						finding("stall", "a consumer blocked in Next has not received an event committed more than 15 s ago (no further commit is coming)",
							V{"run": run, "round": round, "scope": c.st.scope, "delivered": got, "committed": want, "stacks": stacks()})
						break
					}
					time.Sleep(200 * time.Microsecond)
				}
			}
			if findings > 0 {
				break
			}
		}
		// wake-up by context cancellation and by Close
		for i, c := range cons {
			start := time.Now()
			if i%2 == 0 {
				c.cancel()
			} else {
				c.st.cs.Close(context.Background())
			}
			select {
			case <-c.done:
				if time.Since(start) > 5*time.Second {
					finding("stall", "a blocked Next returned late after close / cancellation", V{"run": run, "ms": time.Since(start).Milliseconds()})
				}
			case <-time.After(15 * time.Second):
				finding("stall", "a blocked Next was not woken by "+map[bool]string{true: "context cancellation", false: "Close"}[i%2 == 0], V{"run": run, "stacks": stacks()})
			}
			c.cancel()
		}
		sched.Quiet(true)
		conc.Uninstall()
		h.observe(engine)
		for _, c := range cons {
			c.mu.Lock()
			del := make([]interface{}, 0, len(c.delivered))
			for _, id := range c.delivered {
				del = append(del, id)
			}
			trace.Write(V{"fn": "sdeliv", "hist": run, "scope": []interface{}{c.st.scope[0], c.st.scope[1]}, "log": h.json(), "start": 0, "delivered": del, "invalidate": c.gotInv})
			c.mu.Unlock()
		}
		engine.Close()
	}
}

// observeCatalog adds the events of a catalog that is about to be published (called from the commit hook, under the
// engine mutex): with retention at work this is the only place where every event can be seen.
func (h *history) observeCatalog(cat *lungo.Catalog) {
	if h.index == nil {
		h.index = map[string]int{}
	}
	for _, doc := range cat.Namespaces[lungo.Oplog].Documents.List {
		ts, _ := bsonkit.Get(doc, "_id.ts").(primitive.Timestamp)
		if _, ok := h.index[idOf(ts)]; ok {
			continue
		}
		db, _ := bsonkit.Get(doc, "ns.db").(string)
		coll, _ := bsonkit.Get(doc, "ns.coll").(string)
		op, _ := bsonkit.Get(doc, "operationType").(string)
		h.evs = append(h.evs, event{ts, db, coll, op})
		h.index[idOf(ts)] = len(h.evs)
	}
}

// retention: consumers of different speed while writers commit and the engine trims its change log (at most 6
// events are kept).  A consumer either receives every event of its scope, in order, or - when it fell behind what
// is retained - a gap-free prefix of them and then the lost-position error; it never skips.
func retentionConc(dir string, seed int64, runs int, trace *util.NDJSON) {
	for run := 0; run < runs; run++ {
		sched := conc.NewSched(seed*1000+int64(run), 30)
		client, engine, err := lungo.Open(context.Background(), lungo.Options{Store: lungo.NewMemoryStore(), MinOplogSize: 2, MaxOplogSize: 6, MinOplogAge: time.Nanosecond, MaxOplogAge: time.Hour})
		if err != nil {
			util.Die("open: %v", err)
		}
		var hmu sync.Mutex
		h := &history{}
		h.observeCatalog(engine.Catalog())
		type consumer struct {
			cs        lungo.IChangeStream
			scope     [2]string
			slow      time.Duration
			delivered []string
			lost      bool
			other     string
			mu        sync.Mutex
			done      chan struct{}
		}
		var cons []*consumer
		for i, scope := range [][2]string{{"", ""}, {"d", ""}, {"d", "c1"}, {"d", "c1"}, {"", ""}, {"d", "c2"}} {
			cs, err := open(client, scope, options.ChangeStream())
			if err != nil {
				util.Die("watch: %v", err)
			}
			cons = append(cons, &consumer{cs: cs, scope: scope, slow: []time.Duration{0, 0, 0, 300 * time.Microsecond, 800 * time.Microsecond, 100 * time.Microsecond}[i], done: make(chan struct{})})
		}
		sched.Install()
		prev := lungo.VerifHook
		lungo.VerifHook = func(point string, e *lungo.Engine, txn *lungo.Transaction) {
			if point == "commit.publish" && txn != nil {
				hmu.Lock()
				h.observeCatalog(txn.Catalog())
				hmu.Unlock()
			}
			if prev != nil {
				prev(point, e, txn)
			}
		}
		ctx, cancel := context.WithCancel(context.Background())
		for _, c := range cons {
			go func(c *consumer) {
				defer close(c.done)
				for c.cs.Next(ctx) {
					var ev bson.M
					if c.cs.Decode(&ev) != nil {
						continue
					}
					if id, ok := ev["_id"].(bson.M); ok {
						if ts, ok := id["ts"].(primitive.Timestamp); ok {
							c.mu.Lock()
							c.delivered = append(c.delivered, idOf(ts))
							c.mu.Unlock()
						}
					}
					if c.slow > 0 {
						time.Sleep(c.slow)
					}
				}
				if err := c.cs.Err(); err == lungo.ErrLostOplogPosition {
					c.mu.Lock()
					c.lost = true
					c.mu.Unlock()
				} else if err != nil && ctx.Err() == nil {
					c.mu.Lock()
					c.other = err.Error()
					c.mu.Unlock()
				}
			}(c)
		}
		var wg sync.WaitGroup
		for w := 0; w < 3; w++ {
			wg.Add(1)
			go func(w int) {
				defer wg.Done()
				coll := client.Database("d").Collection([]string{"c1", "c2", "c1"}[w])
				for i := 0; i < 40; i++ {
					coll.InsertOne(context.Background(), d("_id", int32(w*1000+i)))
					if i%7 == 0 {
						coll.UpdateMany(context.Background(), d(), d("$inc", d("v", int32(1)))) // several events in one commit
					}
					if i%5 == w {
						time.Sleep(200 * time.Microsecond)
					}
				}
			}(w)
		}
		wdone := make(chan struct{})
		go func() { wg.Wait(); close(wdone) }()
		select {
		case <-wdone:
		case <-time.After(60 * time.Second):
			finding("stall", "writers did not return within 60 s while consumers were reading under retention", V{"run": run, "stacks": stacks()})
			out.Encode(V{"kind": "summary", "cases": 0, "findings": findings, "aborted": true})
			os.Exit(0)
		}
		// quiet: every consumer catches up or has failed with the lost-position error
		sched.Quiet(true)
		deadline := time.Now().Add(15 * time.Second)
		for _, c := range cons {
			hmu.Lock()
			want := 0
			for _, e := range h.evs {
				if (c.scope[0] == "" || e.db == c.scope[0]) && (c.scope[1] == "" || e.coll == c.scope[1]) {
					want++
				}
			}
			hmu.Unlock()
			for {
				c.mu.Lock()
				got, lost, other := len(c.delivered), c.lost, c.other
				c.mu.Unlock()
				if got >= want || lost || other != "" {
					break
				}
				if time.Now().After(deadline) {
					finding("stall", "a consumer has neither received every committed event nor failed 15 s after the writers went quiet", V{"run": run, "scope": c.scope, "delivered": got, "committed": want, "stacks": stacks()})
					break
				}
				time.Sleep(500 * time.Microsecond)
			}
		}
		cancel()
		for _, c := range cons {
			select {
			case <-c.done:
			case <-time.After(15 * time.Second):
				finding("stall", "a blocked Next was not woken by context cancellation", V{"run": run})
			}
		}
		conc.Uninstall()
		hmu.Lock()
		log := h.json()
		hmu.Unlock()
		for _, c := range cons {
			c.mu.Lock()
			del := make([]interface{}, 0, len(c.delivered))
			for _, id := range c.delivered {
				del = append(del, id)
			}
			if c.other != "" {
				finding("stream", "a consumer stopped with an error that is neither cancellation nor a lost position: "+c.other, V{"run": run, "scope": c.scope})
			}
			trace.Write(V{"fn": "sprefix", "hist": run, "scope": []interface{}{c.scope[0], c.scope[1]}, "log": log, "start": 0, "delivered": del, "lost": c.lost})
			c.mu.Unlock()
			c.cs.Close(context.Background())
		}
		engine.Close()
	}
}

func main() {
	if len(os.Args) < 4 {
		util.Die("usage: strm seq|conc|retain <dir> <seed> <n>")
	}
	mode, dir := os.Args[1], os.Args[2]
	seed, _ := strconv.ParseInt(os.Args[3], 10, 64)
	n := 10
	if len(os.Args) > 4 {
		n, _ = strconv.Atoi(os.Args[4])
	}
	trace := util.CreateNDJSON(filepath.Join(dir, "trace.ndjson"))
	switch mode {
	case "seq":
		seq(dir, seed, n, trace)
	case "conc":
		concurrent(dir, seed, n, trace)
	case "retain":
		retentionConc(dir, seed, n, trace)
	default:
		util.Die("unknown mode")
	}
	trace.Close()
	out.Encode(V{"kind": "summary", "cases": trace.N, "findings": findings})
}
