package main

import (
	"context"
	"errors"
	"strconv"
	"sync"

	"github.com/256dpi/lungo"
	"go.mongodb.org/mongo-driver/bson"
	"go.mongodb.org/mongo-driver/bson/primitive"
	"go.mongodb.org/mongo-driver/mongo/options"
)

// failingStore refuses to store while fail is set (a full disk under an upload).
type failingStore struct {
	mu    sync.Mutex
	inner lungo.Store
	fail  bool
}

func (s *failingStore) Load() (*lungo.Catalog, error) { return s.inner.Load() }
func (s *failingStore) Store(c *lungo.Catalog) error {
	s.mu.Lock()
	f := s.fail
	s.mu.Unlock()
	if f {
		return errors.New("store: no space left on device")
	}
	return s.inner.Store(c)
}
func (s *failingStore) set(f bool) {
	s.mu.Lock()
	s.fail = f
	s.mu.Unlock()
}

// storeFaults: the store refuses the flush of an upload (at a Write that fills the buffer, or at Close); the upload is
// then aborted. Whatever the calls answer, an aborted upload leaves no chunk, file record or marker behind - neither
// right away nor after the next successful write - and a healthy file uploaded before is still complete.
func storeFaults(seed int64) int {
	ctx := context.Background()
	n := 0
	for _, tracked := range []bool{false, true} {
		for _, C := range []int{1, 4, 7} {
			for _, L := range []int{1, C, 2*C + 1, 5 * C} {
				for _, at := range []string{"close", "close-then-close", "abort-while-failing"} {
					n++
					store := &failingStore{inner: lungo.NewMemoryStore()}
					client, engine, err := lungo.Open(ctx, lungo.Options{Store: store})
					if err != nil {
						continue
					}
					what := V{"C": C, "L": L, "tracked": tracked, "fault": at}
					func() {
						defer engine.Close()
						defer func() {
							if r := recover(); r != nil {
								finding("gridfs", "a GridFS call panicked after a storage fault: "+strconv.Quote(errString(r)), what)
							}
						}()
						bucket := lungo.NewBucket(client.Database("g"), options.GridFSBucket().SetName("ff").SetChunkSizeBytes(int32(C)))
						if tracked {
							bucket.EnableTracking()
						}
						good := content(3*C+1, uint32(seed)+uint32(n))[:3*C+1]
						goodID, brokenID := primitive.NewObjectID(), primitive.NewObjectID()
						goodStream, err := bucket.OpenUploadStreamWithID(ctx, goodID, "good")
						if err != nil {
							return
						}
						goodStream.Write(good)
						if goodStream.Close() != nil {
							return
						}
						data := content(L, uint32(seed)*31+uint32(n))[:L]
						stream, err := bucket.OpenUploadStreamWithID(ctx, brokenID, "broken")
						if err != nil {
							return
						}
						if w, err := stream.Write(data); err != nil || w != L {
							return
						}
						store.set(true)
						cerr := stream.Close()
						if cerr == nil {
							finding("gridfs", "Close of an upload reported success although the store refused the write", what)
						}
						switch at {
						case "close-then-close":
							stream.Close()
							store.set(false)
							stream.Abort()
						case "abort-while-failing":
							stream.Abort()
							store.set(false)
							stream.Abort()
						default:
							store.set(false)
							stream.Abort()
						}
						check := func(when string) {
							files, _ := bucket.GetFilesCollection(ctx).CountDocuments(ctx, bson.M{"_id": brokenID})
							chunks, _ := bucket.GetChunksCollection(ctx).CountDocuments(ctx, bson.M{"files_id": brokenID})
							if files != 0 || chunks != 0 {
								w := V{"when": when, "file_records": files, "chunks": chunks}
								for k, v := range what {
									w[k] = v
								}
								finding("gridfs", "an upload aborted after a storage fault left chunks or a file record behind", w)
							}
							goodChunks, _ := bucket.GetChunksCollection(ctx).CountDocuments(ctx, bson.M{"files_id": goodID})
							goodFiles, _ := bucket.GetFilesCollection(ctx).CountDocuments(ctx, bson.M{"_id": goodID})
							// (an unclaimed upload of a tracked bucket has no file record yet)
							if int(goodChunks) != (len(good)+C-1)/C || (!tracked && goodFiles != 1) {
								finding("gridfs", "a complete file lost chunks or its record when a later upload hit a storage fault", what)
							}
						}
						check("after the abort")
						// the next successful write must not make leftovers durable
						if _, err := client.Database("g").Collection("other").InsertOne(ctx, bson.M{"x": 1}); err != nil {
							finding("gridfs", "a write after the storage fault was refused: "+err.Error(), what)
						}
						check("after the next successful write")
					}()
				}
			}
		}
	}
	return n
}

func errString(r interface{}) string {
	if e, ok := r.(error); ok {
		return e.Error()
	}
	if s, ok := r.(string); ok {
		return s
	}
	return "panic"
}
