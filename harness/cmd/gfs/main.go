// Command gfs drives the GridFS bucket of the real code (property C18).
//
//	gfs run <dir> <seed> <small-cases> <big:0|1>
//
// Uploads position-coded content (each 4-byte word encodes its offset) with many
// chunk sizes, lengths around multiples of the chunk size and - with big=1 - around
// the 16 MiB upload buffer, random write partitions, tracked mode with
// suspend/resume, aborts and deletes; records the stored chunk table and file
// record ({fn:"upload"}) and scripts of Read/Skip/Seek on download streams with the
// returned counts, positions and end-of-file behaviour ({fn:"download"}).  The bytes
// themselves are compared here (position-coded content); everything else is judged
// by TLC with GridFS.tla.
package main

import (
	"bytes"
	"context"
	"encoding/binary"
	"encoding/json"
	"fmt"
	"io"
	"os"
	"path/filepath"
	"runtime"
	"sort"
	"strconv"
	"time"

	"go.mongodb.org/mongo-driver/bson"
	"go.mongodb.org/mongo-driver/bson/primitive"
	"go.mongodb.org/mongo-driver/mongo/gridfs"
	"go.mongodb.org/mongo-driver/mongo/options"

	"github.com/256dpi/lungo"

	"verif/harness/gen"
	"verif/harness/util"
)

type V = map[string]interface{}

var out = json.NewEncoder(os.Stdout)
var findings int

func finding(kind, what string, extra V) {
	findings++
	m := V{"kind": kind, "what": what}
	for k, v := range extra {
		m[k] = v
	}
	out.Encode(m)
}

// content returns position-coded bytes: byte i belongs to the big-endian uint32 of (i/4) xor salt.
func content(n int, salt uint32) []byte {
	b := make([]byte, n+8)
	for i := 0; i+4 <= len(b); i += 4 {
		binary.BigEndian.PutUint32(b[i:], uint32(i/4)^salt)
	}
	return b[:n]
}

const B = gridfs.UploadBufferSize

type env struct {
	unclaimed bool // the last upload is finished but was not claimed
	client    lungo.IClient
	db        lungo.IDatabase
	trace     *util.NDJSON
	g         *gen.G
	ctx       context.Context
	n         int
}

type chunkRow struct {
	N   int
	Len int
}

func (e *env) chunkTable(bucket *lungo.Bucket, id interface{}) ([]chunkRow, []byte) {
	cur, err := bucket.GetChunksCollection(e.ctx).Find(e.ctx, bson.M{"files_id": id}, options.Find().SetSort(bson.D{{Key: "n", Value: 1}}))
	if err != nil {
		return nil, nil
	}
	var rows []chunkRow
	var all []byte
	for cur.Next(e.ctx) {
		var c lungo.BucketChunk
		if cur.Decode(&c) != nil {
			continue
		}
		rows = append(rows, chunkRow{c.Num, len(c.Data)})
		all = append(all, c.Data...)
	}
	return rows, all
}

func partition(g *gen.G, total, maxPiece int) []int {
	var ws []int
	left := total
	for left > 0 {
		n := 1 + g.N(maxPiece)
		if g.P(15) {
			n = left
		}
		if n > left {
			n = left
		}
		ws = append(ws, n)
		left -= n
	}
	if g.P(20) {
		ws = append(ws, 0)
	}
	return ws
}

// upload performs one upload scenario and records it.
func (e *env) upload(C, L int, tracked bool, how string, maxPiece int) (id interface{}, data []byte, bucket *lungo.Bucket) {
	e.n++
	data = content(L, uint32(e.n)*2654435761)
	// the chunk size comes from the bucket or, in a third of the cases, from the upload options
	// (the bucket then has another one)
	bucketC := C
	var upOpts []*options.UploadOptions
	if e.n%3 == 0 {
		bucketC = C + 1 + e.n%5
		upOpts = append(upOpts, options.GridFSUpload().SetChunkSizeBytes(int32(C)))
	}
	bucket = lungo.NewBucket(e.db, options.GridFSBucket().SetName("b"+strconv.Itoa(e.n%3)).SetChunkSizeBytes(int32(bucketC)))
	if tracked {
		bucket.EnableTracking()
	}
	id = primitive.NewObjectID()
	steps := []interface{}{} // what happened, for the model: ["w", n] | ["suspend", flushed]
	done := make(chan struct{})
	var ferr error
	closed, aborted := false, false
	delMid, unclaimed := false, false
	e.unclaimed = false
	go func() {
		defer close(done)
		defer func() {
			if r := recover(); r != nil {
				finding("panic", "upload panics", V{"C": C, "L": L, "panic": r})
			}
		}()
		stream, err := bucket.OpenUploadStreamWithID(e.ctx, id, "f"+strconv.Itoa(e.n), upOpts...)
		if err != nil {
			ferr = err
			return
		}
		off := 0
		suspended := how != "suspend"
		pieces := 0
		for off < L {
			n := 1 + e.g.N(maxPiece)
			if e.g.P(15) || n > L-off {
				n = L - off
			}
			if e.g.P(5) {
				if w, err := stream.Write(nil); err != nil || w != 0 {
					finding("gridfs", "an empty Write failed", V{"C": C, "L": L})
				}
			}
			w, err := stream.Write(data[off : off+n])
			if err != nil || w != n {
				ferr = err
				finding("gridfs", "Write returned a short count or an error", V{"C": C, "L": L, "n": n, "w": w})
				return
			}
			steps = append(steps, []interface{}{"w", n})
			off += n
			pieces++
			if !suspended && (e.g.P(35) || off == L) {
				suspended = true
				flushed, err := stream.Suspend()
				if err != nil {
					ferr = err
					return
				}
				steps = append(steps, []interface{}{"suspend", int(flushed)})
				if e.g.P(30) {
					// a Delete while the upload is suspended: refused, or - if it is acknowledged - the file is gone for good
					delMid = bucket.Delete(e.ctx, id) == nil
				}
				stream, err = bucket.OpenUploadStreamWithID(e.ctx, id, "f"+strconv.Itoa(e.n), upOpts...)
				if err != nil {
					ferr = err
					return
				}
				resumed, err := stream.Resume()
				if err != nil {
					ferr = err
					finding("gridfs", "Resume failed: "+err.Error(), V{"C": C, "L": L, "flushed": flushed})
					return
				}
				if resumed != flushed {
					finding("gridfs", "Resume reports another length than Suspend", V{"suspend": flushed, "resume": resumed})
				}
				off = int(resumed) // the caller continues at the flushed length
			}
		}
		if how == "abort" {
			ferr = stream.Abort()
			aborted = true
			return
		}
		ferr = stream.Close()
		closed = ferr == nil
		if closed && tracked {
			if e.n%2 == 0 {
				ferr = bucket.ClaimUpload(e.ctx, id)
			} else {
				unclaimed = true // finished, marker "uploaded", no file record yet: it can only be claimed or deleted
			}
		}
	}()
	select {
	case <-done:
	case <-time.After(60 * time.Second):
		finding("hang", "an upload did not finish within 60 s", V{"C": C, "L": L, "tracked": tracked, "how": how})
		out.Encode(V{"kind": "summary", "cases": e.trace.N, "findings": findings, "aborted": true})
		os.Exit(0)
	}
	if delMid {
		// the Delete in the middle of the upload was acknowledged: whatever the upload did afterwards, a cleanup leaves nothing
		bucket.Cleanup(e.ctx, 0)
		rows, _ := e.chunkTable(bucket, id)
		nf, _ := bucket.GetFilesCollection(e.ctx).CountDocuments(e.ctx, bson.M{"_id": id})
		if len(rows) > 0 || nf > 0 {
			finding("gridfs", "a Delete during a suspended upload was acknowledged, but the file or its chunks are still there after the upload finished and the bucket was cleaned up",
				V{"C": C, "L": L, "chunks": len(rows), "files": nf})
		}
		return id, nil, bucket
	}
	if ferr != nil {
		finding("gridfs", "upload failed: "+ferr.Error(), V{"C": C, "L": L, "tracked": tracked, "how": how})
		return id, data, bucket
	}
	rows, all := e.chunkTable(bucket, id)
	tab := []interface{}{}
	for _, r := range rows {
		tab = append(tab, []interface{}{r.N, r.Len})
	}
	flen, fchunk, hasFile := -1, -1, false
	var f lungo.BucketFile
	if err := bucket.GetFilesCollection(e.ctx).FindOne(e.ctx, bson.M{"_id": id}).Decode(&f); err == nil {
		flen, fchunk, hasFile = f.Length, f.ChunkSize, true
	}
	markers, _ := bucket.GetMarkersCollection(e.ctx).CountDocuments(e.ctx, bson.M{"files_id": id})
	if !aborted && !bytes.Equal(all, data) {
		finding("gridfs", "the concatenation of the stored chunks is not the uploaded content", V{"C": C, "L": L, "tracked": tracked, "how": how})
	}
	effB := B
	if C > effB {
		effB = C
	}
	e.trace.Write(V{"fn": "upload", "B": effB, "C": C, "L": L, "tracked": tracked, "how": how, "steps": steps, "chunks": tab, "hasfile": hasFile, "flen": flen, "fchunk": fchunk,
		"markers": int(markers), "aborted": aborted, "unclaimed": unclaimed})
	e.unclaimed = unclaimed
	return id, data, bucket
}

// download runs a script on a download stream next to a bytes.Reader.
func (e *env) download(bucket *lungo.Bucket, id interface{}, data []byte, C int, steps int) {
	stream, err := bucket.OpenDownloadStream(e.ctx, id)
	if err != nil {
		finding("gridfs", "OpenDownloadStream failed: "+err.Error(), V{"C": C, "L": len(data)})
		return
	}
	defer stream.Close()
	defer func() {
		if r := recover(); r != nil {
			finding("panic", "a download stream call panics", V{"C": C, "L": len(data), "panic": fmt.Sprint(r)})
		}
	}()
	L := len(data)
	ref := bytes.NewReader(data)
	script, res := []interface{}{}, []interface{}{}
	g := e.g
	interesting := []int{0, 1, C - 1, C, C + 1, 2 * C, L - 1, L, L + 1, L - C, L / 2, 3}
	pick := func() int {
		if g.P(70) {
			v := interesting[g.N(len(interesting))]
			if v < 0 {
				v = 0
			}
			return v
		}
		return g.N(L + 5)
	}
	for i := 0; i < steps; i++ {
		switch x := g.N(10); {
		case x < 5:
			n := pick()
			if n > 1<<22 {
				n = 1 << 22
			}
			buf := make([]byte, n)
			got, err := stream.Read(buf)
			refBuf := make([]byte, n)
			want, _ := ref.Read(refBuf)
			code := "ok"
			if err == io.EOF {
				code = "eof"
			} else if err != nil {
				code = "err"
			}
			if got != want || !bytes.Equal(buf[:got], refBuf[:want]) {
				finding("gridfs", "a read returned other bytes than the reference reader", V{"C": C, "L": L, "n": n, "got": got, "want": want})
			}
			script = append(script, []interface{}{"read", n})
			pos, _ := ref.Seek(0, io.SeekCurrent)
			res = append(res, V{"n": got, "pos": int(pos), "code": code})
		case x < 8:
			whence := g.N(3)
			off := pick()
			if whence == 2 {
				off = -off
			} else if whence == 1 && g.P(50) {
				off = -off
			}
			if g.P(10) {
				off = -off - 1
			}
			p, err := stream.Seek(int64(off), whence)
			code := "ok"
			if err != nil {
				code = "neg"
				if err != lungo.ErrNegativePosition {
					code = "err"
				}
			}
			rp, rerr := ref.Seek(int64(off), whence)
			if (rerr != nil) != (err != nil) {
				finding("gridfs", "Seek and the reference reader disagree on success", V{"off": off, "whence": whence, "L": L})
			}
			if rerr != nil {
				rp, _ = ref.Seek(0, io.SeekCurrent)
			}
			script = append(script, []interface{}{"seek", whence, off})
			res = append(res, V{"n": int(p), "pos": int(rp), "code": code})
		default:
			n := pick()
			p, err := stream.Skip(int64(n))
			code := "ok"
			if err != nil {
				code = "err"
			}
			rp, _ := ref.Seek(int64(n), io.SeekCurrent)
			script = append(script, []interface{}{"skip", n})
			res = append(res, V{"n": int(p), "pos": int(rp), "code": code})
		}
	}
	e.trace.Write(V{"fn": "download", "C": C, "L": L, "script": script, "res": res})
}

func main() {
	if len(os.Args) < 6 || os.Args[1] != "run" {
		util.Die("usage: gfs run <dir> <seed> <small-cases> <big:0|1>")
	}
	dir := os.Args[2]
	seed, _ := strconv.ParseInt(os.Args[3], 10, 64)
	small, _ := strconv.Atoi(os.Args[4])
	big := os.Args[5] == "1"
	ctx := context.Background()
	client, engine, err := lungo.Open(ctx, lungo.Options{Store: lungo.NewMemoryStore()})
	if err != nil {
		util.Die("open: %v", err)
	}
	defer engine.Close()
	e := &env{client: client, db: client.Database("g"), trace: util.CreateNDJSON(filepath.Join(dir, "trace.ndjson")), g: gen.New(seed), ctx: ctx}
	// a GridFS call that panics is recorded as what it is (the cases before it are still judged)
	defer func() {
		if r := recover(); r != nil {
			buf := make([]byte, 4096)
			buf = buf[:runtime.Stack(buf, false)]
			finding("gridfs", fmt.Sprintf("a GridFS call panicked: %v", r), V{"stack": string(buf)})
			e.trace.Close()
			out.Encode(V{"kind": "summary", "cases": e.trace.N, "findings": findings})
		}
	}()
	chunkSizes := []int{1, 2, 3, 4, 5, 7, 16, 64, 255, 1000, 4096}
	for i := 0; i < small; i++ {
		C := chunkSizes[e.g.N(len(chunkSizes))]
		lens := []int{0, 1, C - 1, C, C + 1, 2*C - 1, 2 * C, 2*C + 1, 3*C + 2, 5 * C, 7*C - 1}
		L := lens[e.g.N(len(lens))]
		if e.g.P(25) {
			L = e.g.N(12*C + 3)
		}
		if L < 0 {
			L = 0
		}
		tracked := e.g.P(40)
		how := "close"
		switch x := e.g.N(10); {
		case x < 2:
			how = "abort"
		case x < 5 && tracked:
			how = "suspend"
		}
		id, data, bucket := e.upload(C, L, tracked, how, 3*C+2)
		if how != "abort" && (data != nil || L == 0) {
			if !e.unclaimed {
				e.download(bucket, id, data, C, 10)
			}
			if e.g.P(30) || e.unclaimed {
				// delete: no chunk may be left behind
				if err := bucket.Delete(ctx, id); err != nil {
					finding("gridfs", "Delete failed: "+err.Error(), nil)
				}
				if tracked {
					// tracked buckets only mark the file; the cleanup removes file and chunks
					if err := bucket.Cleanup(ctx, 0); err != nil {
						finding("gridfs", "Cleanup failed: "+err.Error(), nil)
					}
				}
				rows, _ := e.chunkTable(bucket, id)
				tab := []interface{}{}
				for _, r := range rows {
					tab = append(tab, []interface{}{r.N, r.Len})
				}
				nf, _ := bucket.GetFilesCollection(ctx).CountDocuments(ctx, bson.M{"_id": id})
				nm, _ := bucket.GetMarkersCollection(ctx).CountDocuments(ctx, bson.M{"files_id": id})
				e.trace.Write(V{"fn": "upload", "B": B, "C": C, "L": L, "tracked": tracked, "how": "deleted", "steps": []interface{}{}, "chunks": tab, "hasfile": nf > 0, "flen": -1, "fchunk": -1,
					"markers": int(nm), "aborted": true})
			}
		}
	}
	e.catalog(10)
	if big {
		// around the upload buffer: chunk sizes with different remainders of B, lengths around B and 2B
		type bc struct{ C, L int }
		cases := []bc{{B, B}, {B, B + 1}, {B - 1, B}, {B - 1, 2*B + 1}, {B/2 + 1, B + 1}, {B/2 + 1, 2 * B}, {1000003, B - 1}, {B + 1, B + 5}, {B + 1, 2*B + 3}, {1000003, B + 1000003}, {4194304, B}, {4194304, 2*B + 1}, {5000000, B + 5}}
		sort.Slice(cases, func(i, j int) bool { return false })
		for i, c := range cases {
			tracked := i%3 == 1
			how := "close"
			if tracked && i%2 == 1 {
				how = "suspend"
			}
			id, data, bucket := e.upload(c.C, c.L, tracked, how, B/2+12345)
			if !e.unclaimed && data != nil {
				e.download(bucket, id, data, c.C, 8)
			}
			bucket.Delete(ctx, id)
			if tracked {
				bucket.Cleanup(ctx, 0)
			}
		}
	}
	faultCases := storeFaults(seed)
	e.trace.Close()
	out.Encode(V{"kind": "summary", "cases": e.trace.N, "store_fault_cases": faultCases, "findings": findings})
}
