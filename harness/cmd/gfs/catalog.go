package main

import (
	"bytes"
	"context"
	"fmt"
	"io"
	"time"

	"go.mongodb.org/mongo-driver/bson"
	"go.mongodb.org/mongo-driver/mongo/options"

	"github.com/256dpi/lungo"
)

// The file catalog of an untracked bucket: uploads under recurring names, downloads by name and revision,
// rename, delete and drop.  Every step is one event with the catalog before and after (file ids in upload
// order, names, lengths, and the chunks found per file id), judged by GridFS.tla (CatStep).

type catFile struct {
	ID   int    `json:"id"`
	Name string `json:"name"`
	Len  int    `json:"len"`
}

func (e *env) catObserve(bucket *lungo.Bucket, C int) ([]interface{}, []interface{}) {
	files := []interface{}{}
	cur, err := bucket.GetFilesCollection(e.ctx).Find(e.ctx, bson.M{}, options.Find().SetSort(bson.D{{Key: "uploadDate", Value: 1}, {Key: "_id", Value: 1}}))
	if err == nil {
		for cur.Next(e.ctx) {
			var f struct {
				ID     int32  `bson:"_id"`
				Name   string `bson:"filename"`
				Length int64  `bson:"length"`
			}
			if cur.Decode(&f) == nil {
				files = append(files, V{"id": int(f.ID), "name": f.Name, "len": int(f.Length)})
			}
		}
		cur.Close(e.ctx)
	}
	owners := map[int]int{}
	cc, err := bucket.GetChunksCollection(e.ctx).Find(e.ctx, bson.M{})
	if err == nil {
		for cc.Next(e.ctx) {
			var ch struct {
				File int32 `bson:"files_id"`
			}
			if cc.Decode(&ch) == nil {
				owners[int(ch.File)]++
			}
		}
		cc.Close(e.ctx)
	}
	ol := []interface{}{}
	for id := 1; id <= 64; id++ {
		if n, ok := owners[id]; ok {
			ol = append(ol, []interface{}{id, n})
		}
	}
	return files, ol
}

func (e *env) catalog(rounds int) {
	names := []string{"a.txt", "b.txt", "c.bin"}
	for r := 0; r < rounds; r++ {
		C := []int{3, 4, 16}[r%3]
		bucket := lungo.NewBucket(e.db, options.GridFSBucket().SetName(fmt.Sprintf("cat%d", r)).SetChunkSizeBytes(int32(C)))
		next := 1
		contents := map[int][]byte{}
		steps := 14 + e.g.N(8)
		for s := 0; s < steps; s++ {
			pre, preCh := e.catObserve(bucket, C)
			ev := V{"fn": "catalog", "C": C, "pre": pre, "prechunks": preCh, "round": r, "step": s}
			res := V{"err": false, "id": 0, "len": -1, "same": true}
			switch x := e.g.N(100); {
			case x < 40 || s < 3:
				// upload under a (recurring) name
				name := names[e.g.N(len(names))]
				L := []int{0, 1, C - 1, C, C + 1, 2*C + 1, 5 * C}[e.g.N(7)]
				data := content(L, uint32(next))
				id := next
				next++
				ev["op"], ev["name"], ev["id"], ev["len"] = "upload", name, id, L
				time.Sleep(2 * time.Millisecond) // distinct upload dates: revisions are defined by them
				err := bucket.UploadFromStreamWithID(e.ctx, int32(id), name, bytes.NewReader(data))
				if err != nil {
					res["err"] = true
				} else {
					contents[id] = data
				}
			case x < 65:
				name := append(names, "none")[e.g.N(4)]
				rev := []int{-1, -1, -2, 0, 0, 1, 2, -3, 5, -9}[e.g.N(10)]
				ev["op"], ev["name"], ev["rev"] = "byname", name, rev
				var buf bytes.Buffer
				st, err := bucket.OpenDownloadStreamByName(e.ctx, name, options.GridFSName().SetRevision(int32(rev)))
				if err != nil {
					res["err"] = true
				} else {
					_, err = io.Copy(&buf, st)
					st.Close()
					if err != nil {
						res["err"] = true
					} else {
						f := st.GetFile()
						id := int(f.ID.(int32))
						res["id"], res["len"] = id, buf.Len()
						res["same"] = bytes.Equal(buf.Bytes(), contents[id])
					}
				}
			case x < 75:
				id := 1 + e.g.N(next+1)
				name := names[e.g.N(len(names))]
				ev["op"], ev["id"], ev["name"] = "rename", id, name
				if err := bucket.Rename(e.ctx, int32(id), name); err != nil {
					res["err"] = true
				}
			case x < 92:
				id := 1 + e.g.N(next+1)
				ev["op"], ev["id"] = "delete", id
				if err := bucket.Delete(e.ctx, int32(id)); err != nil {
					res["err"] = true
				}
			case x < 96:
				id := 1 + e.g.N(next+1)
				ev["op"], ev["id"] = "byid", id
				var buf bytes.Buffer
				n, err := bucket.DownloadToStream(e.ctx, int32(id), &buf)
				if err != nil {
					res["err"] = true
				} else {
					res["id"], res["len"] = id, int(n)
					res["same"] = bytes.Equal(buf.Bytes(), contents[id])
				}
			default:
				ev["op"] = "drop"
				if err := bucket.Drop(e.ctx); err != nil {
					res["err"] = true
				}
			}
			post, postCh := e.catObserve(bucket, C)
			ev["res"], ev["post"], ev["postchunks"] = res, post, postCh
			for _, k := range []string{"name", "id", "len", "rev"} {
				if _, ok := ev[k]; !ok {
					if k == "name" {
						ev[k] = ""
					} else {
						ev[k] = 0
					}
				}
			}
			e.trace.Write(ev)
		}
		bucket.Drop(context.Background())
	}
}
