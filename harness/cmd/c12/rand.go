package main

import (
	"encoding/json"
	"fmt"
	"math"
	"os"
	"path/filepath"

	"go.mongodb.org/mongo-driver/bson"
	"go.mongodb.org/mongo-driver/bson/primitive"

	"verif/harness/enc"
	"verif/harness/gen"
	"verif/harness/util"
)

func d128(s string) primitive.Decimal128 {
	v, err := primitive.ParseDecimal128(s)
	if err != nil {
		panic(err)
	}
	return v
}

// sameNumber returns the same numeric value in another representation where one exists.
func sameNumber(g *gen.G, v interface{}) (interface{}, bool) {
	var f float64
	switch x := v.(type) {
	case int32:
		f = float64(x)
	case int64:
		if x > 1<<52 || x < -(1<<52) {
			return nil, false
		}
		f = float64(x)
	case float64:
		if x != math.Trunc(x) || math.Abs(x) > 1<<30 {
			return nil, false
		}
		f = x
	default:
		return nil, false
	}
	switch g.N(4) {
	case 0:
		if f >= math.MinInt32 && f <= math.MaxInt32 {
			return int32(f), true
		}
	case 1:
		return int64(f), true
	case 2:
		return f, true
	}
	return d128(fmt.Sprintf("%d", int64(f))), true
}

// tweak changes one place of a value: a number becomes the same number of another kind (the result compares
// equal) or its neighbour, a document or array gains, loses or swaps an element.
func tweak(g *gen.G, v interface{}) interface{} {
	switch x := v.(type) {
	case bson.D:
		if len(x) == 0 || g.P(25) {
			return append(append(bson.D{}, x...), bson.E{Key: g.PickS("a", "b", "z"), Value: g.Scalar()})
		}
		out := append(bson.D{}, x...)
		i := g.N(len(out))
		switch g.N(4) {
		case 0:
			return out[:len(out)-1] // a proper prefix
		case 1:
			if len(out) > 1 {
				j := g.N(len(out))
				out[i], out[j] = out[j], out[i]
				return out
			}
		}
		out[i] = bson.E{Key: out[i].Key, Value: tweak(g, out[i].Value)}
		return out
	case bson.A:
		if len(x) == 0 || g.P(25) {
			return append(append(bson.A{}, x...), g.Scalar())
		}
		out := append(bson.A{}, x...)
		i := g.N(len(out))
		if g.P(25) {
			return out[:len(out)-1]
		}
		out[i] = tweak(g, out[i])
		return out
	case int32, int64, float64:
		if g.P(60) {
			if s, ok := sameNumber(g, x); ok {
				return s
			}
		}
		switch n := x.(type) {
		case int32:
			return n + 1
		case int64:
			return n - 1
		case float64:
			return g.Pick(n+0.5, math.NaN(), math.Inf(1), -n, math.Copysign(0, -1))
		}
	case string:
		return g.Pick(x+"a", "", x+"\x00", "é"+x)
	case nil:
		return g.Pick(false, int32(0), "")
	case bool:
		return !x
	}
	return g.Scalar()
}

// runRand writes n random ordered pairs with the sign bsonkit.Compare gives them and checks the order laws on
// random triples of the real function.
// aliased returns a shorter value that shares its memory with v (a prefix re-slice of an array or document, at the top
// or one level down), as the library's own array operators produce them: values are compared by content, never by
// where they are stored.
func aliased(v interface{}) interface{} {
	switch x := v.(type) {
	case bson.A:
		if len(x) > 0 {
			return x[:len(x)-1]
		}
	case bson.D:
		for i, e := range x {
			if a, ok := e.Value.(bson.A); ok && len(a) > 0 {
				c := append(bson.D{}, x...)
				c[i].Value = a[:len(a)-1]
				return c
			}
		}
		if len(x) > 0 {
			return x[:len(x)-1]
		}
	}
	return v
}

func runRand(dir string, seed int64, n int) {
	g := gen.New(seed)
	t := enc.NewTable()
	trace := util.CreateNDJSON(filepath.Join(dir, "trace.ndjson"))
	out := json.NewEncoder(os.Stdout)
	sign := func(c int) int {
		if c < 0 {
			return -1
		} else if c > 0 {
			return 1
		}
		return 0
	}
	panics, laws, lawViol := 0, 0, 0
	cmp := func(a, b interface{}) (int, bool) {
		c, p := safeCompare(a, b)
		if p != nil {
			panics++
			out.Encode(map[string]interface{}{"kind": "panic", "l": t.Val(a), "r": t.Val(b), "panic": fmt.Sprint(p)})
			return 0, false
		}
		return sign(c), true
	}
	for i := 0; i < n; i++ {
		var l, r, m interface{}
		l = g.Value(2, g.P(30))
		switch x := g.N(10); {
		case x < 4:
			r = g.Value(2, g.P(30))
		case x < 5:
			r = l
		case x < 6:
			r = aliased(l)
		default:
			r = tweak(g, l)
		}
		m = tweak(g, r)
		lr, ok1 := cmp(l, r)
		rl, ok2 := cmp(r, l)
		if !ok1 || !ok2 {
			continue
		}
		trace.Write(map[string]interface{}{"fn": "cmp", "l": t.Val(l), "r": t.Val(r), "res": lr})
		laws++
		if lr != -rl {
			lawViol++
			out.Encode(map[string]interface{}{"kind": "law", "law": "antisymmetry", "l": t.Val(l), "r": t.Val(r), "lr": lr, "rl": rl, "lgo": fmt.Sprint(l), "rgo": fmt.Sprint(r)})
		}
		// transitivity / congruence on (l, r, m)
		rm, ok3 := cmp(r, m)
		lm, ok4 := cmp(l, m)
		if ok3 && ok4 {
			trace.Write(map[string]interface{}{"fn": "cmp", "l": t.Val(r), "r": t.Val(m), "res": rm})
			laws++
			bad := (lr <= 0 && rm <= 0 && lm > 0) || (lr >= 0 && rm >= 0 && lm < 0) || (lr == 0 && rm != lm) || (lr <= 0 && rm <= 0 && (lr < 0 || rm < 0) && lm == 0)
			if bad {
				lawViol++
				out.Encode(map[string]interface{}{"kind": "law", "law": "transitivity", "l": t.Val(l), "r": t.Val(r), "m": t.Val(m), "lr": lr, "rm": rm, "lm": lm,
					"lgo": fmt.Sprint(l), "rgo": fmt.Sprint(r), "mgo": fmt.Sprint(m)})
			}
		}
	}
	trace.Close()
	util.WriteJSON(filepath.Join(dir, "strings.json"), t.JSON())
	out.Encode(map[string]interface{}{"kind": "summary", "cases": trace.N, "law_checks": laws, "law_violations": lawViol, "panics": panics})
}
