// Command c12 binds BSON.tla's comparison order to bsonkit.Compare.
//
//	c12 gen <dir>     write pool.json and strings.json for TLC
//	c12 check <dir>   read matrix.json (TLC: Cmp on every ordered pair) and
//	                  compare with bsonkit.Compare; also check the order laws
//	                  directly on the real function. Prints one JSON line per
//	                  disagreement class member and a final summary line.
package main

import (
	"encoding/json"
	"fmt"
	"os"
	"path/filepath"
	"strconv"

	"github.com/256dpi/lungo/bsonkit"

	"verif/harness/enc"
	"verif/harness/pools"
	"verif/harness/util"
)

func main() {
	if len(os.Args) < 3 {
		fmt.Fprintln(os.Stderr, "usage: c12 gen|check <dir>")
		os.Exit(2)
	}
	dir := os.Args[2]
	if os.Args[1] == "rand" {
		seed, _ := strconv.ParseInt(os.Args[3], 10, 64)
		n, _ := strconv.Atoi(os.Args[4])
		runRand(dir, seed, n)
		return
	}
	pool := pools.OrderPool()
	switch os.Args[1] {
	case "gen":
		t := enc.NewTable()
		vals := make([]interface{}, len(pool))
		for i, v := range pool {
			vals[i] = t.Val(v)
		}
		util.WriteJSON(filepath.Join(dir, "pool.json"), vals)
		util.WriteJSON(filepath.Join(dir, "strings.json"), t.JSON())
		fmt.Printf("{\"pool\":%d}\n", len(pool))
	case "check":
		var matrix [][]int
		util.ReadJSON(filepath.Join(dir, "matrix.json"), &matrix)
		if len(matrix) != len(pool) {
			fmt.Fprintf(os.Stderr, "matrix size %d != pool %d\n", len(matrix), len(pool))
			os.Exit(2)
		}
		t := enc.NewTable()
		out := json.NewEncoder(os.Stdout)
		n := len(pool)
		real := make([][]int, n)
		panics := 0
		for i := range pool {
			real[i] = make([]int, n)
			for j := range pool {
				c, p := safeCompare(pool[i], pool[j])
				if p != nil {
					panics++
					out.Encode(map[string]interface{}{"kind": "panic", "i": i, "j": j, "l": t.Val(pool[i]), "r": t.Val(pool[j]), "panic": fmt.Sprint(p)})
					c = -99
				}
				real[i][j] = c
			}
		}
		disagree := 0
		for i := range pool {
			for j := range pool {
				if real[i][j] != matrix[i][j] && real[i][j] != -99 {
					disagree++
					out.Encode(map[string]interface{}{"kind": "disagree", "i": i, "j": j, "l": t.Val(pool[i]), "r": t.Val(pool[j]),
						"lgo": fmt.Sprintf("%T(%v)", pool[i], pool[i]), "rgo": fmt.Sprintf("%T(%v)", pool[j], pool[j]),
						"spec": matrix[i][j], "impl": real[i][j]})
				}
			}
		}
		// laws on the real function alone
		anti, trans, congr := 0, 0, 0
		for i := 0; i < n; i++ {
			for j := 0; j < n; j++ {
				if real[i][j] == -99 || real[j][i] == -99 {
					continue
				}
				if real[i][j] != -real[j][i] {
					anti++
					if anti <= 20 {
						out.Encode(map[string]interface{}{"kind": "antisymmetry", "i": i, "j": j, "lgo": fmt.Sprintf("%T(%v)", pool[i], pool[i]), "rgo": fmt.Sprintf("%T(%v)", pool[j], pool[j])})
					}
				}
			}
		}
		for i := 0; i < n; i++ {
			for j := 0; j < n; j++ {
				if real[i][j] > 0 || real[i][j] == -99 {
					continue
				}
				for k := 0; k < n; k++ {
					if real[j][k] > 0 || real[j][k] == -99 || real[i][k] == -99 {
						continue
					}
					// i <= j, j <= k  =>  i <= k ; and if one is strict, i < k
					strict := real[i][j] < 0 || real[j][k] < 0
					if real[i][k] > 0 || (strict && real[i][k] == 0) {
						if real[i][j] == 0 || real[j][k] == 0 {
							congr++
						} else {
							trans++
						}
						if trans+congr <= 40 {
							out.Encode(map[string]interface{}{"kind": "transitivity", "i": i, "j": j, "k": k,
								"a": fmt.Sprintf("%T(%v)", pool[i], pool[i]), "b": fmt.Sprintf("%T(%v)", pool[j], pool[j]), "c": fmt.Sprintf("%T(%v)", pool[k], pool[k]),
								"ab": real[i][j], "bc": real[j][k], "ac": real[i][k]})
						}
					}
				}
			}
		}
		out.Encode(map[string]interface{}{"kind": "summary", "pool": n, "pairs": n * n, "triples": n * n * n, "disagree": disagree,
			"panics": panics, "antisymmetry": anti, "transitivity": trans, "congruence": congr})
	}
}

func safeCompare(a, b interface{}) (c int, p interface{}) {
	defer func() {
		if r := recover(); r != nil {
			p = r
		}
	}()
	return bsonkit.Compare(a, b), nil
}
