// Command dbt records histories of driver-API calls on the real lungo engine for
// validation against spec/Database.tla (trace/TraceDB.tla).
//
//	dbt hist  <dir> <seed> <histories> <calls>   seeded random histories, a fresh engine each
//	dbt kth   <dir> <seed>   failures at the k-th of n matched documents / batch items (C02)
//	dbt uniq  <dir> <seed>   writes close to uniqueness violations (C07)
//	dbt oplog <dir> <seed>   multi-document writes with document-dependent change events, no-ops, drops (C08)
//	dbt clean <dir> <seed>   the real Transaction.Clean on crafted change logs: every configuration of the retention grid (C08)
//	dbt reload <dir> <seed> <histories> <calls>  histories on a FileStore with close/reopen points + typed-pool fidelity scenario (C06)
//	dbt txn   <dir> <seed> <histories> <steps>  one session with explicit transactions, a plain client and a snapshot taker, interleaved (C03)
//	dbt alias <dir> <seed>   every call kind with nested arguments; arguments and results are overwritten afterwards (C17)
//	dbt ttl   <dir> <seed>   TTL expiry passes (Transaction.Expire and the background loop) over typed value pools (C19)
//	dbt index <dir> <seed>   every write path next to partial / multikey / compound indexes (C15)
package main

import (
	"bufio"
	"encoding/json"
	"fmt"
	"strings"
	"os"
	"path/filepath"
	"strconv"

	"github.com/256dpi/lungo"

	"verif/harness/dbt"
	"verif/harness/enc"
	"verif/harness/gen"
	"verif/harness/util"
)

func main() {
	if len(os.Args) < 4 {
		util.Die("usage: dbt <mode> <dir> <seed> ...")
	}
	mode, dir := os.Args[1], os.Args[2]
	seed, _ := strconv.ParseInt(os.Args[3], 10, 64)
	out := json.NewEncoder(os.Stdout)
	table := enc.NewTable()
	trace := util.CreateNDJSON(filepath.Join(dir, "trace.ndjson"))
	g := gen.New(seed)
	findings, hists := 0, 0
	ops := map[string]int{}
	errs := map[string]int{}
	flush := func(e *dbt.Env) {
		for _, f := range e.Findings {
			out.Encode(f)
			findings++
		}
	}
	mk := func() *dbt.Env {
		hists++
		var store lungo.Store
		var flaky *dbt.FlakyStore
		if mode == "ttl" {
			flaky = &dbt.FlakyStore{Inner: lungo.NewMemoryStore()}
			store = flaky
		}
		e := dbt.Open(table, trace, g, store)
		e.Flaky = flaky
		e.OnCall = func(op string, failed bool) {
			ops[op]++
			if failed {
				errs[op]++
			}
		}
		return e
	}
	switch mode {
	case "hist":
		nh, _ := strconv.Atoi(os.Args[4])
		nc, _ := strconv.Atoi(os.Args[5])
		for h := 0; h < nh; h++ {
			e := mk()
			e.Hist = h
			for i := 0; i < nc; i++ {
				e.Do(e.RandomCall())
			}
			flush(e)
			e.Close()
		}
	case "kth":
		dbt.RunScenarios(dbt.KthScenarios(), mk, flush)
	case "uniq":
		dbt.RunScenarios(dbt.UniqueScenarios(), mk, flush)
	case "oplog":
		dbt.RunScenarios(dbt.OplogScenarios(), mk, flush)
	case "index":
		dbt.RunScenarios(dbt.IndexScenarios(), mk, flush)
	case "options":
		dbt.RunScenarios(dbt.OptionScenarios(), mk, flush)
	case "nested":
		dbt.RunScenarios(dbt.NestedScenarios(), mk, flush)
	case "reload":
		// random histories on a file store with reopen points, then the typed-pool fidelity scenario
		nh, _ := strconv.Atoi(os.Args[4])
		nc, _ := strconv.Atoi(os.Args[5])
		tmp, err := os.MkdirTemp("", "dbt-reload-")
		if err != nil {
			util.Die("tmp: %v", err)
		}
		defer os.RemoveAll(tmp)
		base := mk()
		base.Close()
		for h := 0; h <= nh; h++ {
			e := dbt.OpenFile(base, tmp, h)
			e.Hist = h
			hists++
			if h == nh {
				dbt.FidelityScenario(e)
			} else {
				for i := 0; i < nc; i++ {
					if g.P(12) {
						e.Reopen()
					} else {
						e.Do(e.RandomCall())
					}
				}
				e.Reopen()
			}
			flush(e)
			e.Close()
		}
		er := dbt.RetainReload(base, tmp)
		hists++
		flush(er)
		er.Close()
	case "replay":
		// spec -> code: replay the steps emitted by GenDatabase.tla (file given as 4th argument)
		f, err := os.Open(os.Args[4])
		if err != nil {
			util.Die("open steps: %v", err)
		}
		sc := bufio.NewScanner(f)
		sc.Buffer(make([]byte, 1<<24), 1<<24)
		kinds := map[string]bool{}
		for sc.Scan() {
			var step map[string]interface{}
			if json.Unmarshal(sc.Bytes(), &step) != nil {
				continue
			}
			e := mk()
			e.Trace = nil
			if diff := dbt.ReplayStep(e, step); diff != "" {
				kind := "replay"
				if strings.HasPrefix(diff, "harness:") {
					kind = "harness"
				}
				out.Encode(map[string]interface{}{"kind": kind, "what": diff, "op": step["op"], "a": step["a"], "pre": step["pre"]})
				findings++
			}
			res := step["res"].(map[string]interface{})
			kinds[fmt.Sprint(step["op"], res["err"], step["ev"])] = true
			e.Close()
		}
		out.Encode(map[string]interface{}{"kind": "summary", "cases": hists, "histories": hists, "findings": findings, "ops": ops, "errors": errs, "distinct": len(kinds)})
		return
	case "txn":
		nh, _ := strconv.Atoi(os.Args[4])
		nc, _ := strconv.Atoi(os.Args[5])
		for h := 0; h < nh; h++ {
			store := &dbt.FlakyStore{Inner: lungo.NewMemoryStore()}
			hists++
			e := dbt.Open(table, trace, g, store)
			e.Hist = h
			dbt.TxnHistory(e, store, nc)
			flush(e)
			e.Close()
		}
		base := mk()
		base.Close()
		sr := dbt.SnapshotRetention(base)
		flush(sr)
		sr.Close()
		tf := mk()
		tf.Hist = 8889
		dbt.TxnFailureScenario(tf)
		flush(tf)
		tf.Close()
		se := mk()
		se.Hist = 8891
		dbt.SnapshotExpiry(se)
		flush(se)
		se.Close()
		pw := mk()
		pw.Hist = 8890
		dbt.ParkedWriterScenario(pw)
		flush(pw)
		pw.Close()
	case "txnreplay":
		// spec -> code: behaviours of Txn.tla (GenTxn.tla) replayed on real engines; file given as 4th argument
		f, err := os.Open(os.Args[4])
		if err != nil {
			util.Die("open: %v", err)
		}
		sc := bufio.NewScanner(f)
		sc.Buffer(make([]byte, 1<<20), 1<<20)
		paths := 0
		for sc.Scan() {
			var path []dbt.TxnStep
			if json.Unmarshal(sc.Bytes(), &path) != nil {
				continue
			}
			paths++
			if diff := dbt.ReplayTxnPath(path); diff != "" {
				acts := []string{}
				for _, st := range path {
					acts = append(acts, st.A)
				}
				findings++
				if findings <= 20 {
					out.Encode(map[string]interface{}{"kind": "txnreplay", "what": diff, "path": acts})
				}
			}
		}
		f.Close()
		trace.N = paths
	case "parked":
		// writers queued behind a session transaction (C03 / C08: they start from what it published; nothing it logged is lost)
		pw := mk()
		pw.Hist = 8890
		dbt.ParkedWriterScenario(pw)
		flush(pw)
		pw.Close()
	case "txnfail":
		// failing calls as later writes of a session transaction (C02: they leave the transaction's working state as it was)
		tf := mk()
		tf.Hist = 8889
		dbt.TxnFailureScenario(tf)
		flush(tf)
		tf.Close()
	case "alias":
		e := mk()
		dbt.AliasScenarios(e)
		flush(e)
		e.Close()
		// random histories with every argument and result overwritten after every call
		nh, nc := 6, 25
		if len(os.Args) > 5 {
			nh, _ = strconv.Atoi(os.Args[4])
			nc, _ = strconv.Atoi(os.Args[5])
		}
		for h := 0; h < nh; h++ {
			eh := mk()
			eh.Hist = 100 + h
			dbt.AliasHistory(eh, nc)
			flush(eh)
			eh.Close()
		}
	case "ttl":
		tmp, err := os.MkdirTemp("", "dbt-ttl-")
		if err != nil {
			util.Die("tmp: %v", err)
		}
		defer os.RemoveAll(tmp)
		dbt.TTLScenarios(mk, flush, tmp)
		nr := 6
		if len(os.Args) > 4 {
			nr, _ = strconv.Atoi(os.Args[4])
		}
		dbt.RandomTTL(mk, flush, nr)
		e := mk()
		dbt.BackgroundExpiry(e, nil)
		flush(e)
		e.Close()
	case "clean":
		hists = dbt.CleanGrid(trace)
		hists += dbt.Retain(trace)
	default:
		util.Die("unknown mode %s", mode)
	}
	trace.Close()
	util.WriteJSON(filepath.Join(dir, "strings.json"), table.JSON())
	out.Encode(map[string]interface{}{"kind": "summary", "cases": trace.N, "histories": hists, "findings": findings, "ops": ops, "errors": errs})
}
