package main

import (
	"context"
	"fmt"

	"github.com/256dpi/lungo"
	"go.mongodb.org/mongo-driver/bson"
)

func main() {
	client, engine, err := lungo.Open(nil, lungo.Options{Store: lungo.NewMemoryStore()})
	if err != nil {
		panic(err)
	}
	defer engine.Close()
	c := client.Database("db").Collection("c")
	r, err := c.InsertOne(context.Background(), bson.D{{Key: "a", Value: 1}})
	fmt.Println(r, err)
}
