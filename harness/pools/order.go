// Package pools holds the fixed, collision-rich value pools shared by drivers
// and (as JSON constants) by the TLC generators.
package pools

import (
	"math"

	"go.mongodb.org/mongo-driver/bson"
	"go.mongodb.org/mongo-driver/bson/primitive"
)

func dec(s string) primitive.Decimal128 {
	d, err := primitive.ParseDecimal128(s)
	if err != nil {
		panic(err)
	}
	return d
}

func oid(s string) primitive.ObjectID {
	id, err := primitive.ObjectIDFromHex(s)
	if err != nil {
		panic(err)
	}
	return id
}

// OrderPool returns the value pool for the comparison-order check (C12):
// every numeric kind around 0, +-1, 2^24, 2^31, 2^53, 2^63 with neighbours on
// both sides, doubles that are not their own shortest decimal rendering with
// decimal128 values placed between the exact and the shortest value, +-0,
// subnormals, non-finite doubles and decimals, decimal representations of the
// same value with different exponents, strings with shared prefixes, documents
// and arrays that differ late or in length, and all other classes.
func OrderPool() []interface{} {
	var p []interface{}
	add := func(vs ...interface{}) { p = append(p, vs...) }

	// null
	add(nil)

	// int32
	for _, n := range []int32{0, 1, -1, 2, -2, 7, 1 << 24, 1<<24 + 1, 1<<24 - 1, math.MaxInt32, math.MaxInt32 - 1, math.MinInt32, math.MinInt32 + 1} {
		add(n)
	}
	// int64
	for _, n := range []int64{0, 1, -1, 2, 1 << 24, 1 << 31, 1<<31 - 1, 1<<31 + 1, -(1 << 31), -(1 << 31) - 1,
		1 << 53, 1<<53 - 1, 1<<53 + 1, 1<<53 + 2, -(1 << 53), -(1 << 53) - 1, -(1 << 53) + 1,
		math.MaxInt64, math.MaxInt64 - 1, math.MaxInt64 - 512, math.MaxInt64 - 1023, math.MaxInt64 - 1024, math.MaxInt64 - 907,
		math.MinInt64, math.MinInt64 + 1, math.MinInt64 + 1024, 9007199254740993, 9007199254740995} {
		add(n)
	}
	// float64
	two53 := float64(1 << 53)
	two63 := math.Ldexp(1, 63)
	for _, f := range []float64{0, math.Copysign(0, -1), 1, -1, 0.5, -0.5, 1.5, 2, 0.1, 0.2, 0.30000000000000004, 1e-7, 7,
		float64(1 << 24), float64(1<<24) + 1, float64(1 << 31), float64(1<<31) - 1, float64(1<<31) + 0.5, -float64(1 << 31), -float64(1<<31) - 1,
		two53, two53 - 1, two53 + 2, -two53, -two53 - 2, math.Nextafter(two53, 0),
		two63, math.Nextafter(two63, 0), math.Nextafter(two63, math.Inf(1)), -two63, math.Nextafter(-two63, 0), math.Nextafter(-two63, math.Inf(-1)),
		9223372036854774784, 1e19, -1e19, 1e300, -1e300, math.MaxFloat64, -math.MaxFloat64,
		math.SmallestNonzeroFloat64, -math.SmallestNonzeroFloat64, 2.2250738585072014e-308,
		math.NaN(), math.Inf(1), math.Inf(-1)} {
		add(f)
	}
	// decimal128
	for _, s := range []string{"0", "-0", "0E+3", "0.00", "1", "1.0", "1.00", "10E-1", "-1", "-1.0", "2", "0.5", "5E-1", "0.50", "1.5", "0.1",
		"0.1000000000000000055511151231257827", "0.10000000000000001", "0.2", "0.3", "0.30000000000000004", "0.3000000000000000444089209850062616",
		"7", "16777216", "16777217", "2147483647", "2147483648", "2147483647.5", "-2147483648", "-2147483649",
		"9007199254740992", "9007199254740993", "9007199254740991", "9007199254740992.5", "-9007199254740992", "-9007199254740993",
		"9223372036854775807", "9223372036854775808", "9223372036854775806", "9223372036854775807.5", "9223372036854774784", "9223372036854774950",
		"9223372036854774900", "9223372036854774783.5", "9223372036854774784.5", "-9223372036854775808", "-9223372036854775809", "-9223372036854775807",
		"1E+19", "10000000000000000000", "-1E+19", "1E+300", "9.999999999999999999999999999999999E+6144", "1E-6176", "-1E-6176",
		"1E-7", "4.940656458412465441765687928682214E-324", "1.797693134862315708145274237317044E+308", "1.797693134862315807E+308",
		"NaN", "Infinity", "-Infinity"} {
		add(dec(s))
	}

	// strings
	add("", "a", "aa", "ab", "b", "A", "a\x00", "a\x00b", "é", "z", "ä", "abc", "abd", "abÿ", "\U0001F600")

	// documents
	add(bson.D{}, bson.D{{Key: "a", Value: int32(1)}}, bson.D{{Key: "a", Value: int64(1)}}, bson.D{{Key: "a", Value: int32(2)}},
		bson.D{{Key: "b", Value: int32(1)}}, bson.D{{Key: "a", Value: int32(1)}, {Key: "b", Value: int32(1)}},
		bson.D{{Key: "a", Value: int32(1)}, {Key: "b", Value: int32(2)}}, bson.D{{Key: "a", Value: int32(1)}, {Key: "b", Value: "x"}},
		bson.D{{Key: "a", Value: nil}}, bson.D{{Key: "a", Value: "1"}}, bson.D{{Key: "a", Value: bson.D{{Key: "x", Value: int32(1)}}}},
		bson.D{{Key: "a", Value: bson.D{{Key: "x", Value: float64(1)}}}}, bson.D{{Key: "a", Value: bson.A{int32(1)}}},
		bson.D{{Key: "a", Value: bson.A{int32(1), int32(2)}}}, bson.D{{Key: "", Value: int32(1)}}, bson.D{{Key: "a", Value: true}},
		bson.D{{Key: "b", Value: int32(1)}, {Key: "a", Value: int32(1)}})

	// arrays
	add(bson.A{}, bson.A{nil}, bson.A{int32(1)}, bson.A{float64(1)}, bson.A{int32(1), int32(2)}, bson.A{int32(1), int32(3)}, bson.A{int32(2)},
		bson.A{int32(1), int32(2), int32(3)}, bson.A{"a"}, bson.A{bson.A{}}, bson.A{bson.A{int32(1)}}, bson.A{bson.D{}}, bson.A{bson.D{{Key: "a", Value: int32(1)}}},
		bson.A{int32(1), "a"}, bson.A{int32(1), nil}, bson.A{true}, bson.A{int64(1), int64(2)})

	// binary
	add(primitive.Binary{}, primitive.Binary{Subtype: 0, Data: []byte{1}}, primitive.Binary{Subtype: 0, Data: []byte{2}}, primitive.Binary{Subtype: 1, Data: []byte{1}},
		primitive.Binary{Subtype: 0, Data: []byte{1, 0}}, primitive.Binary{Subtype: 0, Data: []byte{0, 1}}, primitive.Binary{Subtype: 4, Data: []byte{}},
		primitive.Binary{Subtype: 128, Data: []byte{255}}, primitive.Binary{Subtype: 0, Data: []byte{255}})

	// object ids
	add(oid("000000000000000000000000"), oid("000000000000000000000001"), oid("0000000000000000000000ff"), oid("5f00000000000000000000aa"),
		oid("5f00000000000000000000ab"), oid("ffffffffffffffffffffffff"), oid("a00000000000000000000000"))

	// booleans
	add(false, true)

	// dates
	add(primitive.DateTime(0), primitive.DateTime(1), primitive.DateTime(-1), primitive.DateTime(1700000000000), primitive.DateTime(1700000000001),
		primitive.DateTime(math.MaxInt64), primitive.DateTime(math.MinInt64), primitive.DateTime(-1700000000000))

	// timestamps
	add(primitive.Timestamp{}, primitive.Timestamp{T: 0, I: 1}, primitive.Timestamp{T: 1, I: 0}, primitive.Timestamp{T: 1, I: 1},
		primitive.Timestamp{T: 1700000000, I: 5}, primitive.Timestamp{T: 1700000000, I: 6}, primitive.Timestamp{T: 2147483647, I: 2147483647})

	// regexes
	add(primitive.Regex{}, primitive.Regex{Pattern: "a"}, primitive.Regex{Pattern: "a", Options: "i"}, primitive.Regex{Pattern: "a", Options: "m"},
		primitive.Regex{Pattern: "b"}, primitive.Regex{Pattern: "ab"})

	return p
}
