// Package conc runs the real engine under concurrency with the verif hooks
// installed.  Hooks record one event per linearization point (global sequence
// number taken while the engine mutex is held), inject seeded yields at the
// critical windows and, for guided scenarios, block goroutines at chosen points
// until the scheduler releases them.
package conc

import (
	"bytes"
	"math/rand"
	"runtime"
	"strconv"
	"sync"
	"sync/atomic"
	"time"

	"github.com/256dpi/lungo"
	"github.com/256dpi/lungo/dbkit"

	"verif/harness/dbt"
)

// V is a JSON-able map.
type V = map[string]interface{}

// goid returns the id of the calling goroutine.
func goid() int64 {
	var buf [64]byte
	n := runtime.Stack(buf[:], false)
	f := bytes.Fields(buf[:n])
	if len(f) < 2 {
		return -1
	}
	id, _ := strconv.ParseInt(string(f[1]), 10, 64)
	return id
}

// Event is one hook event.
type Event struct {
	Seq    int64
	G      int64
	Point  string
	Txn    int // id of the transaction, 0 = none
	Cat    int // id of the engine's current catalog
	HasTxn bool
	Alive  bool
	Locked bool // recorded while the engine mutex was held
}

// pending is what the hooks collect for the call a goroutine is executing.
type pending struct {
	base      *lungo.Catalog // catalog a write transaction started from
	readCat   *lungo.Catalog // catalog a read saw
	pubPre    *lungo.Catalog // engine catalog at publish time
	pubPost   *lungo.Catalog // published catalog
	published bool
	began     bool
}

// Gate blocks goroutines of one role at one hook point.
type Gate struct {
	Point   string
	Role    string
	arrived chan struct{}
	release chan struct{}
	once    sync.Once
}

// Sched is the hook handler.
type Sched struct {
	mu      sync.Mutex
	seq     int64
	Events  []Event
	cats    map[*lungo.Catalog]int
	txns    map[*lungo.Transaction]int
	pend    map[int64]*pending
	roles   map[int64]string
	gates   []*Gate
	YieldPc int
	seed    int64
	rngs    sync.Map
	Stale   int32 // writers that published on a catalog that was not their base
	off     int32
	Ctrl    *Controller // when set, actors stop at the scheduling points and the controller picks who continues
}

// NewSched creates a scheduler.
func NewSched(seed int64, yieldPct int) *Sched {
	return &Sched{cats: map[*lungo.Catalog]int{}, txns: map[*lungo.Transaction]int{}, pend: map[int64]*pending{}, roles: map[int64]string{}, YieldPc: yieldPct, seed: seed}
}

// Install sets the global hooks.
func (s *Sched) Install() {
	lungo.VerifHook = s.hook
	lungo.VerifStreamHook = s.streamHook
	dbkit.VerifHook = s.semHook
}

// semHook records the moments a writer token changes hands (dbkit.Semaphore).
func (s *Sched) semHook(point string) {
	if atomic.LoadInt32(&s.off) == 1 {
		return
	}
	g := goid()
	s.mu.Lock()
	s.seq++
	s.Events = append(s.Events, Event{Seq: s.seq, G: g, Point: point})
	s.mu.Unlock()
}

// Uninstall removes the hooks.
func Uninstall() {
	lungo.VerifHook = nil
	lungo.VerifStreamHook = nil
	dbkit.VerifHook = nil
}

func (s *Sched) rng(g int64) *rand.Rand {
	if r, ok := s.rngs.Load(g); ok {
		return r.(*rand.Rand)
	}
	r := rand.New(rand.NewSource(s.seed*7919 + g))
	s.rngs.Store(g, r)
	return r
}

// SetRole names the calling goroutine (guided scenarios).
func (s *Sched) SetRole(role string) {
	s.mu.Lock()
	s.roles[goid()] = role
	s.mu.Unlock()
}

// AddGate installs a gate: the first goroutine of the role that reaches the point blocks there.
func (s *Sched) AddGate(role, point string) *Gate {
	g := &Gate{Point: point, Role: role, arrived: make(chan struct{}), release: make(chan struct{})}
	s.mu.Lock()
	s.gates = append(s.gates, g)
	s.mu.Unlock()
	return g
}

// Arrived waits until a goroutine blocks at the gate.
func (g *Gate) Arrived(timeout time.Duration) bool {
	select {
	case <-g.arrived:
		return true
	case <-time.After(timeout):
		return false
	}
}

// Release lets the blocked goroutine continue (and opens the gate for good).
func (g *Gate) Release() { g.once.Do(func() { close(g.release) }) }

var unlocked = map[string]bool{"begin.wait": true, "begin.woke": true, "session.start": true, "session.begun": true, "session.locked": true, "close.done": true, "use.committed": true}

func (s *Sched) catID(c *lungo.Catalog) int {
	if c == nil {
		return 0
	}
	id, ok := s.cats[c]
	if !ok {
		id = len(s.cats) + 1
		s.cats[c] = id
	}
	return id
}

func (s *Sched) hook(point string, e *lungo.Engine, txn *lungo.Transaction) {
	if atomic.LoadInt32(&s.off) == 1 {
		return
	}
	g := goid()
	locked := !unlocked[point]
	s.mu.Lock()
	s.seq++
	ev := Event{Seq: s.seq, G: g, Point: point, Locked: locked}
	if txn != nil {
		id, ok := s.txns[txn]
		if !ok {
			id = len(s.txns) + 1
			s.txns[txn] = id
		}
		ev.Txn = id
	}
	if locked {
		cat, etxn, alive, _ := e.VerifState()
		ev.Cat, ev.HasTxn, ev.Alive = s.catID(cat), etxn != nil, alive
		p := s.pend[g]
		if p != nil {
			switch point {
			case "begin.read":
				p.readCat = cat
			case "begin.write":
				p.base, p.began = cat, true
			case "commit.publish":
				p.pubPre, p.pubPost, p.published = cat, txn.Catalog(), true
				if p.base != nil && p.base != cat {
					atomic.AddInt32(&s.Stale, 1)
				}
			}
		}
	}
	s.Events = append(s.Events, ev)
	role := s.roles[g]
	var gate *Gate
	for _, gt := range s.gates {
		if gt.Point == point && gt.Role == role {
			gate = gt
		}
	}
	s.mu.Unlock()
	if s.Ctrl != nil {
		if unlocked[point] && point != "close.done" {
			s.Ctrl.Park(point)
		}
		return
	}
	if gate != nil {
		select {
		case <-gate.release:
		default:
			select {
			case gate.arrived <- struct{}{}:
			case <-gate.release:
			case <-time.After(5 * time.Second):
			}
			select {
			case <-gate.release:
			case <-time.After(10 * time.Second):
			}
		}
		return
	}
	s.perturb(g)
}

func (s *Sched) perturb(g int64) {
	if s.YieldPc <= 0 {
		return
	}
	r := s.rng(g)
	if r.Intn(100) < s.YieldPc {
		switch r.Intn(4) {
		case 0:
			time.Sleep(time.Duration(r.Intn(200)) * time.Microsecond)
		default:
			for i := 0; i < 1+r.Intn(3); i++ {
				runtime.Gosched()
			}
		}
	}
}

func (s *Sched) streamHook(point string, st *lungo.Stream) {
	if atomic.LoadInt32(&s.off) == 1 {
		return
	}
	g := goid()
	s.mu.Lock()
	s.seq++
	s.Events = append(s.Events, Event{Seq: s.seq, G: g, Point: "stream." + point})
	role := s.roles[g]
	var gate *Gate
	for _, gt := range s.gates {
		if gt.Point == "stream."+point && gt.Role == role {
			gate = gt
		}
	}
	s.mu.Unlock()
	if gate != nil {
		select {
		case <-gate.release:
		default:
			select {
			case gate.arrived <- struct{}{}:
			case <-gate.release:
			case <-time.After(5 * time.Second):
			}
			select {
			case <-gate.release:
			case <-time.After(10 * time.Second):
			}
		}
		return
	}
	s.perturb(g)
}

// Quiet stops recording and perturbing (used while the harness itself observes the engine).
func (s *Sched) Quiet(on bool) {
	if on {
		atomic.StoreInt32(&s.off, 1)
	} else {
		atomic.StoreInt32(&s.off, 0)
	}
}

// StartCall registers the call the calling goroutine is about to make.
func (s *Sched) StartCall() {
	g := goid()
	s.mu.Lock()
	s.pend[g] = &pending{}
	s.mu.Unlock()
}

// EndCall returns what the hooks saw during the call.
func (s *Sched) EndCall() (base, readCat, pubPre, pubPost *lungo.Catalog, began, published bool) {
	g := goid()
	s.mu.Lock()
	p := s.pend[g]
	delete(s.pend, g)
	s.mu.Unlock()
	if p == nil {
		return nil, nil, nil, nil, false, false
	}
	return p.base, p.readCat, p.pubPre, p.pubPost, p.began, p.published
}

// ProtoEvents renders the recorded protocol events for the trace (goroutines renumbered).
func (s *Sched) ProtoEvents() []interface{} {
	s.mu.Lock()
	defer s.mu.Unlock()
	gs := map[int64]int{}
	out := make([]interface{}, 0, len(s.Events))
	for _, ev := range s.Events {
		if _, ok := gs[ev.G]; !ok {
			gs[ev.G] = len(gs) + 1
		}
		out = append(out, V{"p": ev.Point, "g": gs[ev.G], "t": ev.Txn, "c": ev.Cat, "has": ev.HasTxn, "alive": ev.Alive, "locked": ev.Locked})
	}
	return out
}

// Worker is one concurrent actor with its own Env (shared engine, client, table).
type Worker struct {
	Env   *dbt.Env
	Sched *Sched
	Recs  []V
}

// Do performs one call under the hooks and keeps its record (written to the trace afterwards).
func (w *Worker) Do(c dbt.Call) {
	if w.Sched.Ctrl != nil {
		w.Sched.Ctrl.Park("call")
	}
	w.Sched.StartCall()
	invoke := time.Now()
	res := w.Env.RunOnly(c)
	ret := time.Now()
	base, readCat, pubPre, pubPost, began, published := w.Sched.EndCall()
	w.Recs = append(w.Recs, V{"call": c, "res": res, "base": base, "read": readCat, "pubpre": pubPre, "pubpost": pubPost, "began": began, "published": published,
		"invoke": invoke.UnixNano(), "ret": ret.UnixNano()})
}

// DoTxn runs the calls inside one session transaction (WithTransaction); with abort the
// callback returns an error after the calls, so nothing may become visible.
func (w *Worker) DoTxn(calls []dbt.Call, abort bool) {
	if w.Sched.Ctrl != nil {
		w.Sched.Ctrl.Park("call")
	}
	w.Sched.StartCall()
	var results []V
	committed := false
	plain := w.Env.Ctx
	w.Env.Client.UseSession(plain, func(sc lungo.ISessionContext) error {
		_, err := sc.WithTransaction(sc, func(sc2 lungo.ISessionContext) (interface{}, error) {
			w.Env.Ctx = sc2
			defer func() { w.Env.Ctx = plain }()
			for _, c := range calls {
				if w.Sched.Ctrl != nil {
					w.Sched.Ctrl.Park("txn-call")
				}
				results = append(results, w.Env.RunOnly(c))
			}
			if abort {
				return nil, errAbort
			}
			return nil, nil
		})
		committed = err == nil
		return nil
	})
	w.Env.Ctx = plain
	base, _, pubPre, pubPost, began, published := w.Sched.EndCall()
	if !began || len(results) != len(calls) {
		return // the transaction never started (engine closed, timeout)
	}
	w.Recs = append(w.Recs, V{"calls": calls, "results": results, "base": base, "pubpre": pubPre, "pubpost": pubPost, "published": published, "committed": committed})
}

type abortErr struct{}

func (abortErr) Error() string { return "callback asks for abort" }

var errAbort = abortErr{}

// ---------------------------------------------------------------------------
// Controlled scheduling: the actors of a small scenario stop at every scheduling point (the start of a call and
// the hook points that are reached without the engine mutex: begin.wait, begin.woke, session.*) and a controller
// decides who continues.  A schedule is the list of its choices; DFS over the choices enumerates the
// interleavings of the scenario at these points.  An actor that does not reach its next point within a short
// time after being resumed is waiting inside the engine (for the writer slot or a mutex): the controller then
// lets another parked actor run, which is exactly what would happen without it.

type actor struct {
	id     int
	parked bool
	done   bool
	point  string
	resume chan struct{}
}

// Controller serialises the actors of one run.
type Controller struct {
	mu     sync.Mutex
	actors map[int64]*actor
	order  []*actor
	wake   chan struct{}
	Used   []int    // the choice taken at every step
	Alts   []int    // the number of parked actors it was taken from
	Points []string // the point the chosen actor was resumed from
	Stuck  bool     // some actors neither parked nor finished for the deadlock timeout
	Rand   *rand.Rand // when set, choices beyond the prefix are drawn from it instead of being 0
}

// NewController creates a controller.
func NewController() *Controller {
	return &Controller{actors: map[int64]*actor{}, wake: make(chan struct{}, 64)}
}

// Register makes the calling goroutine actor number id; it parks at once.
func (c *Controller) Register(id int) {
	a := &actor{id: id, resume: make(chan struct{}, 1)}
	c.mu.Lock()
	c.actors[goid()] = a
	c.order = append(c.order, a)
	c.mu.Unlock()
	c.Park("start")
}

// Park blocks the calling actor until the controller resumes it.
func (c *Controller) Park(point string) {
	c.mu.Lock()
	a := c.actors[goid()]
	if a == nil {
		c.mu.Unlock()
		return
	}
	a.parked, a.point = true, point
	c.mu.Unlock()
	select {
	case c.wake <- struct{}{}:
	default:
	}
	<-a.resume
}

// Finish marks the calling actor as done.
func (c *Controller) Finish() {
	c.mu.Lock()
	if a := c.actors[goid()]; a != nil {
		a.done = true
	}
	c.mu.Unlock()
	select {
	case c.wake <- struct{}{}:
	default:
	}
}

// Run drives n registered actors: choices beyond the prefix are 0 (the parked actor with the lowest number).
func (c *Controller) Run(n int, prefix []int, settle, deadlock time.Duration) {
	// wait for all actors to register
	for {
		c.mu.Lock()
		k := len(c.order)
		c.mu.Unlock()
		if k >= n {
			break
		}
		time.Sleep(100 * time.Microsecond)
	}
	idle := time.Duration(0)
	for step := 0; ; {
		// settle: all live actors parked, or nothing moved for a while
		timer := time.NewTimer(settle)
	wait:
		for {
			c.mu.Lock()
			all := true
			for _, a := range c.order {
				if !a.done && !a.parked {
					all = false
				}
			}
			c.mu.Unlock()
			if all {
				break
			}
			select {
			case <-c.wake:
			case <-timer.C:
				break wait
			}
		}
		timer.Stop()
		c.mu.Lock()
		var parked []*actor
		alive := 0
		for _, a := range c.order {
			if !a.done {
				alive++
				if a.parked {
					parked = append(parked, a)
				}
			}
		}
		c.mu.Unlock()
		if alive == 0 {
			return
		}
		if len(parked) == 0 {
			idle += settle
			if idle > deadlock {
				c.Stuck = true
				return
			}
			continue
		}
		idle = 0
		idx := 0
		if step < len(prefix) && prefix[step] < len(parked) {
			idx = prefix[step]
		} else if step >= len(prefix) && c.Rand != nil {
			idx = c.Rand.Intn(len(parked))
		}
		c.Used, c.Alts, c.Points = append(c.Used, idx), append(c.Alts, len(parked)), append(c.Points, parked[idx].point)
		step++
		c.mu.Lock()
		parked[idx].parked = false
		c.mu.Unlock()
		parked[idx].resume <- struct{}{}
	}
}

// ReleaseAll lets every parked actor go (after a stuck run).
func (c *Controller) ReleaseAll() {
	c.mu.Lock()
	for _, a := range c.order {
		select {
		case a.resume <- struct{}{}:
		default:
		}
	}
	c.actors = map[int64]*actor{}
	c.mu.Unlock()
}

// Next returns the schedule after (used, alts) in depth-first order, or nil when the tree is exhausted.
func Next(used, alts []int) []int {
	for i := len(used) - 1; i >= 0; i-- {
		if used[i]+1 < alts[i] {
			return append(append([]int{}, used[:i]...), used[i]+1)
		}
	}
	return nil
}
