package dbt

import (
	"context"
	"errors"
	"time"

	"go.mongodb.org/mongo-driver/bson"
	"go.mongodb.org/mongo-driver/bson/primitive"
	"go.mongodb.org/mongo-driver/mongo"

	"github.com/256dpi/lungo"
)

func mongoIndex(key bson.D) mongo.IndexModel { return mongo.IndexModel{Keys: key} }

// Transaction histories (C03): one session with explicit transactions, a plain second
// client and a snapshot taker are interleaved one call at a time.
//
//   - calls made inside the session transaction are recorded against the transaction's
//     working catalog (reads see the transaction's own writes) together with the
//     committed catalog before and after, which must not change;
//   - plain reads while a transaction is open are recorded against the committed catalog;
//   - plain writes while a transaction is open use a 50 ms context and must fail leaving
//     everything unchanged;
//   - commit (with a store that accepts or rejects), abort, and the end of the session are
//     recorded with the working and the committed state;
//   - snapshots (read-only transactions, catalogs obtained earlier, partially consumed
//     cursors) are re-dumped after every later step.

// FlakyStore fails the next Store call when told to.
type FlakyStore struct {
	Inner    lungo.Store
	FailNext bool
	Stores   int
}

// Load ...
func (f *FlakyStore) Load() (*lungo.Catalog, error) { return f.Inner.Load() }

// Store ...
func (f *FlakyStore) Store(c *lungo.Catalog) error {
	f.Stores++
	if f.FailNext {
		f.FailNext = false
		return errors.New("injected store failure")
	}
	return f.Inner.Store(c)
}

var ddl = map[string]bool{"createIndex": true, "createIndexes": true, "dropIndex": true, "dropIndexByKey": true, "dropAllIndexes": true, "drop": true, "dropDatabase": true, "createCollection": true,
	"listIndexes": true, "listCollections": true, "estimatedCount": true}

type snapshot struct {
	id   int
	kind string
	cat  *lungo.Catalog
	dump V
	// cursor snapshots
	cur  lungo.ICursor
	rest []interface{}
}

func (e *Env) dumpCat(cat *lungo.Catalog) V {
	st, evs, _ := e.Obs(cat)
	tok := V{}
	for h, ns := range cat.Namespaces {
		l := []interface{}{}
		for _, doc := range ns.Documents.List {
			raw, _ := bson.Marshal(*doc)
			l = append(l, string(hexOf(raw)))
		}
		tok[h.String()] = l
	}
	return V{"state": st, "log": evs, "tok": tok}
}

func hexOf(b []byte) []byte {
	const digits = "0123456789abcdef"
	o := make([]byte, 0, len(b)*2)
	for _, c := range b {
		o = append(o, digits[c>>4], digits[c&15])
	}
	return o
}

// TxnHistory runs one interleaved history.
func TxnHistory(e *Env, store *FlakyStore, steps int) {
	g := e.G
	plainCtx := e.Ctx
	var snaps []*snapshot
	snapID := 0
	recheck := func() {
		for _, s := range snaps {
			if s.kind == "cursor" {
				continue
			}
			e.Step++
			e.Trace.Write(V{"fn": "snapcheck", "hist": e.Hist, "step": e.Step, "id": s.id, "kind": s.kind, "pre": s.dump, "post": e.dumpCat(s.cat)})
		}
	}
	// a second session: it runs whole transactions through WithTransaction when the writer slot is free and must be
	// refused (within its context's deadline, without running the callback) while the first session holds the slot
	second, serr := e.Client.StartSession()
	if serr == nil {
		defer second.EndSession(plainCtx)
	}
	e.Client.UseSession(plainCtx, func(sc lungo.ISessionContext) error {
		sess := sc.(lungo.SessionContext).Session
		inTxn := func() bool { return sess.Transaction() != nil }
		working := func() *lungo.Catalog {
			if t := sess.Transaction(); t != nil {
				return t.Catalog()
			}
			return nil
		}
		for i := 0; i < steps; i++ {
			switch r := g.N(100); {
			case r < 8 && !inTxn():
				pre := e.dumpCat(e.Engine.Catalog())
				err := sc.StartTransaction()
				e.Step++
				e.Trace.Write(V{"fn": "txn", "hist": e.Hist, "step": e.Step, "what": "start", "err": err != nil, "cpre": pre, "cpost": e.dumpCat(e.Engine.Catalog()), "wpre": pre,
					"wpost": func() V {
						if w := working(); w != nil {
							return e.dumpCat(w)
						}
						return pre
					}()})
			case r < 45:
				// a session call: inside a transaction it works on the working catalog
				c := e.RandomCall()
				if inTxn() {
					// index management, drops and collection creation open their own transaction and are refused inside one
					for tries := 0; tries < 20 && ddl[c.Op]; tries++ {
						c = e.RandomCall()
					}
					if ddl[c.Op] {
						continue
					}
					e.View = working
				}
				e.Ctx = sc
				e.Actor = "session"
				e.Do(c)
				e.View, e.Ctx, e.Actor = nil, plainCtx, ""
			case r < 55 && inTxn():
				// commit, sometimes with a store that rejects
				wpre := e.dumpCat(working())
				cpre := e.dumpCat(e.Engine.Catalog())
				store.FailNext = g.P(30)
				failing := store.FailNext
				err := sc.CommitTransaction(sc)
				dirtyFail := failing && !store.FailNext // the store was actually asked and refused
				store.FailNext = false
				e.Step++
				e.Trace.Write(V{"fn": "txn", "hist": e.Hist, "step": e.Step, "what": "commit", "err": err != nil, "storefail": dirtyFail, "cpre": cpre, "cpost": e.dumpCat(e.Engine.Catalog()), "wpre": wpre, "wpost": wpre})
			case r < 62 && inTxn():
				wpre := e.dumpCat(working())
				cpre := e.dumpCat(e.Engine.Catalog())
				err := sc.AbortTransaction(sc)
				e.Step++
				e.Trace.Write(V{"fn": "txn", "hist": e.Hist, "step": e.Step, "what": "abort", "err": err != nil, "cpre": cpre, "cpost": e.dumpCat(e.Engine.Catalog()), "wpre": wpre, "wpost": wpre})
			case r < 66 && second != nil:
				s2 := second.(*lungo.Session)
				if inTxn() {
					ctx, cancel := context.WithTimeout(plainCtx, 50*time.Millisecond)
					cpre := e.dumpCat(e.Engine.Catalog())
					wpre := e.dumpCat(working())
					ran := false
					_, err := s2.WithTransaction(ctx, func(lungo.ISessionContext) (interface{}, error) { ran = true; return nil, nil })
					cancel()
					e.Step++
					e.Trace.Write(V{"fn": "blocked", "hist": e.Hist, "step": e.Step, "op": "withTransaction", "isread": false, "err": err != nil && !ran, "cpre": cpre,
						"cpost": e.dumpCat(e.Engine.Catalog()), "wpre": wpre, "wpost": e.dumpCat(working())})
					continue
				}
				var wend, cend V
				commit := g.P(65)
				failing := false
				_, err := s2.WithTransaction(plainCtx, func(sc2 lungo.ISessionContext) (interface{}, error) {
					for k := 0; k <= g.N(3); k++ {
						c := e.RandomCall()
						for tries := 0; tries < 20 && ddl[c.Op]; tries++ {
							c = e.RandomCall()
						}
						if ddl[c.Op] {
							continue
						}
						e.View, e.Ctx, e.Actor = func() *lungo.Catalog {
							if t := s2.Transaction(); t != nil {
								return t.Catalog()
							}
							return nil
						}, sc2, "session"
						e.Do(c)
						e.View, e.Ctx, e.Actor = nil, plainCtx, ""
					}
					wend = e.dumpCat(s2.Transaction().Catalog())
					cend = e.dumpCat(e.Engine.Catalog())
					if !commit {
						return nil, errors.New("give up")
					}
					store.FailNext = g.P(25)
					failing = store.FailNext
					return nil, nil
				})
				dirtyFail := failing && !store.FailNext
				store.FailNext = false
				e.Step++
				if commit {
					e.Trace.Write(V{"fn": "txn", "hist": e.Hist, "step": e.Step, "what": "commit", "err": err != nil, "storefail": dirtyFail, "cpre": cend, "cpost": e.dumpCat(e.Engine.Catalog()), "wpre": wend, "wpost": wend})
				} else {
					e.Trace.Write(V{"fn": "txn", "hist": e.Hist, "step": e.Step, "what": "abort", "err": false, "cpre": cend, "cpost": e.dumpCat(e.Engine.Catalog()), "wpre": wend, "wpost": wend})
				}
				if s2.Transaction() != nil {
					e.finding("txn-state", "WithTransaction returned but the session still has an open transaction", nil)
				}
			case r < 75:
				// plain read on the committed state
				ns := e.pickNS()
				var c Call
				switch g.N(3) {
				case 0:
					c = e.Find(ns, e.FilterArg(), e.SortArg(), nil, 0, 0)
				case 1:
					c = e.Count(ns, e.FilterArg(), 0, 0)
				default:
					c = e.Distinct(ns, g.PickS("a", "b", "_id"), e.FilterArg())
				}
				e.Actor = "plain"
				e.Do(c)
				e.Actor = ""
			case r < 85:
				// plain write: blocked while the session transaction holds the writer slot
				c := e.RandomCall()
				if inTxn() {
					ctx, cancel := context.WithTimeout(plainCtx, 50*time.Millisecond)
					e.Ctx = ctx
					e.Actor = "blocked"
					cpre := e.dumpCat(e.Engine.Catalog())
					wpre := e.dumpCat(working())
					e.Trace, e.keep = nil, e.Trace
					ev := e.Do(c)
					e.Trace, e.keep = e.keep, nil
					cancel()
					e.Ctx = plainCtx
					e.Actor = ""
					if ev != nil {
						isRead := c.Op == "find" || c.Op == "findOne" || c.Op == "count" || c.Op == "estimatedCount" || c.Op == "distinct" || c.Op == "listIndexes" || c.Op == "listCollections"
						e.Trace.Write(V{"fn": "blocked", "hist": e.Hist, "step": e.Step, "op": c.Op, "isread": isRead, "err": ev["res"].(V)["err"], "cpre": cpre, "cpost": e.dumpCat(e.Engine.Catalog()),
							"wpre": wpre, "wpost": e.dumpCat(working())})
					}
				} else {
					e.Actor = "plain"
					e.Do(c)
					e.Actor = ""
				}
			default:
				// take a snapshot
				snapID++
				switch g.N(3) {
				case 0:
					txn, err := e.Engine.Begin(plainCtx, false)
					if err == nil {
						snaps = append(snaps, &snapshot{id: snapID, kind: "read-only transaction", cat: txn.Catalog(), dump: e.dumpCat(txn.Catalog())})
					}
				case 1:
					cat := e.Engine.Catalog()
					snaps = append(snaps, &snapshot{id: snapID, kind: "catalog", cat: cat, dump: e.dumpCat(cat)})
				default:
					if w := working(); w != nil {
						// the working catalog of the open transaction is a snapshot for as long as no further session call is made: not retained
						continue
					}
					ns := e.pickNS()
					cur, err := e.coll(ns).Find(plainCtx, bson.D{})
					if err == nil {
						var all []bson.D
						cur2, _ := e.coll(ns).Find(plainCtx, bson.D{})
						if cur2 != nil {
							cur2.All(plainCtx, &all)
						}
						if len(all) > 1 && cur.Next(plainCtx) {
							snaps = append(snaps, &snapshot{id: snapID, kind: "cursor", cur: cur, rest: e.list(all[1:])})
						}
					}
				}
			}
			recheck()
		}
		return nil
	})
	// the session has ended: an open transaction must have been discarded
	e.Step++
	recheck()
	// drain the cursors: they must return what was there when they were opened
	for _, s := range snaps {
		if s.kind != "cursor" {
			continue
		}
		var rest []bson.D
		for s.cur.Next(plainCtx) {
			var one bson.D
			if err := s.cur.Decode(&one); err != nil {
				break
			}
			rest = append(rest, one)
		}
		e.Step++
		e.Trace.Write(V{"fn": "snapcheck", "hist": e.Hist, "step": e.Step, "id": s.id, "kind": s.kind, "pre": V{"docs": s.rest}, "post": V{"docs": e.list(rest)}})
	}
	// a probe write must succeed (the writer slot is free again)
	ctx, cancel := context.WithTimeout(plainCtx, 15*time.Second)
	e.Ctx = ctx
	e.Actor = "probe"
	e.Do(e.InsertOne("d.probe", d("_id", int32(1))))
	cancel()
	e.Ctx = plainCtx
}

// SnapshotRetention: snapshots taken while the change log is over its limits must survive
// commits that trim it, in particular commits made dirty by index management only
// (which never touch the change log themselves).
func SnapshotRetention(base *Env) *Env {
	client, engine, err := lungo.Open(base.Ctx, lungo.Options{Store: lungo.NewMemoryStore(), MinOplogSize: 1, MaxOplogSize: 2, MinOplogAge: time.Nanosecond, MaxOplogAge: time.Hour})
	if err != nil {
		return base
	}
	e := *base
	e.Client, e.Engine, e.Findings, e.Hist = client, engine, nil, 8888
	for i := 0; i < 5; i++ {
		e.Do(e.InsertOne("d.c1", d("_id", int32(i), "a", int32(i))))
	}
	time.Sleep(1100 * time.Millisecond) // the five events are now older than the minimum age
	var snaps []*snapshot
	take := func(kind string) {
		if kind == "catalog" {
			cat := e.Engine.Catalog()
			snaps = append(snaps, &snapshot{id: len(snaps) + 1, kind: kind, cat: cat, dump: e.dumpCat(cat)})
		} else if txn, err := e.Engine.Begin(e.Ctx, false); err == nil {
			snaps = append(snaps, &snapshot{id: len(snaps) + 1, kind: kind, cat: txn.Catalog(), dump: e.dumpCat(txn.Catalog())})
		}
	}
	recheck := func() {
		for _, s := range snaps {
			e.Step++
			e.Trace.Write(V{"fn": "snapcheck", "hist": e.Hist, "step": e.Step, "id": s.id, "kind": s.kind, "pre": s.dump, "post": e.dumpCat(s.cat)})
		}
	}
	take("catalog")
	take("read-only transaction")
	e.coll("d.c1").Indexes().CreateOne(e.Ctx, mongoIndex(d("a", int32(1))))
	recheck()
	take("catalog")
	e.Client.Database("d").CreateCollection(e.Ctx, "fresh")
	recheck()
	e.coll("d.c1").Indexes().DropAll(e.Ctx)
	recheck()
	take("read-only transaction")
	e.coll("d.c1").InsertOne(e.Ctx, d("_id", int32(50)))
	recheck()
	e.coll("d.c1").Drop(e.Ctx)
	recheck()
	return &e
}

// TxnFailureScenario: failing calls inside a session transaction must leave the transaction's
// working catalog as it was (they do not abort the transaction), and what is committed
// afterwards is exactly the effect of the calls that succeeded.
func TxnFailureScenario(e *Env) {
	plainCtx := e.Ctx
	ns := "d.c1"
	e.Do(e.CreateIndex(ns, IndexSpec{Key: d("a", int32(1)), Unique: true, Expire: -1}))
	e.Do(e.InsertMany(ns, []bson.D{d("_id", int32(1), "a", int32(1), "b", int32(1)), d("_id", int32(2), "a", int32(2), "b", "s"), d("_id", int32(3), "a", int32(3), "b", int32(3))}, true))
	e.Client.UseSession(plainCtx, func(sc lungo.ISessionContext) error {
		sess := sc.(lungo.SessionContext).Session
		if err := sc.StartTransaction(); err != nil {
			return err
		}
		working := func() *lungo.Catalog {
			if t := sess.Transaction(); t != nil {
				return t.Catalog()
			}
			return nil
		}
		calls := []Call{
			e.InsertOne(ns, d("_id", int32(4), "a", int32(4))),
			e.FindOneAndDelete(ns, d("_id", int32(1)), nil, d("a", "bad")),
			e.FindOneAndUpdate(ns, d("_id", int32(1)), d("$set", d("b", int32(9))), nil, d("a", int32(1), "b", int32(0)), false, true, nil),
			e.FindOneAndReplace(ns, d("_id", int32(3)), d("a", int32(30)), nil, d("a", d("$slice", "x")), false, false),
			e.Update(ns, true, d(), d("$inc", d("b", int32(1))), false, nil),                  // fails at the second document
			e.Update(ns, true, d(), d("$inc", d("a", int32(1))), false, nil),                  // shifts all keys: allowed
			e.Update(ns, false, d("_id", int32(1)), d("$set", d("a", int32(3))), false, nil),   // duplicate
			e.InsertMany(ns, []bson.D{d("_id", int32(5), "a", int32(50)), d("_id", int32(5), "a", int32(51)), d("_id", int32(6), "a", int32(52))}, false),
			e.BulkWrite(ns, []Model{{Kind: "insert", Doc: d("_id", int32(7), "a", int32(70))}, {Kind: "update", Q: d(), Doc: d("$set", d("a", int32(70))), Many: true},
				{Kind: "delete", Q: d("_id", int32(2))}}, true),
			e.ReplaceOne(ns, d("_id", int32(3)), d("_id", int32(9), "a", int32(1)), false),
			e.Delete(ns, true, d("a", d("$foo", int32(1)))),
			e.Find(ns, d(), d("_id", int32(1)), nil, 0, 0),
		}
		for _, c := range calls {
			e.View, e.Ctx, e.Actor = working, sc, "session"
			e.Do(c)
			e.View, e.Ctx, e.Actor = nil, plainCtx, ""
		}
		wpre := e.dumpCat(working())
		cpre := e.dumpCat(e.Engine.Catalog())
		err := sc.CommitTransaction(sc)
		e.Step++
		e.Trace.Write(V{"fn": "txn", "hist": e.Hist, "step": e.Step, "what": "commit", "err": err != nil, "storefail": false, "cpre": cpre, "cpost": e.dumpCat(e.Engine.Catalog()), "wpre": wpre, "wpost": wpre})
		return nil
	})
	e.Do(e.Find(ns, d(), d("_id", int32(1)), nil, 0, 0))
}

// ParkedWriterScenario: plain writers that queue for the writer slot while a session transaction is open must,
// once the transaction has committed (or aborted), work on the state it published: nothing the transaction
// committed may be lost and the writer must see it.  Several rounds; the parked call completes only after the
// session has ended its transaction, whatever the scheduling.
func ParkedWriterScenario(e *Env) {
	plainCtx := e.Ctx
	ns := "d.c1"
	e.Do(e.InsertMany(ns, []bson.D{d("_id", int32(1), "n", int32(0)), d("_id", int32(2), "n", int32(0))}, true))
	o := NewObsCache(e)
	for round := 0; round < 6; round++ {
		commit := round%3 != 2
		parked := []Call{
			e.Update(ns, true, d(), d("$inc", d("n", int32(10))), false, nil),
			e.InsertOne(ns, d("_id", int32(100+round), "n", int32(-1))),
			e.Delete(ns, false, d("_id", int32(50+round))),
			e.FindOneAndUpdate(ns, d("_id", int32(50+round)), d("$set", d("seen", true)), nil, nil, false, true, nil),
			e.Update(ns, false, d("_id", int32(1)), d("$inc", d("n", int32(1))), false, nil),
			e.ReplaceOne(ns, d("_id", int32(2)), d("n", int32(round)), false),
		}[round]
		e.Client.UseSession(plainCtx, func(sc lungo.ISessionContext) error {
			sess := sc.(lungo.SessionContext).Session
			if err := sc.StartTransaction(); err != nil {
				return err
			}
			for _, c := range []Call{e.Update(ns, false, d("_id", int32(1)), d("$inc", d("n", int32(1))), false, nil), e.InsertOne(ns, d("_id", int32(50+round), "n", int32(round)))} {
				e.View, e.Ctx, e.Actor = func() *lungo.Catalog { return sess.Transaction().Catalog() }, sc, "session"
				e.Do(c)
				e.View, e.Ctx, e.Actor = nil, plainCtx, ""
			}
			before := e.Engine.Catalog()
			work := sess.Transaction().Catalog()
			done := make(chan V, 1)
			pe := *e // the parked call runs on its own copy of the environment (no trace, plain context)
			pe.Trace, pe.View, pe.Ctx, pe.Actor = nil, nil, plainCtx, "parked"
			go func() { done <- pe.RunOnly(parked) }()
			time.Sleep(60 * time.Millisecond) // let it queue for the writer slot
			var err error
			if commit {
				err = sc.CommitTransaction(sc)
			} else {
				err = sc.AbortTransaction(sc)
			}
			var res V
			select {
			case res = <-done:
			case <-time.After(20 * time.Second):
				e.finding("txn-result", "a writer queued behind a session transaction never completed after the transaction ended", V{"op": parked.Op})
				return nil
			}
			if err != nil || res == nil {
				return nil
			}
			mid := before
			if commit {
				mid = work // what the commit published
			}
			e.EmitCall(o, parked, res, mid, e.Engine.Catalog(), "parked", V{"parked": true})
			return nil
		})
	}
	e.Do(e.Find(ns, d(), d("_id", int32(1)), nil, 0, 0))
}

// SnapshotExpiry: snapshots taken before a TTL pass (a read-only transaction, the published catalog) keep their
// contents when the pass removes documents, and a pass with nothing to remove leaves them alone as well.
func SnapshotExpiry(e *Env) {
	ns := "d.c1"
	now := time.Now()
	dt := func(t time.Time) primitive.DateTime { return primitive.NewDateTimeFromTime(t) }
	e.Do(e.CreateIndex(ns, IndexSpec{Key: d("c", int32(1)), Expire: 3600}))
	e.Do(e.CreateIndex("d.c2", IndexSpec{Key: d("c", int32(1)), Expire: 0}))
	docs := []bson.D{d("_id", int32(1), "c", dt(now.Add(-48*time.Hour))), d("_id", int32(2), "c", dt(now.Add(time.Hour))), d("_id", int32(3), "c", "x"), d("_id", int32(4), "c", dt(now.Add(-2*time.Hour))),
		d("_id", int32(5)), d("_id", int32(6), "c", bson.A{dt(now.Add(-3 * time.Hour))})}
	e.Do(e.InsertMany(ns, docs, true))
	e.Do(e.InsertMany("d.c2", docs, true))
	e.Do(e.InsertMany("d.c3", docs, true))
	txn, err := e.Engine.Begin(e.Ctx, false)
	if err != nil {
		return
	}
	snap := txn.Catalog()
	dump := e.dumpCat(snap)
	for pass := 0; pass < 2; pass++ {
		e.ExpirePass()
		e.Step++
		e.Trace.Write(V{"fn": "snapcheck", "hist": e.Hist, "step": e.Step, "id": 1, "kind": "read-only transaction across a TTL pass", "pre": dump, "post": e.dumpCat(snap)})
	}
	e.Do(e.Find(ns, d(), d("_id", int32(1)), nil, 0, 0))
}
