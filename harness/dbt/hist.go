package dbt

import (
	"go.mongodb.org/mongo-driver/bson"
	"go.mongodb.org/mongo-driver/bson/primitive"
)

// Pools of the history generator: small and collision-rich.

// Namespaces used by histories.
var Namespaces = []string{"d.c1", "d.c1", "d.c1", "d.c2", "e.c1"}

func (e *Env) pickNS() string { return Namespaces[e.G.N(len(Namespaces))] }

// ID returns an _id; int32/int64/double of equal value collide.
func (e *Env) ID() interface{} {
	g := e.G
	switch g.N(14) {
	case 0:
		return int64(1 + g.N(3))
	case 1:
		return float64(1 + g.N(3))
	case 2:
		return g.PickS("a", "b")
	case 3:
		return bson.D{{Key: "k", Value: int32(1 + g.N(2))}}
	default:
		return int32(1 + g.N(7))
	}
}

var aVals = []interface{}{int32(1), int64(1), int32(2), float64(2), int32(3), "x", "y", nil, bson.A{int32(1), int32(2)}, bson.A{int32(2), int32(3)}, bson.A{},
	bson.D{{Key: "b", Value: int32(1)}}, bson.A{bson.D{{Key: "b", Value: int32(1)}}, bson.D{{Key: "b", Value: int32(2)}}}, int32(4), int32(5), int32(6)}
var bVals = []interface{}{int32(0), int32(1), int32(2), int32(-1), "s", int64(2), float64(1.5), int32(3)}
var cVals = []interface{}{primitive.DateTime(1000), primitive.DateTime(4102444800000), int32(5), bson.A{primitive.DateTime(1000), int32(1)}}

// Doc returns a document for insertion / replacement.
func (e *Env) Doc(withID bool) bson.D {
	g := e.G
	d := bson.D{}
	if withID {
		d = append(d, bson.E{Key: "_id", Value: e.ID()})
	}
	if g.P(85) {
		d = append(d, bson.E{Key: "a", Value: aVals[g.N(len(aVals))]})
	}
	if g.P(60) {
		d = append(d, bson.E{Key: "b", Value: bVals[g.N(len(bVals))]})
	}
	if g.P(25) {
		d = append(d, bson.E{Key: "c", Value: cVals[g.N(len(cVals))]})
	}
	return d
}

// FilterArg returns a filter; sometimes ill-formed.
func (e *Env) FilterArg() bson.D {
	g := e.G
	switch r := g.N(20); {
	case r < 3:
		return bson.D{}
	case r < 7:
		return bson.D{{Key: "_id", Value: e.ID()}}
	case r < 9:
		return bson.D{{Key: "a", Value: aVals[g.N(len(aVals))]}}
	case r < 11:
		return bson.D{{Key: g.PickS("a", "b"), Value: bson.D{{Key: g.PickS("$gt", "$gte", "$lt", "$lte", "$ne"), Value: g.Pick(int32(0), int32(1), int32(2), float64(1.5), "x")}}}}
	case r < 12:
		return bson.D{{Key: "_id", Value: bson.D{{Key: "$in", Value: bson.A{e.ID(), e.ID(), e.ID()}}}}}
	case r < 13:
		return bson.D{{Key: "$or", Value: bson.A{bson.D{{Key: "a", Value: aVals[g.N(6)]}}, bson.D{{Key: "b", Value: bVals[g.N(4)]}}}}}
	case r < 14:
		return bson.D{{Key: "b", Value: bson.D{{Key: "$exists", Value: g.P(50)}}}}
	case r < 15:
		return bson.D{{Key: "_id", Value: e.ID()}, {Key: "a", Value: aVals[g.N(6)]}}
	case r < 16:
		return bson.D{{Key: "a.b", Value: int32(1 + g.N(2))}}
	case r < 17:
		// ill-formed
		return g.Pick(bson.D{{Key: "a", Value: bson.D{{Key: "$foo", Value: int32(1)}}}}, bson.D{{Key: "$and", Value: int32(1)}},
			bson.D{{Key: "a", Value: bson.D{{Key: "$in", Value: int32(1)}}}}, bson.D{{Key: "$or", Value: bson.A{}}}).(bson.D)
	default:
		return g.Filter(e.Doc(true), 1)
	}
}

func hasCurrentDate(u bson.D) bool {
	for _, x := range u {
		if x.Key == "$currentDate" {
			return true
		}
	}
	return false
}

// UpdateArg returns an update document and array filters.
func (e *Env) UpdateArg() (bson.D, []bson.D) {
	g := e.G
	set := func(k string, v interface{}) bson.D { return bson.D{{Key: "$set", Value: bson.D{{Key: k, Value: v}}}} }
	switch r := g.N(24); {
	case r < 4:
		return set("a", aVals[g.N(len(aVals))]), nil
	case r < 6:
		return set("b", bVals[g.N(len(bVals))]), nil
	case r < 9:
		return bson.D{{Key: "$inc", Value: bson.D{{Key: g.PickS("a", "b", "b"), Value: g.Pick(int32(1), int32(-1), int64(2), float64(0.5), int32(0))}}}}, nil
	case r < 11:
		return bson.D{{Key: "$push", Value: bson.D{{Key: "a", Value: g.Pick(int32(3), int32(1), "x")}}}}, nil
	case r < 12:
		return bson.D{{Key: "$unset", Value: bson.D{{Key: g.PickS("b", "c", "a"), Value: ""}}}}, nil
	case r < 13:
		return set("_id", e.ID()), nil
	case r < 14:
		return bson.D{{Key: "$set", Value: bson.D{{Key: "a", Value: int32(1)}}}, {Key: "$inc", Value: bson.D{{Key: "a", Value: int32(1)}}}}, nil
	case r < 15:
		return bson.D{{Key: "$mul", Value: bson.D{{Key: "b", Value: g.Pick(int32(2), int32(1), float64(1), int64(-1))}}}}, nil
	case r < 16:
		return bson.D{{Key: "$addToSet", Value: bson.D{{Key: "a", Value: g.Pick(int32(2), int64(1), int32(7))}}}}, nil
	case r < 17:
		return bson.D{{Key: "$rename", Value: bson.D{{Key: "b", Value: g.PickS("d", "a", "c")}}}}, nil
	case r < 18:
		return bson.D{{Key: g.PickS("$min", "$max"), Value: bson.D{{Key: g.PickS("a", "b"), Value: g.Pick(int32(2), int64(1), "x", float64(2))}}}}, nil
	case r < 19:
		return bson.D{{Key: "$set", Value: bson.D{{Key: "a.$[x].b", Value: int32(9)}}}}, []bson.D{{{Key: "x.b", Value: bson.D{{Key: "$gte", Value: int32(1 + g.N(2))}}}}}
	case r < 20:
		// ill-formed
		return g.Pick(bson.D{{Key: "$foo", Value: bson.D{{Key: "a", Value: int32(1)}}}}, bson.D{{Key: "a", Value: int32(1)}}, bson.D{},
			bson.D{{Key: "$set", Value: int32(1)}}, bson.D{{Key: "$pop", Value: bson.D{{Key: "a", Value: int32(2)}}}}).(bson.D), nil
	default:
		for tries := 0; tries < 5; tries++ {
			u, afs := g.Update(e.Doc(true))
			if !hasCurrentDate(u) {
				return u, afs
			}
		}
		return set("b", int32(1)), nil
	}
}

// SortArg returns a sort document or nil.
func (e *Env) SortArg() bson.D {
	g := e.G
	if g.P(40) {
		return nil
	}
	s := bson.D{{Key: g.PickS("a", "b", "_id"), Value: g.Pick(int32(1), int32(-1))}}
	if g.P(30) {
		k := g.PickS("b", "_id", "c")
		if k != s[0].Key {
			s = append(s, bson.E{Key: k, Value: g.Pick(int32(1), int32(-1))})
		}
	}
	return s
}

// ProjArg returns a projection or nil.
func (e *Env) ProjArg() bson.D {
	g := e.G
	if g.P(70) {
		return nil
	}
	return g.Pick(bson.D{{Key: "a", Value: int32(1)}}, bson.D{{Key: "b", Value: int32(0)}}, bson.D{{Key: "_id", Value: int32(0)}, {Key: "b", Value: int32(1)}},
		bson.D{{Key: "a", Value: bson.D{{Key: "$slice", Value: int32(1)}}}}, bson.D{{Key: "a", Value: int32(1)}, {Key: "b", Value: int32(0)}},
		bson.D{{Key: "a", Value: bson.D{{Key: "$elemMatch", Value: bson.D{{Key: "$gt", Value: int32(1)}}}}}}, bson.D{{Key: "a", Value: "bad"}}).(bson.D)
}

// Indexes used by histories.
func (e *Env) IndexArg() IndexSpec {
	g := e.G
	switch g.N(12) {
	case 0, 1:
		return IndexSpec{Key: bson.D{{Key: "a", Value: int32(1)}}, Unique: true, Expire: -1}
	case 2:
		return IndexSpec{Key: bson.D{{Key: "b", Value: int32(1)}}, Expire: -1}
	case 3:
		return IndexSpec{Key: bson.D{{Key: "a", Value: int32(1)}, {Key: "b", Value: int32(-1)}}, Unique: true, Expire: -1}
	case 4, 5:
		return IndexSpec{Key: bson.D{{Key: "a", Value: int32(-1)}}, Unique: true, Partial: bson.D{{Key: "b", Value: bson.D{{Key: "$gt", Value: int32(0)}}}}, Name: "pa", Expire: -1}
	case 6:
		return IndexSpec{Key: bson.D{{Key: "c", Value: int32(1)}}, Expire: g.Pick(0, 3600, 10).(int)}
	case 7:
		return IndexSpec{Key: bson.D{{Key: "a", Value: int32(1)}}, Name: "x", Expire: -1}
	case 8:
		return IndexSpec{Key: bson.D{{Key: "b", Value: int32(1)}}, Name: "x", Unique: g.P(50), Expire: -1}
	case 9:
		return IndexSpec{Key: bson.D{{Key: "a.b", Value: int32(1)}}, Unique: true, Expire: -1}
	case 10:
		return IndexSpec{Key: bson.D{{Key: "b", Value: int32(-1)}}, Unique: true, Expire: -1}
	default:
		// ill-formed / conflicting
		return g.Pick(IndexSpec{Key: bson.D{}, Expire: -1}, IndexSpec{Key: bson.D{{Key: "a", Value: int32(2)}}, Expire: -1},
			IndexSpec{Key: bson.D{{Key: "a", Value: int32(1)}, {Key: "c", Value: int32(1)}}, Expire: 5},
			IndexSpec{Key: bson.D{{Key: "a", Value: float64(1)}}, Unique: false, Expire: -1}).(IndexSpec)
	}
}

var indexNames = []string{"a_1", "b_1", "a_1_b_-1", "pa", "c_1", "x", "a.b_1", "b_-1", "_id_", "nope"}

// ModelArg returns one bulk model (documents always carry an _id).
func (e *Env) ModelArg() Model {
	g := e.G
	switch r := g.N(10); {
	case r < 4:
		return Model{Kind: "insert", Doc: e.Doc(true)}
	case r < 6:
		u, afs := e.UpdateArg()
		return Model{Kind: "update", Q: e.FilterArg(), Doc: u, Many: g.P(50), Upsert: g.P(15), Afs: afs}
	case r < 8:
		return Model{Kind: "replace", Q: e.FilterArg(), Doc: e.Doc(g.P(40)), Upsert: false}
	default:
		return Model{Kind: "delete", Q: e.FilterArg(), Many: g.P(40)}
	}
}

// RandomCall returns the next call of a history.
func (e *Env) RandomCall() Call {
	g := e.G
	ns := e.pickNS()
	switch r := g.N(100); {
	case r < 14:
		return e.InsertOne(ns, e.Doc(g.P(92)))
	case r < 20:
		n := 1 + g.N(4)
		docs := make([]bson.D, 0, n)
		for i := 0; i < n; i++ {
			docs = append(docs, e.Doc(true))
		}
		return e.InsertMany(ns, docs, g.P(50))
	case r < 34:
		u, afs := e.UpdateArg()
		if afs == nil && g.P(12) {
			return e.UpdateByID(ns, g.ID(), u)
		}
		return e.Update(ns, g.P(50), e.FilterArg(), u, g.P(15), afs)
	case r < 40:
		return e.ReplaceOne(ns, e.FilterArg(), e.Doc(g.P(50)), g.P(20))
	case r < 47:
		return e.Delete(ns, g.P(40), e.FilterArg())
	case r < 52:
		u, afs := e.UpdateArg()
		return e.FindOneAndUpdate(ns, e.FilterArg(), u, e.SortArg(), e.ProjArg(), g.P(15), g.P(50), afs)
	case r < 55:
		return e.FindOneAndReplace(ns, e.FilterArg(), e.Doc(g.P(50)), e.SortArg(), e.ProjArg(), g.P(20), g.P(50))
	case r < 58:
		return e.FindOneAndDelete(ns, e.FilterArg(), e.SortArg(), e.ProjArg())
	case r < 66:
		n := 1 + g.N(4)
		ms := make([]Model, 0, n)
		upserts := 0
		for i := 0; i < n; i++ {
			m := e.ModelArg()
			if m.Upsert {
				// at most one upsert per bulk: the trace binds one generated _id per call
				if upserts > 0 {
					m.Upsert = false
				}
				upserts++
			}
			ms = append(ms, m)
		}
		return e.BulkWrite(ns, ms, g.P(50))
	case r < 72:
		skip, limit := 0, 0
		if g.P(40) {
			skip = g.N(3)
		}
		if g.P(40) {
			limit = g.N(3)
		}
		return e.Find(ns, e.FilterArg(), e.SortArg(), e.ProjArg(), skip, limit)
	case r < 75:
		return e.Count(ns, e.FilterArg(), g.N(2), g.N(3))
	case r < 76:
		return e.EstimatedCount(ns)
	case r < 79:
		return e.Distinct(ns, g.PickS("a", "b", "a.b", "_id"), e.FilterArg())
	case r < 89:
		if g.P(20) {
			specs := []IndexSpec{e.IndexArg(), e.IndexArg()}
			if g.P(40) {
				specs = append(specs, e.IndexArg())
			}
			return e.CreateIndexes(ns, specs)
		}
		return e.CreateIndex(ns, e.IndexArg())
	case r < 92:
		if g.P(30) {
			if g.P(25) {
				return e.DropIndexByKey(ns, d("_id", int32(1)))
			}
			return e.DropIndexByKey(ns, e.IndexArg().Key)
		}
		return e.DropIndex(ns, indexNames[g.N(len(indexNames))])
	case r < 93:
		return e.DropAllIndexes(ns)
	case r < 94:
		return e.ListIndexes(ns)
	case r < 96:
		return e.DropCollection(ns)
	case r < 97:
		return e.CreateCollection(ns)
	case r < 98:
		return e.DropDatabase(g.PickS("d", "e"))
	default:
		return e.ListCollections(g.PickS("d", "e"))
	}
}
