package dbt

import (
	"encoding/json"
	"fmt"
	"reflect"
	"sort"

	"go.mongodb.org/mongo-driver/bson"

	"verif/harness/enc"
)

// Replay of specification behaviours (spec -> code): every step printed by
// spec/gen/GenDatabase.tla is {pre, op, a, res, post}.  The pre-state is installed in
// a fresh real engine (documents in natural order, then the indexes), the call is
// made through the driver API, and the result and the complete post-state are
// compared with what the specification expects.

func decDoc(x interface{}) (bson.D, error) {
	v, err := enc.Decode(x)
	if err != nil {
		return nil, err
	}
	d, ok := v.(bson.D)
	if !ok {
		return nil, fmt.Errorf("not a document: %T", v)
	}
	return d, nil
}

func normState(st V) V {
	// index order is irrelevant: sort by name; drop listings
	out := V{}
	for ns, c := range st {
		cm := c.(V)
		var idx []V
		for _, i := range cm["idx"].([]interface{}) {
			im := i.(V)
			idx = append(idx, V{"name": im["name"], "key": im["key"], "unique": im["unique"], "partial": im["partial"], "exp": im["exp"]})
		}
		sort.Slice(idx, func(a, b int) bool { return idx[a]["name"].(string) < idx[b]["name"].(string) })
		out[ns] = V{"docs": cm["docs"], "idx": idx}
	}
	return out
}

func roundTrip(v interface{}) interface{} {
	b, _ := json.Marshal(v)
	var o interface{}
	json.Unmarshal(b, &o)
	return o
}

// ReplayStep returns a description of the first difference, or "".
func ReplayStep(e *Env, step map[string]interface{}) string {
	pre := asMap(step["pre"])
	for ns, c := range pre {
		cm := c.(map[string]interface{})
		var docs []bson.D
		for _, d := range asList(cm["docs"]) {
			doc, err := decDoc(d)
			if err != nil {
				return "harness: " + err.Error()
			}
			docs = append(docs, doc)
		}
		e.coll(ns).Database().CreateCollection(e.Ctx, e.coll(ns).Name())
		if len(docs) > 0 {
			l := make([]interface{}, 0, len(docs))
			for _, d := range docs {
				l = append(l, d)
			}
			if _, err := e.coll(ns).InsertMany(e.Ctx, l); err != nil {
				return "harness: could not install the pre-state: " + err.Error()
			}
		}
		for _, i := range asList(cm["idx"]) {
			im := i.(map[string]interface{})
			if im["name"] == "_id_" {
				continue
			}
			key, err := decDoc(im["key"])
			if err != nil {
				return "harness: " + err.Error()
			}
			spec := IndexSpec{Key: key, Name: im["name"].(string), Unique: im["unique"].(bool), Expire: int(im["exp"].(float64))}
			if pm, ok := im["partial"].(map[string]interface{}); ok && pm["t"] != "missing" {
				spec.Partial, _ = decDoc(pm)
			}
			if r := e.RunOnly(e.CreateIndex(ns, spec)); r == nil || r["err"].(bool) {
				return "harness: could not install an index of the pre-state"
			}
		}
	}
	a := asMap(step["a"])
	op := step["op"].(string)
	ns := "d.c1"
	doc := func(k string) bson.D { d, _ := decDoc(a[k]); return d }
	var c Call
	switch op {
	case "insertOne":
		c = e.InsertOne(ns, doc("doc"))
	case "insertMany":
		var ds []bson.D
		for _, x := range asList(a["docs"]) {
			d, _ := decDoc(x)
			ds = append(ds, d)
		}
		c = e.InsertMany(ns, ds, a["ordered"].(bool))
	case "updateOne", "updateMany":
		c = e.Update(ns, op == "updateMany", doc("q"), doc("upd"), a["upsert"].(bool), nil)
	case "replaceOne":
		c = e.ReplaceOne(ns, doc("q"), doc("repl"), a["upsert"].(bool))
	case "deleteOne", "deleteMany":
		c = e.Delete(ns, op == "deleteMany", doc("q"))
	case "createIndex":
		c = e.CreateIndex(ns, IndexSpec{Key: doc("key"), Name: a["name"].(string), Unique: a["unique"].(bool), Expire: int(a["exp"].(float64))})
	case "dropIndex":
		c = e.DropIndex(ns, a["name"].(string))
	case "dropIndexByKey":
		c = e.DropIndexByKey(ns, doc("key"))
	case "createIndexes":
		var specs []IndexSpec
		for _, x := range asList(a["specs"]) {
			m := asMap(x)
			k, _ := decDoc(m["key"])
			specs = append(specs, IndexSpec{Key: k, Name: m["name"].(string), Unique: m["unique"].(bool), Expire: int(m["exp"].(float64))})
		}
		c = e.CreateIndexes(ns, specs)
	case "findOneAndUpdate":
		c = e.FindOneAndUpdate(ns, doc("q"), doc("upd"), nil, nil, a["upsert"].(bool), a["after"].(bool), nil)
	case "drop":
		c = e.DropCollection(ns)
	default:
		return "harness: unknown op " + op
	}
	_, evsBefore, _ := e.Obs(nil)
	res := e.RunOnly(c)
	if res == nil {
		return "the call panicked"
	}
	want, _ := step["res"].(map[string]interface{})
	if res["err"].(bool) != want["err"].(bool) {
		return fmt.Sprintf("the call %s (%v) but the specification expects %s", outcome(res["err"].(bool)), res["msg"], outcome(want["err"].(bool)))
	}
	if !res["err"].(bool) || op == "insertMany" {
		for _, k := range []string{"n", "ids", "names", "docs"} {
			if (op == "createIndex" || op == "createIndexes") && k != "names" {
				continue
			}
			if (k == "docs") != (op == "findOneAndUpdate") {
				continue // find-and-modify is judged by the returned image, the other calls by counts / ids / names
			}
			if !reflect.DeepEqual(roundTrip(res[k]), roundTrip(want[k])) {
				return fmt.Sprintf("result field %s is %v, the specification expects %v", k, roundTrip(res[k]), roundTrip(want[k]))
			}
		}
	}
	post, evsAfter, _ := e.Obs(nil)
	wantPost := V{}
	for k, v := range asMap(step["post"]) {
		wantPost[k] = v
	}
	if !reflect.DeepEqual(roundTrip(normState(post)), roundTrip(normState(wantPost))) {
		return fmt.Sprintf("the state after the call differs from the specification's: got %v", roundTrip(normState(post)))
	}
	if n := len(evsAfter) - len(evsBefore); n != int(step["ev"].(float64)) {
		return fmt.Sprintf("the call logged %d change events, the specification expects %d", n, int(step["ev"].(float64)))
	}
	return ""
}

func outcome(err bool) string {
	if err {
		return "failed"
	}
	return "succeeded"
}

// asMap: TLC prints an empty function as [] rather than {}
func asMap(x interface{}) map[string]interface{} {
	if m, ok := x.(map[string]interface{}); ok {
		return m
	}
	return map[string]interface{}{}
}

func asList(x interface{}) []interface{} {
	if l, ok := x.([]interface{}); ok {
		return l
	}
	return nil
}
