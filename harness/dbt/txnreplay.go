package dbt

import (
	"context"
	"fmt"

	"go.mongodb.org/mongo-driver/bson"

	"github.com/256dpi/lungo"
)

// TxnStep is one step of a behaviour of Txn.tla (spec/gen/GenTxn.tla): the action and the abstract state after it.
type TxnStep struct {
	A         string `json:"a"`
	Cat       int    `json:"cat"`
	Work      int    `json:"work"`
	Snaps     []int  `json:"snaps"`
	SeenPlain int    `json:"seenPlain"`
	SeenSess  int    `json:"seenSess"`
	Next      int    `json:"next"`
}

// ReplayTxnPath replays one behaviour on a fresh real engine.  Versions are the values of the counter document
// {_id: 1, v: n}; the session, the plain client, the rejecting store and the snapshots are real.  It returns a
// description of the first difference between the abstract state and what the real code shows, or "".
func ReplayTxnPath(path []TxnStep) (diff string) {
	defer func() {
		if r := recover(); r != nil {
			diff = fmt.Sprintf("the real code panics: %v", r)
		}
	}()
	ctx := context.Background()
	store := &FlakyStore{Inner: lungo.NewMemoryStore()}
	client, engine, err := lungo.Open(ctx, lungo.Options{Store: store})
	if err != nil {
		return "open: " + err.Error()
	}
	defer engine.Close()
	coll := client.Database("d").Collection("v")
	if _, err := coll.InsertOne(ctx, bson.D{{Key: "_id", Value: int32(1)}, {Key: "v", Value: int32(0)}}); err != nil {
		return "setup: " + err.Error()
	}
	readV := func(c context.Context) (int, error) {
		var doc struct {
			V int32 `bson:"v"`
		}
		err := coll.FindOne(c, bson.D{{Key: "_id", Value: int32(1)}}).Decode(&doc)
		return int(doc.V), err
	}
	catV := func(cat *lungo.Catalog) int {
		ns := cat.Namespaces[lungo.Handle{"d", "v"}]
		if ns == nil || len(ns.Documents.List) != 1 {
			return -99
		}
		for _, e := range *ns.Documents.List[0] {
			if e.Key == "v" {
				return int(e.Value.(int32))
			}
		}
		return -98
	}
	write := func(c context.Context, v int) error {
		_, err := coll.UpdateOne(c, bson.D{{Key: "_id", Value: int32(1)}}, bson.D{{Key: "$set", Value: bson.D{{Key: "v", Value: int32(v)}}}})
		return err
	}
	sessI, err := client.StartSession()
	if err != nil {
		return "session: " + err.Error()
	}
	sess := sessI.(*lungo.Session)
	defer sess.EndSession(ctx)
	sctx := lungo.VerifSessionContext(ctx, sess)
	var snaps []*lungo.Catalog
	prevNext := 1
	for i, st := range path {
		where := fmt.Sprintf("step %d (%s)", i+1, st.A)
		switch st.A {
		case "Start":
			if err := sess.StartTransaction(); err != nil {
				return where + ": StartTransaction fails: " + err.Error()
			}
		case "SessWrite":
			if err := write(sctx, prevNext); err != nil {
				return where + ": the write inside the transaction fails: " + err.Error()
			}
		case "SessNoop":
			if _, err := coll.UpdateOne(sctx, bson.D{{Key: "_id", Value: int32(77)}}, bson.D{{Key: "$set", Value: bson.D{{Key: "v", Value: int32(-5)}}}}); err != nil {
				return where + ": an update that matches nothing fails inside the transaction: " + err.Error()
			}
		case "SessRead":
			v, err := readV(sctx)
			if err != nil || v != st.SeenSess {
				return fmt.Sprintf("%s: the session reads version %d (err %v), the model says %d", where, v, err, st.SeenSess)
			}
		case "CommitOK":
			if err := sess.CommitTransaction(ctx); err != nil {
				return where + ": CommitTransaction fails: " + err.Error()
			}
		case "CommitFail":
			dirty := sess.Transaction() != nil && sess.Transaction().Dirty()
			store.FailNext = true
			err := sess.CommitTransaction(ctx)
			asked := !store.FailNext
			store.FailNext = false
			if dirty && (err == nil || !asked) {
				return where + ": the store rejects the catalog but CommitTransaction reports success"
			}
			if !dirty && err != nil {
				return where + ": a transaction without changes fails to commit: " + err.Error()
			}
		case "Abort":
			if err := sess.AbortTransaction(ctx); err != nil {
				return where + ": AbortTransaction fails: " + err.Error()
			}
		case "PlainRead":
			v, err := readV(ctx)
			if err != nil || v != st.SeenPlain {
				return fmt.Sprintf("%s: the plain client reads version %d (err %v), the model says %d", where, v, err, st.SeenPlain)
			}
		case "PlainWrite":
			if err := write(ctx, prevNext); err != nil {
				return where + ": the plain write fails: " + err.Error()
			}
		case "TakeSnapshot":
			txn, err := engine.Begin(ctx, false)
			if err != nil {
				return where + ": Begin(read-only) fails: " + err.Error()
			}
			snaps = append(snaps, txn.Catalog())
		default:
			return "unknown action " + st.A
		}
		prevNext = st.Next
		// the abstract state after the step
		if got := catV(engine.Catalog()); got != st.Cat {
			return fmt.Sprintf("%s: the committed version is %d, the model says %d", where, got, st.Cat)
		}
		t := sess.Transaction()
		if (t != nil) != (st.Work != -1) {
			return fmt.Sprintf("%s: the session has an open transaction: %v, the model says %v", where, t != nil, st.Work != -1)
		}
		if t != nil {
			if got := catV(t.Catalog()); got != st.Work {
				return fmt.Sprintf("%s: the working copy holds version %d, the model says %d", where, got, st.Work)
			}
		}
		if len(snaps) != len(st.Snaps) {
			return where + ": number of snapshots differs (harness)"
		}
		for k, s := range snaps {
			if got := catV(s); got != st.Snaps[k] {
				return fmt.Sprintf("%s: snapshot %d now shows version %d, it was taken at version %d", where, k+1, got, st.Snaps[k])
			}
		}
	}
	return ""
}
