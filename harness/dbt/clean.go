package dbt

import (
	"fmt"
	"context"
	"time"

	"go.mongodb.org/mongo-driver/bson"
	"go.mongodb.org/mongo-driver/bson/primitive"

	"github.com/256dpi/lungo"
	"github.com/256dpi/lungo/bsonkit"

	"verif/harness/util"
)

// CleanGrid calls the real Transaction.Clean for every configuration of the
// retention grid: change logs of 0..6 events with ages from {5, 50, 500} s
// (never increasing towards newer events), minSize/maxSize in 0..4, minAge in
// {0, 10, 100} s, maxAge in {10, 100, 1000} s.  Ages keep a margin of at least 5 s
// from every cutoff, so the second granularity of timestamps cannot flip a verdict.
func CleanGrid(trace *util.NDJSON) int {
	agesPool := []int{500, 50, 5}
	var seqs [][]int
	var rec func(prefix []int, from, n int)
	rec = func(prefix []int, from, n int) {
		if n == 0 {
			seqs = append(seqs, append([]int{}, prefix...))
			return
		}
		for i := from; i < len(agesPool); i++ {
			rec(append(prefix, agesPool[i]), i, n-1)
		}
	}
	for n := 0; n <= 6; n++ {
		rec(nil, 0, n)
	}
	cases := 0
	for _, ages := range seqs {
		for minSize := 0; minSize <= 4; minSize++ {
			for maxSize := 0; maxSize <= 4; maxSize++ {
				for _, minAge := range []int{0, 10, 100} {
					for _, maxAge := range []int{10, 100, 1000} {
						cat := lungo.NewCatalog()
						now := bsonkit.Now()
						var ids []primitive.Timestamp
						for i, a := range ages {
							ts := primitive.Timestamp{T: now.T - uint32(a), I: uint32(i + 1)}
							ids = append(ids, ts)
							doc := bson.D{{Key: "_id", Value: bson.D{{Key: "ts", Value: ts}}}, {Key: "operationType", Value: "insert"}}
							if _, err := cat.Namespaces[lungo.Oplog].Insert(&doc); err != nil {
								util.Die("oplog insert: %v", err)
							}
						}
						txn := lungo.NewTransaction(cat)
						panicked := func() (p bool) {
							defer func() {
								if recover() != nil {
									p = true
								}
							}()
							txn.Clean(minSize, maxSize, time.Duration(minAge)*time.Second, time.Duration(maxAge)*time.Second)
							return false
						}()
						left := txn.Catalog().Namespaces[lungo.Oplog].Documents.List
						dropped := len(ages) - len(left)
						prefix := dropped >= 0 && !panicked // a Clean that panics is recorded as "not a removal of the oldest events"
						for i, doc := range left {
							if !prefix {
								break
							}
							id, _ := bsonkit.Get(doc, "_id.ts").(primitive.Timestamp)
							if id != ids[dropped+i] {
								prefix = false
							}
						}
						// the committed catalog's log must not have been touched (Clean works on a clone)
						if len(cat.Namespaces[lungo.Oplog].Documents.List) != len(ages) {
							prefix = false
						}
						al := make([]interface{}, 0, len(ages))
						for _, a := range ages {
							al = append(al, a)
						}
						trace.Write(V{"fn": "clean", "len": len(ages), "ages": al, "minSize": minSize, "maxSize": maxSize, "minAge": minAge, "maxAge": maxAge,
							"dropped": dropped, "prefix": prefix, "dirty": txn.Dirty()})
						cases++
					}
				}
			}
		}
	}
	return cases
}

// Retain runs a real engine with small retention limits (min 2 / max 4 events,
// min age 1 s, max age 1 h): six commits, a pause of 2.2 s, three more commits.
// After every commit the removal observed in the engine's change log is recorded as
// a "clean" event (ages in whole seconds relative to the newest event).
func Retain(trace *util.NDJSON) int {
	ctx := contextBackground()
	client, engine, err := lungo.Open(ctx, lungo.Options{Store: lungo.NewMemoryStore(), MinOplogSize: 2, MaxOplogSize: 4, MinOplogAge: time.Second, MaxOplogAge: time.Hour})
	if err != nil {
		util.Die("open: %v", err)
	}
	wedged := false // a panic inside a commit may leave the engine's locks held: do not wait for Close then
	defer func() {
		if !wedged {
			engine.Close()
		}
	}()
	coll := client.Database("d").Collection("r")
	tsOf := func() []primitive.Timestamp {
		var out []primitive.Timestamp
		for _, doc := range engine.Catalog().Namespaces[lungo.Oplog].Documents.List {
			t, _ := bsonkit.Get(doc, "_id.ts").(primitive.Timestamp)
			out = append(out, t)
		}
		return out
	}
	n := 0
	for i := 0; i < 9; i++ {
		if i == 6 {
			time.Sleep(2200 * time.Millisecond)
		}
		before := tsOf()
		var werr error
		func() {
			defer func() {
				if r := recover(); r != nil {
					werr = fmt.Errorf("panic: %v", r)
					wedged = true
				}
			}()
			if i%3 == 2 {
				_, werr = coll.UpdateMany(ctx, bson.D{}, bson.D{{Key: "$inc", Value: bson.D{{Key: "n", Value: int32(1)}}}}) // several events in one commit
			} else {
				_, werr = coll.InsertOne(ctx, bson.D{{Key: "_id", Value: int32(i)}})
			}
		}()
		if werr != nil {
			// a valid write is refused while the engine trims its change log: recorded as a removal that is not a prefix
			trace.Write(V{"fn": "clean", "len": len(before) + 1, "ages": []interface{}{}, "minSize": 2, "maxSize": 4, "minAge": 1, "maxAge": 3600,
				"dropped": -1, "prefix": false, "dirty": true, "err": werr.Error()})
			n++
			break
		}
		after := tsOf()
		if len(after) == 0 {
			continue
		}
		newest := after[len(after)-1]
		// the log before cleaning = before ++ new events; new events are those of `after` newer than the last of `before`
		var fresh []primitive.Timestamp
		for _, t := range after {
			if len(before) == 0 || t.T > before[len(before)-1].T || (t.T == before[len(before)-1].T && t.I > before[len(before)-1].I) {
				fresh = append(fresh, t)
			}
		}
		full := append(append([]primitive.Timestamp{}, before...), fresh...)
		dropped := len(full) - len(after)
		prefix := dropped >= 0
		for j := range after {
			if prefix && after[j] != full[dropped+j] {
				prefix = false
			}
		}
		ages := make([]interface{}, 0, len(full))
		for _, t := range full {
			ages = append(ages, int(newest.T-t.T))
		}
		trace.Write(V{"fn": "clean", "len": len(full), "ages": ages, "minSize": 2, "maxSize": 4, "minAge": 1, "maxAge": 3600, "dropped": dropped, "prefix": prefix, "dirty": true, "engine": true})
		n++
	}
	return n
}

func contextBackground() context.Context { return context.Background() }
