package dbt

import (
	"bytes"
	"encoding/hex"
	"math"
	"os"
	"path/filepath"
	"time"

	"go.mongodb.org/mongo-driver/bson"
	"go.mongodb.org/mongo-driver/bson/primitive"

	"github.com/256dpi/lungo"

	"verif/harness/util"
)

// tokens renders every document of every namespace (the change log included) as
// its BSON bytes: the opaque canonical token of C06 (type + exact bits).
func (e *Env) tokens() V {
	out := V{}
	for h, ns := range e.Engine.Catalog().Namespaces {
		l := []interface{}{}
		for _, doc := range ns.Documents.List {
			raw, err := bson.Marshal(*doc)
			if err != nil {
				l = append(l, "marshal-error:"+err.Error())
			} else {
				l = append(l, hex.EncodeToString(raw))
			}
		}
		out[h[0]+"/"+h[1]] = l // database and collection kept apart: "d" + "fs.files" is not "d.fs" + "files"
	}
	return out
}

// Reopen closes the engine and opens a new one on the same file; the state before
// and after is recorded as a "reload" event.
func (e *Env) Reopen() bool {
	pre, evsBefore, _ := e.Obs(nil)
	pretok := e.tokens()
	e.Engine.Close()
	client, engine, err := lungo.Open(e.Ctx, lungo.Options{Store: lungo.NewFileStore(e.Path, 0666)})
	e.Step++
	if err != nil {
		e.Trace.Write(V{"fn": "reload", "hist": e.Hist, "step": e.Step, "pre": pre, "post": V{}, "pretok": pretok, "posttok": V{}, "preev": evsBefore, "postev": []interface{}{},
			"ts": []interface{}{}, "err": true, "msg": err.Error()})
		// continue on a fresh engine so that Close works
		os.Remove(e.Path)
		client, engine, err = lungo.Open(e.Ctx, lungo.Options{Store: lungo.NewFileStore(e.Path, 0666)})
		if err != nil {
			util.Die("reopen after failed reload: %v", err)
		}
		e.Client, e.Engine = client, engine
		return false
	}
	e.Client, e.Engine = client, engine
	if e.Hist%2 == 1 {
		// the leftover of a write that was interrupted earlier: the next commit has to cope with it
		_ = os.WriteFile(e.Path+".tmp", bytes.Repeat([]byte{0xAB}, 1<<20), 0666)
	}
	post, evsAfter, ts := e.Obs(nil)
	e.Trace.Write(V{"fn": "reload", "hist": e.Hist, "step": e.Step, "pre": pre, "post": post, "pretok": pretok, "posttok": e.tokens(), "preev": evsBefore, "postev": evsAfter,
		"ts": ts, "err": false, "msg": ""})
	return true
}

// OpenFile creates an engine on a file store in dir.
func OpenFile(base *Env, dir string, n int) *Env {
	path := filepath.Join(dir, "db-"+itoa(n)+".bson")
	client, engine, err := lungo.Open(base.Ctx, lungo.Options{Store: lungo.NewFileStore(path, 0666)})
	if err != nil {
		util.Die("open file store: %v", err)
	}
	e := *base
	e.Client, e.Engine, e.Path = client, engine, path
	e.Findings = nil
	return &e
}

func itoa(n int) string {
	if n == 0 {
		return "0"
	}
	s := ""
	for n > 0 {
		s = string(rune('0'+n%10)) + s
		n /= 10
	}
	return s
}

func dec128(s string) primitive.Decimal128 {
	v, err := primitive.ParseDecimal128(s)
	if err != nil {
		panic(err)
	}
	return v
}

// TypedPool is the value pool of the fidelity scenario: every supported type at its edges.
func TypedPool() []interface{} {
	return []interface{}{
		int32(0), int32(1), int32(math.MaxInt32), int32(math.MinInt32), int64(0), int64(1), int64(math.MaxInt64), int64(math.MinInt64), int64(1 << 53),
		float64(0), math.Copysign(0, -1), float64(1), float64(1.5), math.NaN(), math.Inf(1), math.Inf(-1), math.MaxFloat64, math.SmallestNonzeroFloat64, float64(1 << 53), 0.1,
		dec128("0"), dec128("-0"), dec128("1"), dec128("1.0"), dec128("1.00"), dec128("NaN"), dec128("Infinity"), dec128("-Infinity"), dec128("9.999999999999999999999999999999999E+6144"),
		dec128("1E-6176"), dec128("0.1"), "", "a", "é中", "a.b", "$x", nil, true, false,
		primitive.ObjectID{}, primitive.ObjectID{1, 2, 3, 4, 5, 6, 7, 8, 9, 10, 11, 12},
		primitive.DateTime(0), primitive.DateTime(-1), primitive.DateTime(math.MaxInt64), primitive.DateTime(math.MinInt64), primitive.DateTime(1700000000000),
		primitive.Timestamp{T: 0, I: 0}, primitive.Timestamp{T: math.MaxInt32, I: math.MaxInt32}, primitive.Timestamp{T: 5, I: 7},
		primitive.Binary{Subtype: 0, Data: []byte{}}, primitive.Binary{Subtype: 0, Data: []byte{0, 255}}, primitive.Binary{Subtype: 2, Data: []byte{1}}, primitive.Binary{Subtype: 4, Data: make([]byte, 16)},
		primitive.Binary{Subtype: 128, Data: []byte{9}}, primitive.Regex{Pattern: "", Options: ""}, primitive.Regex{Pattern: "^a.*$", Options: "imx"},
		bson.A{}, bson.D{}, bson.A{bson.A{}, bson.D{}, nil}, bson.D{{Key: "", Value: int32(1)}}, bson.D{{Key: "a", Value: bson.D{{Key: "b", Value: bson.A{int32(1), int64(1), float64(1), dec128("1")}}}}},
		bson.A{int32(1), "x", nil, bson.D{{Key: "k", Value: bson.A{}}}},
	}
}

// FidelityScenario inserts the typed pool (as field values, array elements, embedded values and
// _id where allowed) with several index configurations, reopens, and continues writing.
func FidelityScenario(e *Env) {
	ns := "d.typed"
	e.Do(e.CreateIndex(ns, IndexSpec{Key: d("v", int32(1)), Expire: -1}))
	e.Do(e.CreateIndex(ns, IndexSpec{Key: d("u", int32(-1), "v", int32(1)), Unique: true, Partial: d("u", d("$exists", true)), Name: "pu", Expire: -1}))
	e.Do(e.CreateIndex(ns, IndexSpec{Key: d("t", int32(1)), Expire: 0}))
	e.Do(e.CreateIndex(ns, IndexSpec{Key: d("s", int32(1)), Expire: 3600}))
	e.Do(e.CreateIndex("d.other", IndexSpec{Key: d("a.b", int32(1)), Unique: true, Expire: -1}))
	for i, v := range TypedPool() {
		doc := d("_id", int32(i), "v", v, "w", bson.A{v, v}, "x", d("y", v))
		if i%4 == 0 {
			doc = append(doc, bson.E{Key: "u", Value: int32(i)})
		}
		e.Do(e.InsertOne(ns, doc))
		switch v.(type) {
		case bson.A, primitive.Regex, nil:
		default:
			e.Do(e.InsertOne("d.ids", d("_id", v, "n", int32(i))))
		}
	}
	e.Do(e.InsertOne("d.other", d("_id", int32(1), "a", d("b", int32(1)))))
	// collection names with dots (GridFS style), next to a database whose name is a prefix of them
	e.Do(e.CreateIndex("d.fs.files", IndexSpec{Key: d("filename", int32(1)), Unique: true, Expire: -1}))
	e.Do(e.InsertMany("d.fs.files", []bson.D{d("_id", int32(1), "filename", "a"), d("_id", int32(2), "filename", "b")}, true))
	e.Do(e.InsertOne("d.fs.chunks", d("_id", int32(1), "n", int32(0))))
	e.Do(e.InsertOne("d.m.2024.q1", d("_id", int32(1))))
	e.Do(e.InsertOne("d.fs", d("_id", int32(1))))
	// arrays emptied by every operator that can empty one: they are arrays again after the reload
	e.Do(e.InsertMany("d.arrays", []bson.D{d("_id", int32(1), "t", bson.A{int32(1), int32(1)}), d("_id", int32(2), "t", bson.A{int32(1)}), d("_id", int32(3), "t", bson.A{int32(1), int32(2)}),
		d("_id", int32(4), "t", bson.A{int32(7)}), d("_id", int32(5), "t", bson.A{int32(7)}), d("_id", int32(6), "t", bson.A{d("k", int32(1))}), d("_id", int32(7), "n", d("t", bson.A{int32(1)}))}, true))
	e.Do(e.Update("d.arrays", false, d("_id", int32(1)), d("$pull", d("t", int32(1))), false, nil))
	e.Do(e.Update("d.arrays", false, d("_id", int32(2)), d("$pop", d("t", int32(1))), false, nil))
	e.Do(e.Update("d.arrays", false, d("_id", int32(3)), d("$pullAll", d("t", bson.A{int32(1), int32(2)})), false, nil))
	e.Do(e.Update("d.arrays", false, d("_id", int32(4)), d("$push", d("t", d("$each", bson.A{}, "$slice", int32(0)))), false, nil))
	e.Do(e.Update("d.arrays", false, d("_id", int32(5)), d("$set", d("t", bson.A{})), false, nil))
	e.Do(e.Update("d.arrays", false, d("_id", int32(6)), d("$pull", d("t", d("k", d("$gte", int32(0))))), false, nil))
	e.Do(e.Update("d.arrays", false, d("_id", int32(7)), d("$pull", d("n.t", d("$in", bson.A{int32(1)}))), false, nil))
	e.Do(e.Update("d.arrays", false, d("_id", int32(8)), d("$addToSet", d("t", d("$each", bson.A{}))), true, nil))
	e.Do(e.Update(ns, true, d("_id", d("$lt", int32(5))), d("$set", d("z", int32(1))), false, nil))
	e.Do(e.Delete(ns, false, d("_id", int32(3))))
	e.Reopen()
	// constraints must still be enforced and the natural order kept
	e.Do(e.InsertOne(ns, d("_id", int32(0))))
	e.Do(e.InsertOne(ns, d("_id", int32(1000), "u", int32(4), "v", dec128("1.00"))))
	e.Do(e.InsertOne(ns, d("_id", int32(1001), "u", int32(4), "v", int32(1))))
	e.Do(e.InsertOne("d.other", d("_id", int32(2), "a", d("b", int64(1)))))
	e.Do(e.Update("d.arrays", true, d(), d("$push", d("t", int32(9))), false, nil))
	e.Do(e.Find("d.arrays", d("t", d("$size", int32(1))), d("_id", int32(1)), nil, 0, 0))
	e.Do(e.InsertOne("d.fs.files", d("_id", int32(3), "filename", "a")))
	e.Do(e.Find("d.fs.files", d(), d("_id", int32(1)), nil, 0, 0))
	e.Do(e.Count("d.m.2024.q1", d(), 0, 0))
	e.Do(e.CreateIndex(ns, IndexSpec{Key: d("v", int32(1)), Expire: -1}))
	e.Do(e.CreateIndex(ns, IndexSpec{Key: d("t", int32(1)), Expire: 5}))
	e.Do(e.Find(ns, d(), d("v", int32(1)), nil, 0, 5))
	e.Do(e.Update(ns, true, d(), d("$set", d("q", int32(1))), false, nil))
	e.Reopen()
	e.Do(e.Delete(ns, true, d("u", d("$exists", true))))
	e.Do(e.DropIndex(ns, "pu"))
	e.Do(e.DropCollection("d.ids"))
	e.Reopen()
	e.Reopen()
	e.Do(e.Count(ns, d(), 0, 0))
}

// RetainReload: a file-backed engine with small change-log limits whose last commit before
// closing trims the log; the reopened engine must hold the same (trimmed) log.
func RetainReload(base *Env, dir string) *Env {
	path := filepath.Join(dir, "db-retain.bson")
	opts := func() lungo.Options {
		return lungo.Options{Store: lungo.NewFileStore(path, 0666), MinOplogSize: 2, MaxOplogSize: 4, MinOplogAge: time.Second, MaxOplogAge: time.Hour}
	}
	client, engine, err := lungo.Open(base.Ctx, opts())
	if err != nil {
		util.Die("open: %v", err)
	}
	e := *base
	e.Client, e.Engine, e.Path, e.Findings, e.Hist = client, engine, path, nil, 7777
	for i := 0; i < 6; i++ {
		e.coll("d.r").InsertOne(e.Ctx, d("_id", int32(i)))
	}
	time.Sleep(2200 * time.Millisecond)
	e.coll("d.r").InsertOne(e.Ctx, d("_id", int32(100)))
	// Reopen with the same options
	pre, evsBefore, _ := e.Obs(nil)
	pretok := e.tokens()
	e.Engine.Close()
	client, engine, err = lungo.Open(e.Ctx, opts())
	if err != nil {
		e.Trace.Write(V{"fn": "reload", "hist": e.Hist, "step": 1, "pre": pre, "post": V{}, "pretok": pretok, "posttok": V{}, "preev": evsBefore, "postev": []interface{}{}, "ts": []interface{}{}, "err": true, "msg": err.Error()})
		client, engine, _ = lungo.Open(e.Ctx, lungo.Options{Store: lungo.NewMemoryStore()})
		e.Client, e.Engine = client, engine
		return &e
	}
	e.Client, e.Engine = client, engine
	if e.Hist%2 == 1 {
		// the leftover of a write that was interrupted earlier: the next commit has to cope with it
		_ = os.WriteFile(e.Path+".tmp", bytes.Repeat([]byte{0xAB}, 1<<20), 0666)
	}
	post, evsAfter, ts := e.Obs(nil)
	e.Trace.Write(V{"fn": "reload", "hist": e.Hist, "step": 1, "pre": pre, "post": post, "pretok": pretok, "posttok": e.tokens(), "preev": evsBefore, "postev": evsAfter, "ts": ts, "err": false, "msg": "",
		"trimmed": len(evsBefore) < 7})
	return &e
}
