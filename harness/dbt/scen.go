package dbt

import (
	"go.mongodb.org/mongo-driver/bson"
	"go.mongodb.org/mongo-driver/bson/primitive"
)

// Targeted scenarios.  Every scenario is a short history on a fresh engine; each
// call goes through Do, so it is recorded with pre/post state and validated by
// TLC like any other call.

// Scenario is a named list of calls.
type Scenario struct {
	Name  string
	Calls func(e *Env) []Call
}

func d(kv ...interface{}) bson.D {
	out := bson.D{}
	for i := 0; i+1 < len(kv); i += 2 {
		out = append(out, bson.E{Key: kv[i].(string), Value: kv[i+1]})
	}
	return out
}

const sns = "d.c1"

// probes run after the main call of a failure scenario: they expose residue that a
// half-applied write leaves in indexes (phantom duplicate errors, failed removals).
func probes(e *Env, n int) []Call {
	var cs []Call
	for i := 1; i <= n; i++ {
		// re-insert of an existing key must be rejected, a fresh one accepted
		cs = append(cs, e.InsertOne(sns, d("_id", int32(200+i), "a", int32(i), "b", int32(1))))
	}
	cs = append(cs, e.InsertOne(sns, d("_id", int32(300), "a", int32(300), "b", int32(1))))
	cs = append(cs, e.Update(sns, true, d(), d("$inc", d("z", int32(1))), false, nil))
	cs = append(cs, e.Find(sns, d(), d("a", int32(1)), nil, 0, 0))
	cs = append(cs, e.Delete(sns, true, d("_id", d("$gte", int32(0)))))
	cs = append(cs, e.Count(sns, d(), 0, 0))
	return cs
}

func baseSetup(e *Env, n, k int, kind string) []Call {
	cs := []Call{
		e.CreateIndex(sns, IndexSpec{Key: d("a", int32(1)), Unique: true, Expire: -1}),
		e.CreateIndex(sns, IndexSpec{Key: d("b", int32(1)), Expire: -1}),
		e.CreateIndex(sns, IndexSpec{Key: d("g", int32(1), "a", int32(-1)), Expire: -1}),
	}
	docs := []bson.D{}
	for i := 1; i <= n; i++ {
		doc := d("_id", int32(i), "a", int32(i), "b", int32(i), "g", int32(1))
		if i == k {
			switch kind {
			case "inc-string":
				doc = d("_id", int32(i), "a", int32(i), "b", "s", "g", int32(1))
			case "push-nonarray":
				doc = d("_id", int32(i), "a", int32(i), "b", int32(i), "g", int32(1), "t", int32(5))
			}
		} else if kind == "push-nonarray" {
			doc = append(doc, bson.E{Key: "t", Value: bson.A{int32(1)}})
		}
		docs = append(docs, doc)
	}
	// the blocker is not matched by {g: 1}
	docs = append(docs, d("_id", int32(99), "a", int32(100+k), "b", int32(0), "g", int32(0)))
	cs = append(cs, e.InsertMany(sns, docs, true))
	return cs
}

func failingUpdate(kind string, k int) bson.D {
	switch kind {
	case "dup":
		return d("$inc", d("a", int32(100)))
	case "inc-string":
		return d("$inc", d("b", int32(1)))
	case "push-nonarray":
		return d("$push", d("t", int32(2)))
	case "immutable":
		return d("$set", d("_id", int32(k)))
	case "conflict":
		return d("$set", d("b", int32(7)), "$inc", d("b", int32(1)))
	case "bad-op":
		return d("$set", d("b", int32(7)), "$frob", d("b", int32(1)))
	}
	return d("$set", d("b", int32(7)))
}

// KthScenarios: a failure strikes at the k-th of n matched documents / the k-th item of a batch.
func KthScenarios() []Scenario {
	var out []Scenario
	kinds := []string{"dup", "inc-string", "push-nonarray", "immutable", "conflict", "bad-op"}
	for n := 1; n <= 4; n++ {
		for k := 1; k <= n; k++ {
			for _, kind := range kinds {
				n, k, kind := n, k, kind
				if (kind == "conflict" || kind == "bad-op") && k > 1 {
					continue
				}
				// update-many through every entry point
				for _, via := range []string{"updateMany", "bulk-ordered", "bulk-unordered", "findOneAndUpdate", "updateOne"} {
					via := via
					if (via == "findOneAndUpdate" || via == "updateOne") && k > 1 {
						continue
					}
					out = append(out, Scenario{Name: "kth/" + via + "/" + kind, Calls: func(e *Env) []Call {
						cs := baseSetup(e, n, k, kind)
						upd := failingUpdate(kind, k)
						q := d("g", int32(1))
						switch via {
						case "updateMany":
							cs = append(cs, e.Update(sns, true, q, upd, false, nil))
						case "updateOne":
							cs = append(cs, e.Update(sns, false, d("_id", int32(k)), upd, false, nil))
						case "findOneAndUpdate":
							cs = append(cs, e.FindOneAndUpdate(sns, d("_id", int32(k)), upd, nil, nil, false, true, nil))
						default:
							// a valid item before and after the failing one
							ms := []Model{
								{Kind: "insert", Doc: d("_id", int32(50), "a", int32(50), "b", int32(1))},
								{Kind: "update", Q: q, Doc: upd, Many: true},
								{Kind: "insert", Doc: d("_id", int32(51), "a", int32(51), "b", int32(1))},
								{Kind: "insert", Doc: d("_id", int32(52), "a", int32(100+k), "b", int32(1))}, // collides with the blocker
								{Kind: "delete", Q: d("_id", int32(1))},
							}
							cs = append(cs, e.BulkWrite(sns, ms, via == "bulk-ordered"))
						}
						return append(cs, probes(e, n)...)
					}})
				}
			}
			// insert-many with the k-th item failing
			for _, ordered := range []bool{true, false} {
				for _, kind := range []string{"dup-id", "dup-a"} {
					n, k, ordered, kind := n, k, ordered, kind
					out = append(out, Scenario{Name: "kth/insertMany/" + kind, Calls: func(e *Env) []Call {
						cs := baseSetup(e, 0, 1, "")
						docs := []bson.D{}
						for i := 1; i <= n; i++ {
							doc := d("_id", int32(i), "a", int32(i), "b", int32(i))
							if i == k {
								if kind == "dup-id" {
									doc = d("_id", int32(99), "a", int32(i), "b", int32(i))
								} else {
									doc = d("_id", int32(i), "a", int64(101), "b", int32(i))
								}
							}
							docs = append(docs, doc)
						}
						cs = append(cs, e.InsertMany(sns, docs, ordered))
						return append(cs, probes(e, n)...)
					}})
				}
			}
			// replace / find-one-and-replace failing on the k-th document
			n2, k2 := n, k
			out = append(out, Scenario{Name: "kth/replace", Calls: func(e *Env) []Call {
				cs := baseSetup(e, n2, k2, "dup")
				cs = append(cs, e.ReplaceOne(sns, d("_id", int32(k2)), d("a", int32(100+k2), "b", int32(1)), false))
				cs = append(cs, e.ReplaceOne(sns, d("_id", int32(k2)), d("_id", int32(77), "a", int32(500)), false))
				cs = append(cs, e.FindOneAndReplace(sns, d("_id", int32(k2)), d("a", int32(100+k2)), nil, nil, false, true))
				cs = append(cs, e.FindOneAndReplace(sns, d("_id", int32(k2)), d("a", int32(400)), nil, d("a", "bad"), false, true))
				cs = append(cs, e.FindOneAndDelete(sns, d("_id", int32(k2)), nil, d("a", int32(1), "b", int32(0))))
				cs = append(cs, e.FindOneAndUpdate(sns, d("_id", int32(k2)), d("$set", d("b", int32(9))), nil, d("a", int32(1), "b", int32(0)), false, false, nil))
				cs = append(cs, e.Update(sns, false, d("_id", int32(77)), d("$set", d("a", int32(100+k2))), true, nil)) // failing upsert
				cs = append(cs, e.ReplaceOne(sns, d("_id", int32(78)), d("a", int32(100+k2)), true))                    // failing upsert
				return append(cs, probes(e, n2)...)
			}})
		}
	}
	// index creation / drop failures
	out = append(out, Scenario{Name: "kth/index", Calls: func(e *Env) []Call {
		cs := baseSetup(e, 3, 1, "")
		cs = append(cs, e.Update(sns, false, d("_id", int32(2)), d("$set", d("b", int32(1))), false, nil))
		cs = append(cs, e.CreateIndex(sns, IndexSpec{Key: d("b", int32(-1)), Unique: true, Expire: -1}))                  // duplicate b
		cs = append(cs, e.CreateIndex(sns, IndexSpec{Key: d("b", int32(1)), Name: "other", Expire: -1}))                   // same key, other name
		cs = append(cs, e.CreateIndex(sns, IndexSpec{Key: d("z", int32(1)), Name: "a_1", Expire: -1}))                     // same name, other key
		cs = append(cs, e.CreateIndex(sns, IndexSpec{Key: d("a", int32(1)), Unique: false, Expire: -1}))                   // same name+key, other options
		cs = append(cs, e.CreateIndex(sns, IndexSpec{Key: d("a", int32(1)), Unique: true, Expire: -1}))                    // identical: no-op
		cs = append(cs, e.CreateIndex(sns, IndexSpec{Key: d("a", int32(1)), Unique: true, Partial: d("a", d("$gte", int32(0))), Name: "a_1", Expire: -1})) // same name and key, now partial: conflict
		cs = append(cs, e.CreateIndex(sns, IndexSpec{Key: d("a", int32(1)), Unique: true, Expire: 30, Name: "a_1"}))      // same name and key, now TTL: conflict
		cs = append(cs, e.CreateIndex(sns, IndexSpec{Key: d("p", int32(1)), Partial: d("p", d("$gt", int32(1))), Name: "pp", Expire: -1}))
		cs = append(cs, e.CreateIndex(sns, IndexSpec{Key: d("p", int32(1)), Name: "pp", Expire: -1}))                     // partial index re-created without the filter: conflict
		cs = append(cs, e.CreateIndex(sns, IndexSpec{Key: d("p", int32(1)), Partial: d("p", d("$gt", int32(2))), Name: "pp", Expire: -1})) // another filter: conflict
		cs = append(cs, e.CreateIndex(sns, IndexSpec{Key: d("p", int32(1)), Partial: d("p", d("$gt", int32(1))), Name: "pp", Expire: -1})) // identical: no-op
		cs = append(cs, e.CreateIndex(sns, IndexSpec{Key: d("a", int32(1), "b", int32(1)), Expire: 10}))                   // compound TTL
		cs = append(cs, e.DropIndex(sns, "nope"), e.DropIndex(sns, "_id_"), e.DropIndex("d.none", "a_1"), e.DropAllIndexes("d.none"))
		cs = append(cs, e.DropAllIndexes(sns), e.ListIndexes(sns))
		return append(cs, probes(e, 3)...)
	}})
	// several indexes in one call, the k-th of n cannot be created: none of them is
	for n := 2; n <= 3; n++ {
		for k := 1; k <= n; k++ {
			for _, why := range []string{"unique-violation", "bad-key", "name-conflict", "key-conflict"} {
				n, k, why := n, k, why
				out = append(out, Scenario{Name: "kth/createIndexes/" + why, Calls: func(e *Env) []Call {
					cs := baseSetup(e, 3, 1, "")
					cs = append(cs, e.Update(sns, false, d("_id", int32(2)), d("$set", d("b", int32(1))), false, nil)) // b: 1, 1, 3
					var specs []IndexSpec
					for i := 1; i <= n; i++ {
						sp := IndexSpec{Key: d("f"+itoa(i), int32(1)), Expire: -1}
						if i == k {
							switch why {
							case "unique-violation":
								sp = IndexSpec{Key: d("b", int32(-1)), Unique: true, Name: "ub", Expire: -1}
							case "bad-key":
								sp = IndexSpec{Key: d("x", "sideways"), Expire: -1}
							case "name-conflict":
								sp = IndexSpec{Key: d("zz", int32(1)), Name: "a_1", Expire: -1}
							case "key-conflict":
								sp = IndexSpec{Key: d("b", int32(1)), Name: "other", Expire: -1}
							}
						}
						specs = append(specs, sp)
					}
					cs = append(cs, e.CreateIndexes(sns, specs), e.ListIndexes(sns))
					// all of them valid: all created, in order; again: no-op
					ok := []IndexSpec{{Key: d("f1", int32(1)), Expire: -1}, {Key: d("f2", int32(-1)), Unique: true, Partial: d("f2", d("$exists", true)), Name: "pf2", Expire: -1}, {Key: d("when", int32(1)), Expire: 60}}
					cs = append(cs, e.CreateIndexes(sns, ok), e.CreateIndexes(sns, ok), e.ListIndexes(sns), e.UpdateByID(sns, int32(1), d("$set", d("f2", int32(5)))),
						e.UpdateByID(sns, int32(2), d("$set", d("f2", int32(5)))), e.UpdateByID(sns, int32(44), d("$set", d("f2", int32(6)))))
					return append(cs, probes(e, 3)...)
				}})
			}
		}
	}
	return out
}

// UniqueScenarios concentrate on writes that come close to a uniqueness violation (C07).
func UniqueScenarios() []Scenario {
	var out []Scenario
	add := func(name string, f func(e *Env) []Call) { out = append(out, Scenario{Name: "uniq/" + name, Calls: f}) }
	uniqA := IndexSpec{Key: d("a", int32(1)), Unique: true, Expire: -1}
	for _, vals := range [][2]interface{}{{int32(1), int64(1)}, {int32(1), float64(1)}, {nil, "missing"}, {bson.A{int32(1), int32(2)}, int32(2)},
		{bson.A{int32(1), int32(2)}, bson.A{int32(2), int32(3)}}, {bson.A{}, bson.A{}}, {bson.A{}, nil}, {"x", "x"}, {d("b", int32(1)), d("b", int64(1))},
		{int32(1), int32(2)}, {bson.A{int32(1)}, bson.A{bson.A{int32(1)}}}, {int32(0), float64(-0.0)},
		// beyond 2^53 a long and the neighbouring double are different keys; at 2^53 they are the same key
		{int64(1<<53 + 1), float64(1 << 53)}, {int64(-(1 << 53) - 1), float64(-(1 << 53))}, {int64(1 << 53), float64(1 << 53)}, {int64(1<<62 + 1), float64(1 << 62)}} {
		vals := vals
		mk := func(id int32, v interface{}) bson.D {
			if v == "missing" {
				return d("_id", id)
			}
			return d("_id", id, "a", v)
		}
		add("pair-insert", func(e *Env) []Call {
			return []Call{e.CreateIndex(sns, uniqA), e.InsertOne(sns, mk(1, vals[0])), e.InsertOne(sns, mk(2, vals[1])), e.Count(sns, d(), 0, 0)}
		})
		add("pair-build", func(e *Env) []Call {
			return []Call{e.InsertOne(sns, mk(1, vals[0])), e.InsertOne(sns, mk(2, vals[1])), e.CreateIndex(sns, uniqA), e.ListIndexes(sns)}
		})
		add("pair-update", func(e *Env) []Call {
			return []Call{e.CreateIndex(sns, uniqA), e.InsertOne(sns, mk(1, vals[0])), e.InsertOne(sns, d("_id", int32(2), "a", "other")),
				e.Update(sns, false, d("_id", int32(2)), d("$set", d("a", vals[1])), false, nil), e.Count(sns, d(), 0, 0)}
		})
		add("pair-compound", func(e *Env) []Call {
			return []Call{e.CreateIndex(sns, IndexSpec{Key: d("a", int32(1), "b", int32(-1)), Unique: true, Expire: -1}),
				e.InsertOne(sns, append(mk(1, vals[0]), bson.E{Key: "b", Value: int32(1)})), e.InsertOne(sns, append(mk(2, vals[1]), bson.E{Key: "b", Value: int64(1)})),
				e.InsertOne(sns, append(mk(3, vals[1]), bson.E{Key: "b", Value: int32(2)}))}
		})
	}
	// swap of two keys in one multi-update (must not be rejected), rotate, and a real collision
	add("swap", func(e *Env) []Call {
		return []Call{e.CreateIndex(sns, uniqA), e.InsertMany(sns, []bson.D{d("_id", int32(1), "a", int32(1)), d("_id", int32(2), "a", int32(2)), d("_id", int32(3), "a", int32(7))}, true),
			e.Update(sns, true, d("a", d("$lt", int32(3))), d("$bit", d("a", d("xor", int32(3)))), false, nil),
			e.Update(sns, true, d(), d("$inc", d("a", int32(1))), false, nil),
			e.Update(sns, true, d(), d("$set", d("a", int32(5))), false, nil),
			e.Update(sns, true, d("_id", d("$lte", int32(2))), d("$min", d("a", int32(0))), false, nil)}
	})
	// documents moving into and out of a partial filter
	add("partial", func(e *Env) []Call {
		part := IndexSpec{Key: d("a", int32(1)), Unique: true, Partial: d("b", d("$gt", int32(0))), Name: "pa", Expire: -1}
		return []Call{e.InsertMany(sns, []bson.D{d("_id", int32(1), "a", int32(1), "b", int32(1)), d("_id", int32(2), "a", int32(1), "b", int32(0)), d("_id", int32(3), "a", int32(1))}, true),
			e.CreateIndex(sns, part),
			e.Update(sns, false, d("_id", int32(2)), d("$set", d("b", int32(5))), false, nil),   // moves in: collides
			e.Update(sns, false, d("_id", int32(1)), d("$set", d("b", int32(-1))), false, nil),  // moves out
			e.Update(sns, false, d("_id", int32(2)), d("$set", d("b", int32(5))), false, nil),   // now fine
			e.Update(sns, false, d("_id", int32(1)), d("$set", d("b", int32(2))), false, nil),   // moves in: collides
			e.InsertOne(sns, d("_id", int32(4), "a", int32(1), "b", int32(3))),
			e.InsertOne(sns, d("_id", int32(5), "a", int32(1), "b", "x")),
			e.ReplaceOne(sns, d("_id", int32(3)), d("a", int32(1), "b", int32(9)), false),
			e.Delete(sns, false, d("_id", int32(2))),
			e.ReplaceOne(sns, d("_id", int32(3)), d("a", int32(1), "b", int32(9)), false),
			e.Update(sns, true, d(), d("$set", d("b", int32(1))), false, nil),
			e.DropIndex(sns, "pa"), e.CreateIndex(sns, part), e.Delete(sns, true, d())}
	})
	// multikey arity changes
	add("multikey", func(e *Env) []Call {
		return []Call{e.CreateIndex(sns, uniqA), e.InsertMany(sns, []bson.D{d("_id", int32(1), "a", bson.A{int32(1), int32(2)}), d("_id", int32(2), "a", bson.A{int32(3)}), d("_id", int32(3), "a", int32(4))}, true),
			e.Update(sns, false, d("_id", int32(2)), d("$push", d("a", int32(2))), false, nil),
			e.Update(sns, false, d("_id", int32(2)), d("$push", d("a", int32(5))), false, nil),
			e.Update(sns, false, d("_id", int32(1)), d("$pull", d("a", int32(2))), false, nil),
			e.Update(sns, false, d("_id", int32(2)), d("$push", d("a", int32(2))), false, nil),
			e.Update(sns, false, d("_id", int32(3)), d("$set", d("a", bson.A{int32(5), int32(9)})), false, nil),
			e.Update(sns, false, d("_id", int32(1)), d("$set", d("a", bson.A{})), false, nil),
			e.Update(sns, false, d("_id", int32(3)), d("$set", d("a", bson.A{})), false, nil),
			e.Update(sns, false, d("_id", int32(1)), d("$unset", d("a", "")), false, nil),
			e.InsertOne(sns, d("_id", int32(4), "a", nil)),
			e.Delete(sns, true, d("a", int32(2))), e.InsertOne(sns, d("_id", int32(5), "a", bson.A{int32(3), int32(2)})),
			e.Find(sns, d(), d("a", int32(1)), nil, 0, 0)}
	})
	add("nested-path", func(e *Env) []Call {
		ix := IndexSpec{Key: d("a.b", int32(1)), Unique: true, Expire: -1}
		return []Call{e.CreateIndex(sns, ix), e.InsertOne(sns, d("_id", int32(1), "a", bson.A{d("b", int32(1)), d("b", int32(2))})),
			e.InsertOne(sns, d("_id", int32(2), "a", d("b", int64(2)))), e.InsertOne(sns, d("_id", int32(3), "a", d("b", bson.A{int32(3), int32(1)}))),
			e.InsertOne(sns, d("_id", int32(4), "a", int32(1))), e.InsertOne(sns, d("_id", int32(5))), e.InsertOne(sns, d("_id", int32(6), "a", bson.A{d("b", int32(3))}))}
	})
	// positional updates into an array of sub-documents under a unique multikey index: a rejected update leaves
	// no trace, an accepted one frees the old key
	add("positional", func(e *Env) []Call {
		ix := IndexSpec{Key: d("pets.name", int32(1)), Unique: true, Expire: -1}
		pet := func(n string) bson.D { return d("name", n, "age", int32(1)) }
		return []Call{e.CreateIndex(sns, ix),
			e.InsertMany(sns, []bson.D{d("_id", int32(1), "pets", bson.A{pet("a"), pet("b")}), d("_id", int32(2), "pets", bson.A{pet("c")}), d("_id", int32(3), "pets", bson.A{})}, true),
			e.Update(sns, false, d("_id", int32(1)), d("$set", d("pets.1.name", "c")), false, nil),  // collides with document 2
			e.Update(sns, false, d("_id", int32(2)), d("$set", d("pets.0.name", "a")), false, nil),  // collides with document 1
			e.Update(sns, false, d("_id", int32(1)), d("$set", d("pets.$[x].name", "c")), false, []bson.D{d("x.name", "b")}),
			e.Update(sns, false, d("_id", int32(1)), d("$set", d("pets.1.name", "z")), false, nil),  // accepted: frees "b"
			e.InsertOne(sns, d("_id", int32(4), "pets", bson.A{pet("b")})),                          // "b" is free now
			e.InsertOne(sns, d("_id", int32(5), "pets", bson.A{pet("z")})),                          // "z" is taken
			e.Update(sns, true, d(), d("$set", d("pets.$[].age", int32(2))), false, nil),
			e.Update(sns, false, d("_id", int32(3)), d("$push", d("pets", pet("a"))), false, nil),   // collides
			e.FindOneAndUpdate(sns, d("_id", int32(2)), d("$set", d("pets.0.name", "z")), nil, nil, false, true, nil),
			e.Delete(sns, false, d("_id", int32(1))), e.InsertOne(sns, d("_id", int32(6), "pets", bson.A{pet("a"), pet("z")})),
			e.Find(sns, d(), d("_id", int32(1)), nil, 0, 0)}
	})
	add("upsert-bulk", func(e *Env) []Call {
		return []Call{e.CreateIndex(sns, uniqA), e.InsertOne(sns, d("_id", int32(1), "a", int32(1))),
			e.Update(sns, false, d("a", int64(1)), d("$set", d("b", int32(1))), true, nil),
			e.Update(sns, false, d("_id", int32(9), "a", int32(1)), d("$set", d("b", int32(1))), true, nil),
			e.Update(sns, false, d("_id", int32(9)), d("$set", d("a", float64(1))), true, nil),
			e.ReplaceOne(sns, d("_id", int32(8)), d("a", int32(1)), true), e.ReplaceOne(sns, d("_id", int32(8)), d("a", int32(2)), true),
			e.BulkWrite(sns, []Model{{Kind: "insert", Doc: d("_id", int32(20), "a", int32(20))}, {Kind: "insert", Doc: d("_id", int32(21), "a", int64(20))},
				{Kind: "replace", Q: d("_id", int32(20)), Doc: d("a", int32(2))}, {Kind: "update", Q: d("_id", int32(20)), Doc: d("$set", d("a", int32(30)))},
				{Kind: "insert", Doc: d("_id", int32(22), "a", int32(20))}}, false)}
	})
	return out
}

// OplogScenarios: multi-document writes whose events are document dependent (C08).
func OplogScenarios() []Scenario {
	var out []Scenario
	add := func(name string, f func(e *Env) []Call) { out = append(out, Scenario{Name: "oplog/" + name, Calls: f}) }
	docs := []bson.D{d("_id", int32(1), "x", int32(7), "t", bson.A{int32(1)}), d("_id", int32(2), "x", int32(3), "t", bson.A{int32(1), int32(2)}), d("_id", int32(3), "x", int32(1)),
		d("_id", int32(4), "x", int32(5), "t", bson.A{}), d("_id", int32(5), "x", "s")}
	for _, u := range []bson.D{d("$max", d("x", int32(5))), d("$min", d("x", int32(3))), d("$inc", d("x", int32(0))), d("$addToSet", d("t", int32(2))), d("$pull", d("t", int32(1))),
		d("$push", d("t", int32(9))), d("$push", d("t", d("$each", bson.A{int32(8), int32(9)}, "$position", int32(0)))), d("$unset", d("t", "")), d("$rename", d("t", "u")),
		d("$set", d("x", int32(5))), d("$set", d("x", int64(5))), d("$mul", d("x", int32(1))), d("$pop", d("t", int32(1))), d("$set", d("t.1", int32(4))),
		d("$set", d("n.m", int32(1)), "$unset", d("x", "")), d("$push", d("t", d("$each", bson.A{int32(3)}, "$sort", int32(-1), "$slice", int32(2)))), d("$bit", d("x", d("and", int32(5))))} {
		u := u
		add("multi", func(e *Env) []Call {
			return []Call{e.InsertMany(sns, docs, false), e.Update(sns, true, d("x", d("$type", "number")), u, false, nil), e.Update(sns, true, d(), u, false, nil),
				e.Update(sns, false, d("_id", int32(2)), u, false, nil),
				e.BulkWrite(sns, []Model{{Kind: "update", Q: d(), Doc: u, Many: true}, {Kind: "delete", Q: d("_id", int32(1))}, {Kind: "update", Q: d("_id", int32(3)), Doc: u}}, true)}
		})
	}
	add("noop", func(e *Env) []Call {
		return []Call{e.InsertMany(sns, docs, true), e.ReplaceOne(sns, d("_id", int32(3)), d("x", int32(1)), false), e.ReplaceOne(sns, d("_id", int32(3)), d("_id", int32(3), "x", int32(1)), false),
			e.ReplaceOne(sns, d("_id", int32(3)), d("x", int64(1)), false), e.Update(sns, true, d(), d("$set", d("q", int32(1))), false, nil),
			e.Update(sns, true, d(), d("$set", d("q", int32(1))), false, nil), e.Delete(sns, true, d("x", int32(99))), e.Delete(sns, true, d("x", d("$gt", int32(4)))),
			e.FindOneAndUpdate(sns, d("_id", int32(3)), d("$set", d("q", int32(1))), nil, nil, false, true, nil), e.FindOneAndDelete(sns, d("_id", int32(44)), nil, nil),
			e.DropCollection("d.none"), e.DropDatabase("none"), e.DropCollection(sns), e.DropCollection(sns), e.InsertOne("d.c2", d("_id", int32(1))), e.InsertOne("d.c3", d("_id", int32(1))),
			e.InsertOne("e.c1", d("_id", int32(1))), e.DropDatabase("d"), e.DropDatabase("d"), e.CreateCollection("e.c9"), e.CreateIndex("e.c9", IndexSpec{Key: d("a", int32(1)), Expire: -1}),
			e.DropDatabase("e")}
	})
	return out
}

// IndexScenarios: every write path next to partial and multikey indexes (C15).
func IndexScenarios() []Scenario {
	var out []Scenario
	add := func(name string, f func(e *Env) []Call) { out = append(out, Scenario{Name: "index/" + name, Calls: f}) }
	ixs := []IndexSpec{{Key: d("a", int32(1)), Expire: -1}, {Key: d("a", int32(-1), "b", int32(1)), Expire: -1},
		{Key: d("b", int32(1)), Partial: d("a", d("$gte", int32(2))), Name: "pb", Expire: -1}, {Key: d("t", int32(1)), Expire: -1},
		{Key: d("c", int32(1)), Expire: 3600}, {Key: d("a.b", int32(-1)), Expire: -1}, {Key: d("sub.tags", int32(1)), Expire: -1}}
	docs := []bson.D{d("_id", int32(1), "a", int32(1), "b", int32(5), "t", bson.A{int32(1), int32(2)}), d("_id", int32(2), "a", int32(2), "b", int32(4), "t", bson.A{}),
		d("_id", int32(3), "a", int32(3), "b", int32(3)), d("_id", int32(4), "a", bson.A{int32(1), int32(5)}, "b", int32(2), "t", int32(2)), d("_id", int32(5), "b", int32(1)),
		d("_id", int32(6), "a", d("b", int32(2)), "b", int32(1)), d("_id", int32(7), "a", bson.A{d("b", int32(1)), d("b", int32(3))}),
		d("_id", int32(8), "sub", d("tags", bson.A{int32(3), int32(1), int32(2)}, "n", int32(1))), d("_id", int32(9), "sub", d("tags", bson.A{int32(5), int32(4)}))}
	writes := func(e *Env) []Call {
		return []Call{
			e.Update(sns, true, d(), d("$inc", d("a", int32(1))), false, nil),         // fails on arrays / documents: nothing may change
			e.Update(sns, true, d("a", d("$type", "number")), d("$inc", d("a", int32(1))), false, nil), // crosses the partial boundary
			e.Update(sns, true, d("a", d("$type", "number")), d("$inc", d("a", int32(-2))), false, nil),
			e.Update(sns, false, d("_id", int32(1)), d("$push", d("t", int32(3))), false, nil),
			e.Update(sns, false, d("_id", int32(1)), d("$set", d("t", int32(9))), false, nil),
			e.Update(sns, false, d("_id", int32(2)), d("$push", d("t", d("$each", bson.A{int32(1), int32(1), int32(2)}))), false, nil),
			e.ReplaceOne(sns, d("_id", int32(3)), d("a", bson.A{int32(7), int32(8)}, "b", int32(3)), false),
			e.ReplaceOne(sns, d("_id", int32(3)), d("b", int32(3)), false),
			e.FindOneAndUpdate(sns, d("_id", int32(5)), d("$set", d("a", int32(4))), nil, nil, false, true, nil),
			e.FindOneAndReplace(sns, d("_id", int32(6)), d("a", int32(0)), nil, nil, false, false),
			e.BulkWrite(sns, []Model{{Kind: "update", Q: d(), Doc: d("$set", d("b", int32(0))), Many: true}, {Kind: "insert", Doc: d("_id", int32(1))},
				{Kind: "delete", Q: d("a", d("$gte", int32(3))), Many: true}, {Kind: "replace", Q: d("_id", int32(1)), Doc: d("a", int32(2), "b", int32(2))}}, false),
			e.FindOneAndDelete(sns, d(), d("a", int32(-1)), nil),
			e.Update(sns, false, d("_id", int32(50)), d("$set", d("a", int32(2), "b", int32(2))), true, nil),
			e.Delete(sns, false, d("a", int32(2))),
			e.Find(sns, d(), d("a", int32(1), "b", int32(-1)), nil, 0, 0),
			// reads whose projection overlays part of an included value (nothing may be written through to the stored
			// documents or their index keys), then writes to the documents that were read
			e.Find(sns, d("_id", d("$gte", int32(8))), nil, d("sub", int32(1), "sub.tags", d("$slice", int32(1))), 0, 0),
			e.Find(sns, d("_id", d("$gte", int32(7))), d("_id", int32(-1)), d("a", d("$slice", int32(-1)), "sub.tags", d("$slice", bson.A{int32(1), int32(1)})), 0, 0),
			e.FindOneAndUpdate(sns, d("_id", int32(9)), d("$set", d("z", int32(1))), nil, d("sub", int32(1), "sub.tags", d("$slice", int32(-1))), false, true, nil),
			e.Update(sns, false, d("_id", int32(8)), d("$push", d("sub.tags", int32(0))), false, nil),
			e.Delete(sns, false, d("_id", int32(9))),
			e.Delete(sns, false, d("_id", int32(8))),
			e.InsertOne(sns, d("_id", int32(8), "sub", d("tags", bson.A{int32(1)}))),
			// one call that changes some of the matched documents and leaves others as they are; the untouched ones
			// are then written again on their own
			e.InsertMany(sns, []bson.D{d("_id", int32(60), "a", int32(1), "b", int32(1)), d("_id", int32(61), "a", int32(5), "b", int32(2)), d("_id", int32(62), "a", int32(9), "b", int32(3))}, true),
			e.Update(sns, true, d("_id", d("$gte", int32(60))), d("$max", d("a", int32(5))), false, nil),
			e.Update(sns, false, d("_id", int32(62)), d("$set", d("a", int32(7))), false, nil),
			e.Update(sns, true, d("_id", d("$gte", int32(60))), d("$min", d("b", int32(2))), false, nil),
			e.Delete(sns, false, d("_id", int32(60))),
			e.ReplaceOne(sns, d("_id", int32(61)), d("a", int32(6), "b", int32(2)), false),
			e.Delete(sns, true, d("_id", d("$gte", int32(60)))),
		}
	}
	add("before-data", func(e *Env) []Call {
		var cs []Call
		for _, ix := range ixs {
			cs = append(cs, e.CreateIndex(sns, ix))
		}
		cs = append(cs, e.InsertMany(sns, docs, true))
		cs = append(cs, writes(e)...)
		return append(cs, e.DropIndex(sns, "pb"), e.DropIndexByKey(sns, d("_id", int32(1))), e.DropIndexByKey(sns, d("a", int32(1))), e.DropIndexByKey(sns, d("a", int32(1))),
			e.DropIndexByKey(sns, d("a", float64(-1), "b", int64(1))), e.DropIndexByKey(sns, d("zz", int32(1))), e.DropIndexByKey("d.none", d("a", int32(1))),
			e.InsertOne(sns, d("_id", int32(1))), e.DropAllIndexes(sns), e.DropIndexByKey(sns, d("_id", int32(1))), e.InsertOne(sns, d("_id", int32(1))), e.Delete(sns, true, d()))
	})
	add("after-data", func(e *Env) []Call {
		cs := []Call{e.InsertMany(sns, docs, true)}
		for _, ix := range ixs {
			cs = append(cs, e.CreateIndex(sns, ix))
		}
		cs = append(cs, writes(e)...)
		return append(cs, e.Delete(sns, true, d()))
	})
	return out
}

// NestedScenarios: updates that reach through arrays of sub-documents and nested documents (every clone on the
// write path must be deep: a shallow one shows as a wrong modified count, a pre-image that already carries the
// update, or a change to a document that was not addressed), next to reads that fan out over the same arrays.
func NestedScenarios() []Scenario {
	var out []Scenario
	add := func(name string, f func(e *Env) []Call) { out = append(out, Scenario{Name: "nested/" + name, Calls: f}) }
	it := func(sku string, qty int32) bson.D { return d("sku", sku, "qty", qty) }
	docs := func() []bson.D {
		return []bson.D{
			d("_id", int32(1), "items", bson.A{it("a", 1), it("b", 2)}, "m", d("n", d("k", int32(1))), "t", bson.A{int32(1), int32(2)}),
			d("_id", int32(2), "items", bson.A{it("a", 5)}, "m", d("n", d("k", int32(2)))),
			d("_id", int32(3), "items", bson.A{}, "m", d("n", bson.A{d("k", int32(1)), d("k", int32(2))})),
			d("_id", int32(4), "items", bson.A{it("c", 7), it("a", 7), d("sku", "d", "qty", int32(1), "tags", bson.A{"x", "y"})}),
			d("_id", int32(5)),
		}
	}
	upds := []struct {
		u   bson.D
		afs []bson.D
	}{
		{d("$set", d("items.0.qty", int32(5))), nil},
		{d("$inc", d("items.1.qty", int32(1))), nil},
		{d("$inc", d("items.$[].qty", int32(1))), nil},
		{d("$set", d("items.$[x].qty", int32(0))), []bson.D{d("x.sku", "a")}},
		{d("$mul", d("items.$[x].qty", int32(2))), []bson.D{d("x.qty", d("$gte", int32(5)))}},
		{d("$set", d("m.n.k", int32(9))), nil},
		{d("$unset", d("items.0.sku", "")), nil},
		{d("$rename", d("m.n", "m.o")), nil},
		{d("$push", d("items", it("z", 3))), nil},
		{d("$push", d("items.2.tags", "z")), nil},
		{d("$pull", d("items", d("qty", d("$gte", int32(5))))), nil},
		{d("$addToSet", d("items", it("a", 1))), nil},
		{d("$pop", d("items", int32(-1))), nil},
		{d("$max", d("items.0.qty", int32(6))), nil},
		{d("$inc", d("items.0.sku", int32(1))), nil}, // fails on the string: nothing may change
		{d("$set", d("items.0.qty", int32(1), "items.1.qty", int32(1)), "$inc", d("m.n.k", int32(1))), nil},
	}
	reads := func(e *Env) []Call {
		return []Call{
			e.Find(sns, d("items.qty", d("$gt", int32(1))), d("_id", int32(1)), nil, 0, 0),
			e.Find(sns, d("items", d("$elemMatch", d("sku", "a", "qty", d("$gte", int32(1))))), d("_id", int32(-1)), nil, 0, 0),
			e.Find(sns, d("items.sku", d("$in", bson.A{"a", "z"})), nil, d("items.qty", int32(1)), 0, 0),
			e.Find(sns, d(), d("_id", int32(1)), nil, 0, 0),
		}
	}
	for _, x := range upds {
		x := x
		add("update", func(e *Env) []Call {
			cs := []Call{e.InsertMany(sns, docs(), true),
				e.Update(sns, false, d("_id", int32(1)), x.u, false, x.afs),
				e.Update(sns, false, d("_id", int32(1)), x.u, false, x.afs), // the second time it may be a no-op: modified count 0
				e.Update(sns, true, d(), x.u, false, x.afs),
				e.FindOneAndUpdate(sns, d("_id", int32(4)), x.u, nil, nil, false, false, x.afs), // pre-image
				e.FindOneAndUpdate(sns, d("_id", int32(2)), x.u, nil, nil, false, true, x.afs),  // post-image
				e.BulkWrite(sns, []Model{{Kind: "update", Q: d("_id", int32(4)), Doc: x.u, Afs: x.afs}, {Kind: "insert", Doc: d("_id", int32(1))},
					{Kind: "update", Q: d(), Doc: x.u, Many: true, Afs: x.afs}}, false)}
			return append(cs, reads(e)...)
		})
	}
	// many documents with tied sort keys: sorted reads and sorted one-document writes pick by insertion order
	add("ties", func(e *Env) []Call {
		var docs []bson.D
		for i := 1; i <= 17; i++ {
			docs = append(docs, d("_id", int32(i), "g", int32(i%2), "h", int32(i%3), "v", int32(100-i)))
		}
		return []Call{e.InsertMany(sns, docs, true),
			e.Find(sns, d(), d("g", int32(1)), nil, 0, 0),
			e.Find(sns, d("h", d("$lte", int32(1))), d("g", int32(-1), "h", int32(1)), nil, 2, 5),
			e.Find(sns, d(), d("h", int32(1)), d("v", int32(1)), 0, 0),
			e.FindOneAndUpdate(sns, d(), d("$set", d("seen", int32(1))), d("g", int32(1)), nil, false, true, nil),
			e.FindOneAndUpdate(sns, d("g", int32(1)), d("$inc", d("v", int32(1))), d("h", int32(-1)), nil, false, false, nil),
			e.FindOneAndReplace(sns, d(), d("g", int32(0), "h", int32(0), "v", int32(0)), d("h", int32(1)), nil, false, true),
			e.FindOneAndDelete(sns, d(), d("g", int32(-1)), nil),
			e.FindOneAndDelete(sns, d("h", int32(2)), d("g", int32(1)), nil),
			e.Find(sns, d(), d("g", int32(1), "h", int32(1)), nil, 0, 0),
			e.Find(sns, d(), nil, nil, 0, 0)}
	})
	// binary values of different lengths and subtypes: ordered by length, then subtype, then bytes - in sorted reads,
	// range filters, $min / $max and sorted one-document writes
	add("binary-order", func(e *Env) []Call {
		bin := func(st byte, b ...byte) primitive.Binary { return primitive.Binary{Subtype: st, Data: b} }
		vals := []primitive.Binary{bin(0, 9), bin(0, 1, 2), bin(0, 1, 2, 3), bin(1, 1), bin(0), bin(5, 0, 0), bin(0, 200), bin(0, 1, 255)}
		var docs []bson.D
		for i, v := range vals {
			docs = append(docs, d("_id", int32(i+1), "k", v, "m", vals[(i+3)%len(vals)]))
		}
		return []Call{e.InsertMany(sns, docs, true),
			e.Find(sns, d(), d("k", int32(1)), nil, 0, 0), e.Find(sns, d(), d("k", int32(-1)), nil, 1, 3),
			e.Find(sns, d("k", d("$gt", bin(0, 9))), d("_id", int32(1)), nil, 0, 0), e.Find(sns, d("k", d("$lte", bin(0, 1, 2))), d("_id", int32(1)), nil, 0, 0),
			e.Count(sns, d("k", d("$gte", bin(0, 1, 2), "$lt", bin(0, 1, 2, 3))), 0, 0),
			e.Update(sns, true, d(), d("$max", d("m", bin(0, 5, 5))), false, nil), e.Update(sns, true, d(), d("$min", d("k", bin(0, 7))), false, nil),
			e.FindOneAndDelete(sns, d(), d("m", int32(-1)), nil), e.FindOneAndUpdate(sns, d(), d("$set", d("first", true)), d("k", int32(1), "_id", int32(1)), nil, false, true, nil),
			e.CreateIndex(sns, IndexSpec{Key: d("m", int32(1)), Expire: -1}), e.Distinct(sns, "k", d()), e.Find(sns, d(), d("m", int32(1), "_id", int32(1)), nil, 0, 0)}
	})
	// the same array value stored into several documents by one call, then changed in one of them
	add("shared-value", func(e *Env) []Call {
		sh := bson.A{d("v", int32(1)), d("v", int32(2), "w", bson.A{int32(1)})}
		cs := []Call{e.InsertMany(sns, docs(), true),
			e.Update(sns, true, d(), d("$set", d("shared", sh, "deep", d("x", d("y", int32(1))))), false, nil),
			e.Update(sns, false, d("_id", int32(2)), d("$set", d("shared.0.v", int32(9))), false, nil),
			e.Update(sns, false, d("_id", int32(3)), d("$inc", d("shared.$[].v", int32(1))), false, nil),
			e.Update(sns, false, d("_id", int32(4)), d("$push", d("shared.1.w", int32(2))), false, nil),
			e.Update(sns, false, d("_id", int32(5)), d("$set", d("deep.x.y", int32(2))), false, nil),
			e.Update(sns, true, d(), d("$push", d("log", d("$each", bson.A{d("n", int32(1))}))), false, nil),
			e.Update(sns, false, d("_id", int32(1)), d("$set", d("log.0.n", int32(5))), false, nil),
			e.Update(sns, true, d(), d("$addToSet", d("set", d("$each", bson.A{d("k", int32(1)), d("k", int32(1)), d("k", int32(2))}))), false, nil),
			e.Update(sns, false, d("_id", int32(1)), d("$inc", d("set.$[].k", int32(1))), false, nil),
			e.ReplaceOne(sns, d("_id", int32(5)), d("items", bson.A{it("q", 1)}, "shared", sh), false),
			e.Update(sns, false, d("_id", int32(5)), d("$set", d("items.0.qty", int32(2), "shared.1.v", int32(0))), false, nil),
			e.Update(sns, false, d("_id", int32(77)), d("$set", d("items", bson.A{it("u", 1)})), true, nil),
			e.Update(sns, false, d("_id", int32(77)), d("$inc", d("items.0.qty", int32(1))), false, nil),
		}
		return append(cs, reads(e)...)
	})
	return out
}

// OptionScenarios: every combination of the options that steer FindOneAnd*, Update*, ReplaceOne and Delete* through
// different code paths (what the filter matches, upsert, which image is returned, projection, sort), each on a
// fresh small collection and judged like any other call.
func OptionScenarios() []Scenario {
	var out []Scenario
	docs := []bson.D{d("_id", int32(1), "a", int32(1), "b", bson.A{int32(1), int32(2), int32(3)}), d("_id", int32(2), "a", int32(2), "b", bson.A{}), d("_id", int32(3), "a", int32(2))}
	filters := map[string]bson.D{"one": d("_id", int32(1)), "none": d("_id", int32(99)), "many": d("a", d("$gte", int32(1))), "none-eq": d("a", int32(7), "c", "x")}
	projs := map[string]bson.D{"none": nil, "incl": d("a", int32(1)), "excl": d("a", int32(0)), "noid": d("_id", int32(0), "b", int32(1)), "slice": d("b", d("$slice", int32(1))), "mixed": d("a", int32(1), "b", int32(0))}
	sorts := map[string]bson.D{"none": nil, "desc": d("a", int32(-1), "_id", int32(-1)), "bad": d("a", "up")}
	for _, fk := range []string{"one", "none", "many", "none-eq"} {
		for _, upsert := range []bool{false, true} {
			fk, upsert := fk, upsert
			q := filters[fk]
			out = append(out, Scenario{Name: "options/plain/" + fk, Calls: func(e *Env) []Call {
				return []Call{e.InsertMany(sns, docs, true),
					e.Update(sns, false, q, d("$inc", d("a", int32(1))), upsert, nil),
					e.Update(sns, true, q, d("$set", d("z", int32(1))), upsert, nil),
					e.Update(sns, true, q, d("$set", d("z", int32(1))), upsert, nil), // no-op the second time
					e.ReplaceOne(sns, q, d("a", int32(7)), upsert),
					e.Delete(sns, false, q), e.Delete(sns, true, q), e.Find(sns, d(), d("_id", int32(1)), nil, 0, 0)}
			}})
			for _, after := range []bool{false, true} {
				for _, pk := range []string{"none", "incl", "excl", "noid", "slice", "mixed"} {
					for _, sk := range []string{"none", "desc", "bad"} {
						after, pk, sk := after, pk, sk
						out = append(out, Scenario{Name: "options/findAndModify/" + fk + "/" + pk + "/" + sk, Calls: func(e *Env) []Call {
							return []Call{e.InsertMany(sns, docs, true),
								e.FindOneAndUpdate(sns, q, d("$inc", d("a", int32(1))), sorts[sk], projs[pk], upsert, after, nil),
								e.FindOneAndReplace(sns, q, d("a", int32(7), "b", bson.A{int32(9)}), sorts[sk], projs[pk], upsert, after),
								e.FindOneAndDelete(sns, q, sorts[sk], projs[pk]),
								e.Find(sns, d(), d("_id", int32(1)), nil, 0, 0)}
						}})
					}
				}
			}
		}
	}
	return out
}

// RunScenarios executes scenarios, a fresh engine each.
func RunScenarios(scs []Scenario, mk func() *Env, each func(e *Env)) {
	for i, sc := range scs {
		e := mk()
		e.Hist = i
		for _, c := range sc.Calls(e) {
			e.Do(c)
		}
		each(e)
		e.Close()
	}
}
