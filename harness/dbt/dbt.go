// Package dbt drives the real lungo driver API with generated histories and
// records every call as a self-contained trace event for TLC:
//
//	{fn:"call", op, ns, a:{arguments}, pre:{state}, res:{result}, post:{state}, ev:[new change events], ts:[all oplog ids]}
//
// States are observed through engine.Catalog(): per namespace the documents in
// natural order and per index its definition and its listing.
package dbt

import (
	"context"
	"fmt"
	"sort"
	"strings"
	"time"

	"go.mongodb.org/mongo-driver/bson"
	"go.mongodb.org/mongo-driver/bson/primitive"
	"go.mongodb.org/mongo-driver/mongo"
	"go.mongodb.org/mongo-driver/mongo/options"

	"github.com/256dpi/lungo"
	"github.com/256dpi/lungo/bsonkit"

	"verif/harness/enc"
	"verif/harness/gen"
	"verif/harness/util"
)

// V is a JSON-able map.
type V = map[string]interface{}

// Env is one engine under test.
type Env struct {
	Ctx    context.Context
	Client lungo.IClient
	Engine *lungo.Engine
	T      *enc.Table
	Trace  *util.NDJSON
	G      *gen.G
	// findings that need no specification (panics, structural inconsistencies)
	Findings []V
	Hist     int
	Step     int
	OnCall   func(op string, failed bool)
	Path     string // file of the file store, if any
	Flaky    *FlakyStore // set when the engine runs on a store that can be told to reject the next write
	Rets     []interface{} // raw values handed back by the last calls (for the alias histories)
	// View, when set, returns the catalog that calls are observed against (the working
	// catalog of an open session transaction); the committed catalog is then recorded as well
	View  func() *lungo.Catalog
	Actor string
	keep  *util.NDJSON
}

func (e *Env) viewCat() *lungo.Catalog {
	if e.View != nil {
		if c := e.View(); c != nil {
			return c
		}
	}
	return e.Engine.Catalog()
}

var missing = V{"t": "missing"}

// Open creates a fresh in-memory engine.
func Open(t *enc.Table, trace *util.NDJSON, g *gen.G, store lungo.Store) *Env {
	if store == nil {
		store = lungo.NewMemoryStore()
	}
	ctx := context.Background()
	c, e, err := lungo.Open(ctx, lungo.Options{Store: store})
	if err != nil {
		util.Die("open: %v", err)
	}
	return &Env{Ctx: ctx, Client: c, Engine: e, T: t, Trace: trace, G: g}
}

// Close shuts the engine down.
func (e *Env) Close() { e.Engine.Close() }

func (e *Env) finding(kind, what string, extra V) {
	m := V{"kind": kind, "what": what, "hist": e.Hist, "step": e.Step}
	for k, v := range extra {
		m[k] = v
	}
	e.Findings = append(e.Findings, m)
}

// ---------------------------------------------------------------------------
// observation

func (e *Env) docVals(list bsonkit.List) []interface{} {
	o := make([]interface{}, 0, len(list))
	for _, d := range list {
		o = append(o, e.T.Val(*d))
	}
	return o
}

// Obs dumps the committed catalog (or the given one).
func (e *Env) Obs(cat *lungo.Catalog) (V, []interface{}, []interface{}) {
	if cat == nil {
		cat = e.Engine.Catalog()
	}
	state := V{}
	var events, ts []interface{}
	for h, ns := range cat.Namespaces {
		// internal consistency of the document set (position index)
		if len(ns.Documents.Index) != len(ns.Documents.List) {
			e.finding("structure", "document set: position index and list differ in length", V{"ns": h.String()})
		}
		for i, d := range ns.Documents.List {
			if p, ok := ns.Documents.Index[d]; !ok || p != i {
				e.finding("structure", "document set: position index is stale", V{"ns": h.String()})
				break
			}
		}
		if h == lungo.Oplog {
			for _, d := range ns.Documents.List {
				ev := e.event(*d)
				events = append(events, ev)
				ts = append(ts, ev["ts"])
			}
			continue
		}
		name := h.String()
		e.T.Add(name)
		idx := []interface{}{}
		names := make([]string, 0, len(ns.Indexes))
		for n := range ns.Indexes {
			names = append(names, n)
		}
		sort.Strings(names)
		for _, n := range names {
			cfg := ns.Indexes[n].Config()
			e.T.Add(n)
			var partial interface{} = missing
			if cfg.Partial != nil {
				partial = e.T.Val(*cfg.Partial)
			}
			exp := -1
			if cfg.Expiry > 0 {
				exp = int(cfg.Expiry / time.Second)
			}
			for _, d := range ns.Indexes[n].List() {
				if _, ok := ns.Documents.Index[d]; !ok {
					e.finding("structure", "an index holds an entry that is not a document of its collection (a stale copy)", V{"ns": name, "index": n})
					break
				}
			}
			idx = append(idx, V{"name": n, "key": e.T.Val(*cfg.Key), "unique": cfg.Unique, "partial": partial, "exp": exp,
				"list": e.docVals(ns.Indexes[n].List())})
		}
		state[name] = V{"docs": e.docVals(ns.Documents.List), "idx": idx}
	}
	if events == nil {
		events = []interface{}{}
		ts = []interface{}{}
	}
	return state, events, ts
}

// event decodes one oplog document.
func (e *Env) event(d bson.D) V {
	get := func(doc bson.D, k string) interface{} {
		for _, x := range doc {
			if x.Key == k {
				return x.Value
			}
		}
		return nil
	}
	ev := V{"op": get(d, "operationType"), "key": missing, "full": missing, "upd": []interface{}{}, "rem": []interface{}{}, "hasdesc": false}
	if ns, ok := get(d, "ns").(bson.D); ok {
		name, _ := get(ns, "db").(string)
		if c, ok := get(ns, "coll").(string); ok {
			name += "." + c
		}
		e.T.Add(name)
		ev["ns"] = name
	}
	if id, ok := get(d, "_id").(bson.D); ok {
		if t, ok := get(id, "ts").(primitive.Timestamp); ok {
			ev["ts"] = []interface{}{int(t.T), int(t.I)}
		}
	}
	if dk, ok := get(d, "documentKey").(bson.D); ok {
		ev["key"] = e.T.Val(get(dk, "_id"))
	}
	if fd, ok := get(d, "fullDocument").(bson.D); ok {
		ev["full"] = e.T.Val(fd)
	}
	if ud, ok := get(d, "updateDescription").(bson.D); ok {
		ev["hasdesc"] = true
		if uf, ok := get(ud, "updatedFields").(bson.D); ok {
			l := []interface{}{}
			for _, x := range uf {
				e.T.Add(x.Key)
				l = append(l, []interface{}{x.Key, e.T.Val(x.Value)})
			}
			ev["upd"] = l
		}
		if rf, ok := get(ud, "removedFields").(bson.A); ok {
			l := []interface{}{}
			for _, x := range rf {
				if s, ok := x.(string); ok {
					e.T.Add(s)
					l = append(l, s)
				}
			}
			ev["rem"] = l
		}
	}
	return ev
}

// ---------------------------------------------------------------------------
// calls

// Call is one driver call: tagged arguments plus the function that performs it.
type Call struct {
	Op  string
	NS  string // "db.coll" (or "db" for database-level calls)
	A   V
	Run func(e *Env) V // returns the result record
	// Args are the Go values handed to the driver (shared with the caller, so that overwriting them afterwards shows
	// whether the library kept a reference); the values handed back are collected in Env.Rets
	Args []interface{}
}

// baseRes is the result record with every field present.
func baseRes() V {
	return V{"err": false, "n": V{"inserted": 0, "matched": 0, "modified": 0, "deleted": 0, "upserted": 0}, "ids": []interface{}{},
		"upid": missing, "docs": []interface{}{}, "vals": []interface{}{}, "names": []interface{}{}, "count": 0, "uniq": false, "msg": ""}
}

func errRes(err error) V {
	r := baseRes()
	r["err"] = true
	r["uniq"] = lungo.IsUniquenessError(err)
	r["msg"] = err.Error()
	return r
}

func (e *Env) coll(ns string) lungo.ICollection {
	p := strings.SplitN(ns, ".", 2)
	return e.Client.Database(p[0]).Collection(p[1])
}

// Do performs a call, records it and returns the event.
func (e *Env) Do(c Call) V {
	pre, evsBefore, _ := e.Obs(e.viewCat())
	var cpre V
	if e.View != nil {
		cpre = e.dumpCat(e.Engine.Catalog())
	}
	var res V
	func() {
		defer func() {
			if r := recover(); r != nil {
				e.finding("panic", fmt.Sprintf("%s panics: %v", c.Op, r), V{"op": c.Op, "ns": c.NS, "a": c.A})
				res = nil
			}
		}()
		res = c.Run(e)
	}()
	e.Step++
	if res == nil {
		return nil
	}
	post, evsAfter, ts := e.Obs(e.viewCat())
	// the oplog only grows in these histories (retention is not reached); new events = suffix
	var delta []interface{}
	if len(evsAfter) >= len(evsBefore) {
		delta = evsAfter[len(evsBefore):]
	} else {
		e.finding("structure", "the change log shrank", V{"op": c.Op})
		delta = []interface{}{}
	}
	if delta == nil {
		delta = []interface{}{}
	}
	// a generated _id the result does not report (upserts of FindOneAnd*): the ObjectID of a document
	// that is new in the namespace
	if g, ok := c.A["gen"]; ok {
		if gm, ok := g.(V); ok && gm["t"] == "missing" {
			if id := newObjectID(pre, post, c.NS); id != nil {
				c.A["gen"] = id
			}
		}
	}
	e.T.Add(c.NS)
	ev := V{"fn": "call", "hist": e.Hist, "step": e.Step, "op": c.Op, "ns": c.NS, "a": c.A, "pre": pre, "res": res, "post": post, "ev": delta, "ts": ts}
	if e.Actor != "" {
		ev["actor"] = e.Actor
	}
	if cpre != nil {
		ev["cpre"] = cpre
		ev["cpost"] = e.dumpCat(e.Engine.Catalog())
	}
	if e.Trace != nil {
		e.Trace.Write(ev)
	}
	if e.OnCall != nil {
		e.OnCall(c.Op, res["err"].(bool))
	}
	return ev
}

func docIDs(state V, ns string) []V {
	var out []V
	if n, ok := state[ns].(V); ok {
		for _, d := range n["docs"].([]interface{}) {
			f := d.(V)["f"].([]interface{})
			for _, kv := range f {
				p := kv.([]interface{})
				if p[0] == "_id" {
					out = append(out, p[1].(V))
				}
			}
		}
	}
	return out
}

func newObjectID(pre, post V, ns string) V {
	old := map[string]bool{}
	for _, id := range docIDs(pre, ns) {
		if id["t"] == "oid" {
			old[id["s"].(string)] = true
		}
	}
	for _, id := range docIDs(post, ns) {
		if id["t"] == "oid" && !old[id["s"].(string)] {
			return id
		}
	}
	return nil
}

// ---- argument helpers ----

func (e *Env) docArg(d bson.D) interface{} {
	if d == nil {
		return e.T.Val(bson.D{})
	}
	return e.T.Val(d)
}

func (e *Env) optDoc(d bson.D) interface{} {
	if d == nil {
		return missing
	}
	return e.T.Val(d)
}

func (e *Env) list(ds []bson.D) []interface{} {
	o := make([]interface{}, 0, len(ds))
	for _, d := range ds {
		o = append(o, e.T.Val(d))
	}
	return o
}

func afsOpt(afs []bson.D) options.ArrayFilters {
	fl := make([]interface{}, 0, len(afs))
	for _, f := range afs {
		fl = append(fl, f)
	}
	return options.ArrayFilters{Filters: fl}
}

func (e *Env) genOf(id interface{}) interface{} {
	if oid, ok := id.(primitive.ObjectID); ok {
		return e.T.Val(oid)
	}
	return missing
}

func counts(ins, mat, mod, del, ups int64) V {
	return V{"inserted": int(ins), "matched": int(mat), "modified": int(mod), "deleted": int(del), "upserted": int(ups)}
}

// ---- the calls ----

// InsertOne ...
func (e *Env) InsertOne(ns string, doc bson.D) Call {
	a := V{"doc": e.T.Val(doc), "gen": missing}
	return Call{Op: "insertOne", NS: ns, A: a, Args: []interface{}{doc}, Run: func(e *Env) V {
		res, err := e.coll(ns).InsertOne(e.Ctx, doc)
		if err != nil {
			return errRes(err)
		}
		e.Rets = append(e.Rets, res.InsertedID)
		r := baseRes()
		r["n"] = counts(1, 0, 0, 0, 0)
		r["ids"] = []interface{}{e.T.Val(res.InsertedID)}
		a["gen"] = e.genOf(res.InsertedID)
		return r
	}}
}

// InsertMany ...
func (e *Env) InsertMany(ns string, docs []bson.D, ordered bool) Call {
	a := V{"docs": e.list(docs), "ordered": ordered, "gen": missing}
	return Call{Op: "insertMany", NS: ns, A: a, Args: []interface{}{docs}, Run: func(e *Env) V {
		l := make([]interface{}, 0, len(docs))
		for _, d := range docs {
			l = append(l, d)
		}
		res, err := e.coll(ns).InsertMany(e.Ctx, l, options.InsertMany().SetOrdered(ordered))
		r := baseRes()
		if err != nil {
			r = errRes(err)
		}
		if res != nil {
			e.Rets = append(e.Rets, res.InsertedIDs)
			ids := []interface{}{}
			for _, id := range res.InsertedIDs {
				ids = append(ids, e.T.Val(id))
			}
			r["ids"] = ids
		}
		return r
	}}
}

// Update is UpdateOne / UpdateMany.
func (e *Env) Update(ns string, many bool, q, upd bson.D, upsert bool, afs []bson.D) Call {
	op := "updateOne"
	if many {
		op = "updateMany"
	}
	a := V{"q": e.T.Val(q), "upd": e.T.Val(upd), "upsert": upsert, "afs": e.list(afs), "gen": missing}
	return Call{Op: op, NS: ns, A: a, Args: []interface{}{q, upd, afs}, Run: func(e *Env) V {
		o := options.Update().SetUpsert(upsert)
		if len(afs) > 0 {
			o.SetArrayFilters(afsOpt(afs))
		}
		var res *mongo.UpdateResult
		var err error
		if many {
			res, err = e.coll(ns).UpdateMany(e.Ctx, q, upd, o)
		} else {
			res, err = e.coll(ns).UpdateOne(e.Ctx, q, upd, o)
		}
		if err != nil {
			return errRes(err)
		}
		r := baseRes()
		r["n"] = counts(0, res.MatchedCount, res.ModifiedCount, 0, res.UpsertedCount)
		if res.UpsertedID != nil {
			e.Rets = append(e.Rets, res.UpsertedID)
			r["upid"] = e.T.Val(res.UpsertedID)
			a["gen"] = e.genOf(res.UpsertedID)
		}
		return r
	}}
}

// ReplaceOne ...
func (e *Env) ReplaceOne(ns string, q, repl bson.D, upsert bool) Call {
	a := V{"q": e.T.Val(q), "repl": e.T.Val(repl), "upsert": upsert, "gen": missing}
	return Call{Op: "replaceOne", NS: ns, A: a, Args: []interface{}{q, repl}, Run: func(e *Env) V {
		res, err := e.coll(ns).ReplaceOne(e.Ctx, q, repl, options.Replace().SetUpsert(upsert))
		if err != nil {
			return errRes(err)
		}
		r := baseRes()
		r["n"] = counts(0, res.MatchedCount, res.ModifiedCount, 0, res.UpsertedCount)
		if res.UpsertedID != nil {
			r["upid"] = e.T.Val(res.UpsertedID)
			a["gen"] = e.genOf(res.UpsertedID)
		}
		return r
	}}
}

// Delete is DeleteOne / DeleteMany.
func (e *Env) Delete(ns string, many bool, q bson.D) Call {
	op := "deleteOne"
	if many {
		op = "deleteMany"
	}
	return Call{Op: op, NS: ns, A: V{"q": e.T.Val(q)}, Args: []interface{}{q}, Run: func(e *Env) V {
		var res *mongo.DeleteResult
		var err error
		if many {
			res, err = e.coll(ns).DeleteMany(e.Ctx, q)
		} else {
			res, err = e.coll(ns).DeleteOne(e.Ctx, q)
		}
		if err != nil {
			return errRes(err)
		}
		r := baseRes()
		r["n"] = counts(0, 0, 0, res.DeletedCount, 0)
		return r
	}}
}

func (e *Env) singleRes(sr lungo.ISingleResult) V {
	var d bson.D
	err := sr.Decode(&d)
	if err == mongo.ErrNoDocuments {
		return baseRes()
	}
	if err != nil {
		return errRes(err)
	}
	e.Rets = append(e.Rets, d)
	r := baseRes()
	r["docs"] = []interface{}{e.T.Val(d)}
	return r
}

// FindOneAndUpdate ...
func (e *Env) FindOneAndUpdate(ns string, q, upd, srt, proj bson.D, upsert, after bool, afs []bson.D) Call {
	a := V{"q": e.T.Val(q), "upd": e.T.Val(upd), "sort": e.docArg(srt), "proj": e.optDoc(proj), "upsert": upsert, "after": after, "afs": e.list(afs), "gen": missing}
	return Call{Op: "findOneAndUpdate", NS: ns, A: a, Args: []interface{}{q, upd, srt, proj, afs}, Run: func(e *Env) V {
		o := options.FindOneAndUpdate().SetUpsert(upsert)
		if after {
			o.SetReturnDocument(options.After)
		}
		if srt != nil {
			o.SetSort(srt)
		}
		if proj != nil {
			o.SetProjection(proj)
		}
		if len(afs) > 0 {
			o.SetArrayFilters(afsOpt(afs))
		}
		return e.singleRes(e.coll(ns).FindOneAndUpdate(e.Ctx, q, upd, o))
	}}
}

// FindOneAndReplace ...
func (e *Env) FindOneAndReplace(ns string, q, repl, srt, proj bson.D, upsert, after bool) Call {
	a := V{"q": e.T.Val(q), "repl": e.T.Val(repl), "sort": e.docArg(srt), "proj": e.optDoc(proj), "upsert": upsert, "after": after, "gen": missing}
	return Call{Op: "findOneAndReplace", NS: ns, A: a, Args: []interface{}{q, repl, srt, proj}, Run: func(e *Env) V {
		o := options.FindOneAndReplace().SetUpsert(upsert)
		if after {
			o.SetReturnDocument(options.After)
		}
		if srt != nil {
			o.SetSort(srt)
		}
		if proj != nil {
			o.SetProjection(proj)
		}
		return e.singleRes(e.coll(ns).FindOneAndReplace(e.Ctx, q, repl, o))
	}}
}

// FindOneAndDelete ...
func (e *Env) FindOneAndDelete(ns string, q, srt, proj bson.D) Call {
	a := V{"q": e.T.Val(q), "sort": e.docArg(srt), "proj": e.optDoc(proj), "after": false}
	return Call{Op: "findOneAndDelete", NS: ns, A: a, Args: []interface{}{q, srt, proj}, Run: func(e *Env) V {
		o := options.FindOneAndDelete()
		if srt != nil {
			o.SetSort(srt)
		}
		if proj != nil {
			o.SetProjection(proj)
		}
		return e.singleRes(e.coll(ns).FindOneAndDelete(e.Ctx, q, o))
	}}
}

// Find ...
func (e *Env) Find(ns string, q, srt, proj bson.D, skip, limit int) Call {
	a := V{"q": e.T.Val(q), "sort": e.docArg(srt), "proj": e.optDoc(proj), "skip": skip, "limit": limit}
	return Call{Op: "find", NS: ns, A: a, Args: []interface{}{q, srt, proj}, Run: func(e *Env) V {
		o := options.Find().SetSkip(int64(skip)).SetLimit(int64(limit))
		if srt != nil {
			o.SetSort(srt)
		}
		if proj != nil {
			o.SetProjection(proj)
		}
		cur, err := e.coll(ns).Find(e.Ctx, q, o)
		if err != nil {
			return errRes(err)
		}
		var ds []bson.D
		if err := cur.All(e.Ctx, &ds); err != nil {
			return errRes(err)
		}
		e.Rets = append(e.Rets, ds)
		r := baseRes()
		r["docs"] = e.list(ds)
		return r
	}}
}

// Count ...
func (e *Env) Count(ns string, q bson.D, skip, limit int) Call {
	a := V{"q": e.T.Val(q), "sort": e.docArg(nil), "proj": missing, "skip": skip, "limit": limit}
	return Call{Op: "count", NS: ns, A: a, Run: func(e *Env) V {
		n, err := e.coll(ns).CountDocuments(e.Ctx, q, options.Count().SetSkip(int64(skip)).SetLimit(int64(limit)))
		if err != nil {
			return errRes(err)
		}
		r := baseRes()
		r["count"] = int(n)
		return r
	}}
}

// EstimatedCount ...
func (e *Env) EstimatedCount(ns string) Call {
	return Call{Op: "estimatedCount", NS: ns, A: V{}, Run: func(e *Env) V {
		n, err := e.coll(ns).EstimatedDocumentCount(e.Ctx)
		if err != nil {
			return errRes(err)
		}
		r := baseRes()
		r["count"] = int(n)
		return r
	}}
}

// Distinct ...
func (e *Env) Distinct(ns, path string, q bson.D) Call {
	e.T.Add(path)
	return Call{Op: "distinct", NS: ns, A: V{"q": e.T.Val(q), "path": path}, Args: []interface{}{q}, Run: func(e *Env) V {
		vs, err := e.coll(ns).Distinct(e.Ctx, path, q)
		if err != nil {
			return errRes(err)
		}
		e.Rets = append(e.Rets, vs)
		r := baseRes()
		l := []interface{}{}
		for _, v := range vs {
			l = append(l, e.T.Val(v))
		}
		r["vals"] = l
		return r
	}}
}

// Model is one bulk write model.
type Model struct {
	Kind   string // insert replace update delete
	Q, Doc bson.D
	Upsert bool
	Many   bool
	Afs    []bson.D
}

// BulkWrite ...
func (e *Env) BulkWrite(ns string, models []Model, ordered bool) Call {
	ml := []interface{}{}
	for _, m := range models {
		ml = append(ml, V{"kind": m.Kind, "q": e.docArg(m.Q), "doc": e.docArg(m.Doc), "upsert": m.Upsert, "many": m.Many, "sort": e.docArg(nil), "afs": e.list(m.Afs)})
	}
	a := V{"models": ml, "ordered": ordered, "gen": missing}
	return Call{Op: "bulkWrite", NS: ns, A: a, Run: func(e *Env) V {
		var wm []mongo.WriteModel
		for _, m := range models {
			switch m.Kind {
			case "insert":
				wm = append(wm, mongo.NewInsertOneModel().SetDocument(m.Doc))
			case "replace":
				wm = append(wm, mongo.NewReplaceOneModel().SetFilter(m.Q).SetReplacement(m.Doc).SetUpsert(m.Upsert))
			case "update":
				if m.Many {
					x := mongo.NewUpdateManyModel().SetFilter(m.Q).SetUpdate(m.Doc).SetUpsert(m.Upsert)
					if len(m.Afs) > 0 {
						x.SetArrayFilters(afsOpt(m.Afs))
					}
					wm = append(wm, x)
				} else {
					x := mongo.NewUpdateOneModel().SetFilter(m.Q).SetUpdate(m.Doc).SetUpsert(m.Upsert)
					if len(m.Afs) > 0 {
						x.SetArrayFilters(afsOpt(m.Afs))
					}
					wm = append(wm, x)
				}
			case "delete":
				if m.Many {
					wm = append(wm, mongo.NewDeleteManyModel().SetFilter(m.Q))
				} else {
					wm = append(wm, mongo.NewDeleteOneModel().SetFilter(m.Q))
				}
			}
		}
		res, err := e.coll(ns).BulkWrite(e.Ctx, wm, options.BulkWrite().SetOrdered(ordered))
		r := baseRes()
		if err != nil {
			r = errRes(err)
		}
		if res != nil {
			r["n"] = counts(res.InsertedCount, res.MatchedCount, res.ModifiedCount, res.DeletedCount, res.UpsertedCount)
			keys := make([]int, 0, len(res.UpsertedIDs))
			for k := range res.UpsertedIDs {
				keys = append(keys, int(k))
			}
			sort.Ints(keys)
			ids := []interface{}{}
			for _, k := range keys {
				ids = append(ids, e.T.Val(res.UpsertedIDs[int64(k)]))
				if g, ok := a["gen"].(V); ok && g["t"] == "missing" {
					a["gen"] = e.genOf(res.UpsertedIDs[int64(k)])
				}
			}
			r["ids"] = ids
		}
		return r
	}}
}

// IndexSpec describes an index to create.
type IndexSpec struct {
	Key     bson.D
	Name    string
	Unique  bool
	Partial bson.D
	Expire  int // seconds, -1 none
}

// CreateIndex ...
func (e *Env) CreateIndex(ns string, s IndexSpec) Call {
	e.T.Add(s.Name)
	a := V{"key": e.T.Val(s.Key), "name": s.Name, "unique": s.Unique, "partial": e.optDoc(s.Partial), "exp": s.Expire}
	return Call{Op: "createIndex", NS: ns, A: a, Run: func(e *Env) V {
		o := options.Index()
		if s.Name != "" {
			o.SetName(s.Name)
		}
		if s.Unique {
			o.SetUnique(true)
		}
		if s.Partial != nil {
			o.SetPartialFilterExpression(s.Partial)
		}
		if s.Expire >= 0 {
			o.SetExpireAfterSeconds(int32(s.Expire))
		}
		name, err := e.coll(ns).Indexes().CreateOne(e.Ctx, mongo.IndexModel{Keys: s.Key, Options: o})
		if err != nil {
			return errRes(err)
		}
		e.T.Add(name)
		r := baseRes()
		r["names"] = []interface{}{name}
		return r
	}}
}

func indexModel(s IndexSpec) mongo.IndexModel {
	o := options.Index()
	if s.Name != "" {
		o.SetName(s.Name)
	}
	if s.Unique {
		o.SetUnique(true)
	}
	if s.Partial != nil {
		o.SetPartialFilterExpression(s.Partial)
	}
	if s.Expire >= 0 {
		o.SetExpireAfterSeconds(int32(s.Expire))
	}
	return mongo.IndexModel{Keys: s.Key, Options: o}
}

// CreateIndexes is IndexView.CreateMany: several indexes in one call.
func (e *Env) CreateIndexes(ns string, specs []IndexSpec) Call {
	sl := []interface{}{}
	for _, s := range specs {
		e.T.Add(s.Name)
		sl = append(sl, V{"key": e.T.Val(s.Key), "name": s.Name, "unique": s.Unique, "partial": e.optDoc(s.Partial), "exp": s.Expire})
	}
	return Call{Op: "createIndexes", NS: ns, A: V{"specs": sl}, Run: func(e *Env) V {
		models := []mongo.IndexModel{}
		for _, s := range specs {
			models = append(models, indexModel(s))
		}
		names, err := e.coll(ns).Indexes().CreateMany(e.Ctx, models)
		if err != nil {
			return errRes(err)
		}
		r := baseRes()
		nl := []interface{}{}
		for _, n := range names {
			e.T.Add(n)
			nl = append(nl, n)
		}
		r["names"] = nl
		return r
	}}
}

// UpdateByID is UpdateOne with the filter {_id: id}.
func (e *Env) UpdateByID(ns string, id interface{}, upd bson.D) Call {
	c := e.Update(ns, false, bson.D{{Key: "_id", Value: id}}, upd, false, nil)
	inner := c.Run
	c.Run = func(e *Env) V {
		res, err := e.coll(ns).UpdateByID(e.Ctx, id, upd)
		if err != nil {
			return errRes(err)
		}
		_ = inner
		r := baseRes()
		r["n"] = counts(0, res.MatchedCount, res.ModifiedCount, 0, res.UpsertedCount)
		return r
	}
	return c
}

// DropIndex ...
func (e *Env) DropIndex(ns, name string) Call {
	e.T.Add(name)
	return Call{Op: "dropIndex", NS: ns, A: V{"name": name}, Run: func(e *Env) V {
		_, err := e.coll(ns).Indexes().DropOne(e.Ctx, name)
		if err != nil {
			return errRes(err)
		}
		return baseRes()
	}}
}

// DropIndexByKey ...
func (e *Env) DropIndexByKey(ns string, key bson.D) Call {
	return Call{Op: "dropIndexByKey", NS: ns, A: V{"key": e.docArg(key)}, Run: func(e *Env) V {
		_, err := e.coll(ns).Indexes().DropOneWithKey(e.Ctx, key)
		if err != nil {
			return errRes(err)
		}
		return baseRes()
	}}
}

// DropAllIndexes ...
func (e *Env) DropAllIndexes(ns string) Call {
	return Call{Op: "dropAllIndexes", NS: ns, A: V{}, Run: func(e *Env) V {
		_, err := e.coll(ns).Indexes().DropAll(e.Ctx)
		if err != nil {
			return errRes(err)
		}
		return baseRes()
	}}
}

// ListIndexes ...
func (e *Env) ListIndexes(ns string) Call {
	return Call{Op: "listIndexes", NS: ns, A: V{}, Run: func(e *Env) V {
		cur, err := e.coll(ns).Indexes().List(e.Ctx)
		if err != nil {
			return errRes(err)
		}
		var ds []bson.D
		if err := cur.All(e.Ctx, &ds); err != nil {
			return errRes(err)
		}
		r := baseRes()
		r["count"] = len(ds)
		return r
	}}
}

// DropCollection ...
func (e *Env) DropCollection(ns string) Call {
	return Call{Op: "drop", NS: ns, A: V{}, Run: func(e *Env) V {
		if err := e.coll(ns).Drop(e.Ctx); err != nil {
			return errRes(err)
		}
		return baseRes()
	}}
}

// CreateCollection ...
func (e *Env) CreateCollection(ns string) Call {
	return Call{Op: "createCollection", NS: ns, A: V{}, Run: func(e *Env) V {
		p := strings.SplitN(ns, ".", 2)
		if err := e.Client.Database(p[0]).CreateCollection(e.Ctx, p[1]); err != nil {
			return errRes(err)
		}
		return baseRes()
	}}
}

// DropDatabase ...
func (e *Env) DropDatabase(db string) Call {
	return Call{Op: "dropDatabase", NS: db, A: V{}, Run: func(e *Env) V {
		if err := e.Client.Database(db).Drop(e.Ctx); err != nil {
			return errRes(err)
		}
		return baseRes()
	}}
}

// ListCollections ...
func (e *Env) ListCollections(db string) Call {
	return Call{Op: "listCollections", NS: db, A: V{}, Run: func(e *Env) V {
		names, err := e.Client.Database(db).ListCollectionNames(e.Ctx, bson.D{})
		if err != nil {
			return errRes(err)
		}
		r := baseRes()
		r["count"] = len(names)
		return r
	}}
}

// RunOnly performs a call without observing the engine (concurrent drivers observe
// through hooks); a panic is reported as a finding and yields nil.
func (e *Env) RunOnly(c Call) (res V) {
	defer func() {
		if r := recover(); r != nil {
			e.finding("panic", fmt.Sprintf("%s panics: %v", c.Op, r), V{"op": c.Op, "ns": c.NS, "a": c.A})
			res = nil
		}
	}()
	return c.Run(e)
}

// ObsCache memoises catalog dumps by pointer (catalogs are immutable once published).
type ObsCache struct {
	e *Env
	m map[*lungo.Catalog][3]interface{}
}

// NewObsCache ...
func NewObsCache(e *Env) *ObsCache { return &ObsCache{e: e, m: map[*lungo.Catalog][3]interface{}{}} }

// Get returns (state, events, ts) of the catalog.
func (o *ObsCache) Get(c *lungo.Catalog) (V, []interface{}, []interface{}) {
	if x, ok := o.m[c]; ok {
		return x[0].(V), x[1].([]interface{}), x[2].([]interface{})
	}
	st, evs, ts := o.e.Obs(c)
	o.m[c] = [3]interface{}{st, evs, ts}
	return st, evs, ts
}

// EmitCall writes a call event whose pre/post states are the given catalogs.
func (e *Env) EmitCall(o *ObsCache, c Call, res V, pre, post *lungo.Catalog, actor string, extra V) {
	preSt, preEv, _ := o.Get(pre)
	postSt, postEv, ts := o.Get(post)
	delta := []interface{}{}
	if len(postEv) >= len(preEv) {
		delta = append(delta, postEv[len(preEv):]...)
	}
	if g, ok := c.A["gen"]; ok {
		if gm, ok := g.(V); ok && gm["t"] == "missing" {
			if id := newObjectID(preSt, postSt, c.NS); id != nil {
				c.A["gen"] = id
			}
		}
	}
	e.T.Add(c.NS)
	e.Step++
	ev := V{"fn": "call", "hist": e.Hist, "step": e.Step, "op": c.Op, "ns": c.NS, "a": c.A, "pre": preSt, "res": res, "post": postSt, "ev": delta, "ts": ts, "actor": actor}
	for k, v := range extra {
		ev[k] = v
	}
	e.Trace.Write(ev)
}

// MongoIndex builds an index model.
func MongoIndex(key bson.D, unique bool, partial bson.D) mongo.IndexModel {
	o := options.Index()
	if unique {
		o.SetUnique(true)
	}
	if partial != nil {
		o.SetPartialFilterExpression(partial)
	}
	return mongo.IndexModel{Keys: key, Options: o}
}

// EmitSeq writes a transaction (a sequence of calls committed or discarded together) as one event.
func (e *Env) EmitSeq(o *ObsCache, calls []Call, results []V, pre, post *lungo.Catalog, committed bool) {
	preSt, preEv, _ := o.Get(pre)
	postSt, postEv, ts := o.Get(post)
	delta := []interface{}{}
	if len(postEv) >= len(preEv) {
		delta = append(delta, postEv[len(preEv):]...)
	}
	cl := []interface{}{}
	for i, c := range calls {
		if results[i] == nil {
			return
		}
		e.T.Add(c.NS)
		cl = append(cl, V{"op": c.Op, "ns": c.NS, "a": c.A, "res": results[i]})
	}
	e.Step++
	e.Trace.Write(V{"fn": "txnseq", "hist": e.Hist, "step": e.Step, "calls": cl, "pre": preSt, "post": postSt, "ev": delta, "ts": ts, "committed": committed})
}
