package dbt

import (
	"reflect"

	"go.mongodb.org/mongo-driver/bson"
	"go.mongodb.org/mongo-driver/bson/primitive"
	"go.mongodb.org/mongo-driver/mongo"
	"go.mongodb.org/mongo-driver/mongo/options"
)

// Aliasing scenarios (C17): every call kind is made with arguments built from nested
// bson.D / bson.M / bson.A / binary values.  After the call (1) the arguments must
// still equal a deep copy taken before, (2) every container position of every
// argument is overwritten and (3) every returned value is overwritten; after (2) and
// (3) the complete engine state (BSON bytes of every document of every namespace,
// the change log included, plus the observed state) is recorded as a "mutate" event
// whose before and after must be identical.

func deepCopy(v interface{}) interface{} {
	switch x := v.(type) {
	case bson.D:
		if x == nil {
			return x
		}
		o := make(bson.D, len(x))
		for i := range x {
			o[i] = bson.E{Key: x[i].Key, Value: deepCopy(x[i].Value)}
		}
		return o
	case *bson.D:
		if x == nil {
			return x
		}
		o := deepCopy(*x).(bson.D)
		return &o
	case bson.M:
		o := bson.M{}
		for k, val := range x {
			o[k] = deepCopy(val)
		}
		return o
	case bson.A:
		if x == nil {
			return x
		}
		o := make(bson.A, len(x))
		for i := range x {
			o[i] = deepCopy(x[i])
		}
		return o
	case []interface{}:
		o := make([]interface{}, len(x))
		for i := range x {
			o[i] = deepCopy(x[i])
		}
		return o
	case []bson.D:
		if x == nil {
			return x
		}
		o := make([]bson.D, len(x))
		for i := range x {
			o[i] = deepCopy(x[i]).(bson.D)
		}
		return o
	case primitive.Binary:
		return primitive.Binary{Subtype: x.Subtype, Data: append([]byte{}, x.Data...)}
	case []byte:
		return append([]byte{}, x...)
	default:
		return v
	}
}

// Scribble overwrites every container position reachable from v, in place.
func Scribble(v interface{}) {
	switch x := v.(type) {
	case bson.D:
		for i := range x {
			Scribble(x[i].Value)
			x[i].Value = "SCRIBBLED"
			x[i].Key = "scribbled"
		}
	case *bson.D:
		if x != nil {
			Scribble(*x)
		}
	case bson.M:
		for k, val := range x {
			Scribble(val)
			x[k] = "SCRIBBLED"
		}
		x["scribbled"] = int32(1)
	case bson.A:
		for i := range x {
			Scribble(x[i])
			x[i] = "SCRIBBLED"
		}
	case []interface{}:
		for i := range x {
			Scribble(x[i])
			x[i] = "SCRIBBLED"
		}
	case []bson.D:
		for i := range x {
			Scribble(x[i])
		}
	case []bson.M:
		for i := range x {
			Scribble(x[i])
		}
	case map[int64]interface{}:
		for k, val := range x {
			Scribble(val)
			x[k] = "SCRIBBLED"
		}
	case primitive.Binary:
		for i := range x.Data {
			x.Data[i] ^= 0xff
		}
	case []byte:
		for i := range x {
			x[i] ^= 0xff
		}
	}
}

type aliasCase struct {
	name string
	// run performs the call with the given arguments and returns the values handed back
	args func() []interface{}
	run  func(e *Env, args []interface{}) []interface{}
}

func nestedDoc(id interface{}) bson.D {
	return bson.D{{Key: "_id", Value: id}, {Key: "a", Value: bson.A{int32(1), bson.D{{Key: "b", Value: bson.A{int32(2), int32(3)}}}, bson.M{"m": bson.A{int32(4)}}}},
		{Key: "d", Value: bson.D{{Key: "e", Value: bson.D{{Key: "f", Value: bson.A{"x", "y"}}}}}}, {Key: "bin", Value: primitive.Binary{Subtype: 0, Data: []byte{1, 2, 3}}},
		{Key: "m", Value: bson.M{"k": bson.D{{Key: "z", Value: int32(1)}}}}, {Key: "n", Value: int32(1)}}
}

func (e *Env) snapshot() V {
	st, evs, _ := e.Obs(nil)
	return V{"state": st, "log": evs, "tok": e.tokens()}
}

func (e *Env) mutateEvent(op, what string, pre V) {
	e.Step++
	e.Trace.Write(V{"fn": "mutate", "hist": e.Hist, "step": e.Step, "op": op, "what": what, "pre": pre, "post": e.snapshot()})
}

// AliasScenarios runs every call kind.
func AliasScenarios(e *Env) int {
	ns := "d.al"
	c := e.coll(ns)
	ctx := e.Ctx
	docID := func(n int32) bson.D { return bson.D{{Key: "k", Value: bson.A{n, bson.D{{Key: "q", Value: n}}}}} }
	cases := []aliasCase{
		{"InsertOne", func() []interface{} { return []interface{}{nestedDoc(docID(1))} }, func(e *Env, a []interface{}) []interface{} {
			r, err := c.InsertOne(ctx, a[0])
			if err != nil {
				return nil
			}
			return []interface{}{r.InsertedID}
		}},
		{"InsertOne(bson.M)", func() []interface{} {
			return []interface{}{bson.M{"_id": bson.M{"k": bson.A{int32(2)}}, "a": bson.A{bson.M{"b": bson.A{int32(1)}}}, "bin": primitive.Binary{Data: []byte{9, 9}}}}
		}, func(e *Env, a []interface{}) []interface{} {
			r, err := c.InsertOne(ctx, a[0])
			if err != nil {
				return nil
			}
			return []interface{}{r.InsertedID}
		}},
		{"InsertMany", func() []interface{} { return []interface{}{[]interface{}{nestedDoc(docID(3)), nestedDoc(docID(4)), nestedDoc(int32(5))}} }, func(e *Env, a []interface{}) []interface{} {
			r, err := c.InsertMany(ctx, a[0].([]interface{}))
			if r == nil || err != nil {
				return nil
			}
			return []interface{}{r.InsertedIDs}
		}},
		{"Find", func() []interface{} {
			return []interface{}{bson.D{{Key: "a", Value: bson.D{{Key: "$elemMatch", Value: bson.D{{Key: "b", Value: bson.D{{Key: "$exists", Value: true}}}}}}}}, bson.D{{Key: "n", Value: int32(1)}}, bson.D{{Key: "a", Value: int32(1)}, {Key: "d", Value: int32(1)}}}
		}, func(e *Env, a []interface{}) []interface{} {
			cur, err := c.Find(ctx, a[0], options.Find().SetSort(a[1]).SetProjection(a[2]))
			if err != nil {
				return nil
			}
			var ds []bson.D
			cur.All(ctx, &ds)
			var ms []bson.M
			cur2, _ := c.Find(ctx, bson.D{})
			if cur2 != nil {
				cur2.All(ctx, &ms)
			}
			return []interface{}{ds, ms}
		}},
		{"Find(exclusion)", func() []interface{} {
			return []interface{}{bson.D{}, bson.D{{Key: "d.e.f", Value: int32(0)}, {Key: "m.k", Value: int32(0)}}, bson.D{{Key: "d.e.f", Value: bson.D{{Key: "$slice", Value: int32(1)}}}}}
		}, func(e *Env, a []interface{}) []interface{} {
			var ds, ds2 []bson.D
			if cur, err := c.Find(ctx, a[0], options.Find().SetProjection(a[1])); err == nil {
				cur.All(ctx, &ds)
			}
			if cur, err := c.Find(ctx, a[0], options.Find().SetProjection(a[2])); err == nil {
				cur.All(ctx, &ds2)
			}
			var one bson.D
			c.FindOne(ctx, a[0], options.FindOne().SetProjection(a[1])).Decode(&one)
			return []interface{}{ds, ds2, one}
		}},
		{"FindOne", func() []interface{} { return []interface{}{bson.M{"n": bson.M{"$in": bson.A{int32(1), int32(2)}}}} }, func(e *Env, a []interface{}) []interface{} {
			var d1 bson.D
			var raw bson.Raw
			c.FindOne(ctx, a[0]).Decode(&d1)
			raw, _ = c.FindOne(ctx, a[0]).DecodeBytes()
			return []interface{}{d1, []byte(raw)}
		}},
		{"Distinct", func() []interface{} { return []interface{}{bson.D{{Key: "n", Value: bson.D{{Key: "$gte", Value: int32(0)}}}}} }, func(e *Env, a []interface{}) []interface{} {
			v1, _ := c.Distinct(ctx, "a", a[0])
			v2, _ := c.Distinct(ctx, "d", a[0])
			v3, _ := c.Distinct(ctx, "_id", a[0])
			v4, _ := c.Distinct(ctx, "bin", a[0])
			v5, _ := c.Distinct(ctx, "d.e.f", a[0])
			return []interface{}{v1, v2, v3, v4, v5}
		}},
		{"UpdateOne", func() []interface{} {
			return []interface{}{bson.D{{Key: "_id", Value: docID(1)}}, bson.D{{Key: "$set", Value: bson.D{{Key: "s", Value: bson.D{{Key: "t", Value: bson.A{int32(1), bson.D{{Key: "u", Value: int32(2)}}}}}}}}, {Key: "$push", Value: bson.M{"a": bson.D{{Key: "$each", Value: bson.A{bson.D{{Key: "p", Value: bson.A{int32(7)}}}}}}}}}}
		}, func(e *Env, a []interface{}) []interface{} {
			r, err := c.UpdateOne(ctx, a[0], a[1])
			if err != nil {
				return nil
			}
			return []interface{}{r.UpsertedID}
		}},
		{"UpdateMany+arrayFilters", func() []interface{} {
			return []interface{}{bson.D{}, bson.D{{Key: "$set", Value: bson.D{{Key: "a.$[x].b", Value: bson.A{bson.D{{Key: "w", Value: int32(1)}}}}}}}, []interface{}{bson.D{{Key: "x.b", Value: bson.D{{Key: "$exists", Value: true}}}}}}
		}, func(e *Env, a []interface{}) []interface{} {
			c.UpdateMany(ctx, a[0], a[1], options.Update().SetArrayFilters(options.ArrayFilters{Filters: a[2].([]interface{})}))
			return nil
		}},
		{"Upsert(UpdateOne)", func() []interface{} {
			return []interface{}{bson.D{{Key: "_id", Value: docID(20)}, {Key: "g", Value: bson.D{{Key: "$eq", Value: bson.D{{Key: "h", Value: bson.A{int32(1)}}}}}}}, bson.D{{Key: "$set", Value: bson.D{{Key: "s", Value: bson.A{bson.D{{Key: "t", Value: int32(1)}}}}}}}}
		}, func(e *Env, a []interface{}) []interface{} {
			r, err := c.UpdateOne(ctx, a[0], a[1], options.Update().SetUpsert(true))
			if err != nil {
				return nil
			}
			return []interface{}{r.UpsertedID}
		}},
		{"ReplaceOne(upsert)", func() []interface{} {
			return []interface{}{bson.D{{Key: "_id", Value: docID(21)}}, bson.D{{Key: "r", Value: bson.A{bson.D{{Key: "t", Value: bson.A{int32(1)}}}}}}}
		}, func(e *Env, a []interface{}) []interface{} {
			r, err := c.ReplaceOne(ctx, a[0], a[1], options.Replace().SetUpsert(true))
			if err != nil {
				return nil
			}
			return []interface{}{r.UpsertedID}
		}},
		{"ReplaceOne", func() []interface{} { return []interface{}{bson.D{{Key: "_id", Value: docID(3)}}, nestedDoc(docID(3))} }, func(e *Env, a []interface{}) []interface{} {
			c.ReplaceOne(ctx, a[0], a[1])
			return nil
		}},
		{"FindOneAndUpdate", func() []interface{} {
			return []interface{}{bson.D{{Key: "_id", Value: docID(4)}}, bson.D{{Key: "$set", Value: bson.D{{Key: "v", Value: bson.A{bson.D{{Key: "w", Value: int32(1)}}}}}}}}
		}, func(e *Env, a []interface{}) []interface{} {
			var before, after bson.D
			c.FindOneAndUpdate(ctx, a[0], a[1]).Decode(&before)
			c.FindOneAndUpdate(ctx, a[0], a[1], options.FindOneAndUpdate().SetReturnDocument(options.After)).Decode(&after)
			return []interface{}{before, after}
		}},
		{"FindOneAndReplace", func() []interface{} { return []interface{}{bson.D{{Key: "_id", Value: int32(5)}}, nestedDoc(int32(5))} }, func(e *Env, a []interface{}) []interface{} {
			var d1 bson.D
			c.FindOneAndReplace(ctx, a[0], a[1], options.FindOneAndReplace().SetReturnDocument(options.After)).Decode(&d1)
			return []interface{}{d1}
		}},
		{"BulkWrite", func() []interface{} {
			return []interface{}{nestedDoc(docID(30)), bson.D{{Key: "_id", Value: docID(31)}}, bson.D{{Key: "$set", Value: bson.D{{Key: "z", Value: bson.A{bson.D{{Key: "y", Value: int32(1)}}}}}}}, bson.D{{Key: "_id", Value: docID(32)}}, nestedDoc(docID(32))}
		}, func(e *Env, a []interface{}) []interface{} {
			r, err := c.BulkWrite(ctx, []mongo.WriteModel{mongo.NewInsertOneModel().SetDocument(a[0]), mongo.NewUpdateOneModel().SetFilter(a[1]).SetUpdate(a[2]).SetUpsert(true),
				mongo.NewReplaceOneModel().SetFilter(a[3]).SetReplacement(a[4]).SetUpsert(true)})
			if r == nil || err != nil {
				return nil
			}
			return []interface{}{r.UpsertedIDs}
		}},
		{"CreateIndex", func() []interface{} {
			return []interface{}{bson.D{{Key: "n", Value: int32(1)}, {Key: "d.e", Value: int32(-1)}}, bson.D{{Key: "n", Value: bson.D{{Key: "$in", Value: bson.A{int32(1), int32(2)}}}}}}
		}, func(e *Env, a []interface{}) []interface{} {
			name, err := c.Indexes().CreateOne(ctx, mongo.IndexModel{Keys: a[0], Options: options.Index().SetPartialFilterExpression(a[1])})
			if err != nil {
				return nil
			}
			cur, _ := c.Indexes().List(ctx)
			var specs []bson.D
			if cur != nil {
				cur.All(ctx, &specs)
			}
			return []interface{}{name, specs} // ListSpecifications is documented as not implemented
		}},
		// arguments handed over as *bson.D: filter, update and replacement documents are copied like any other
		{"UpdateOne(*bson.D)", func() []interface{} {
			return []interface{}{&bson.D{{Key: "_id", Value: docID(50)}, {Key: "emb", Value: bson.D{{Key: "x", Value: int32(1)}, {Key: "l", Value: bson.A{int32(1)}}}}},
				&bson.D{{Key: "$set", Value: bson.D{{Key: "arr", Value: bson.A{int32(1), bson.D{{Key: "y", Value: int32(2)}}}}}}, {Key: "$inc", Value: bson.D{{Key: "emb.x", Value: int32(1)}}}},
				&bson.D{{Key: "_id", Value: docID(51)}}, &bson.D{{Key: "r", Value: bson.A{bson.D{{Key: "s", Value: int32(1)}}}}}}
		}, func(e *Env, a []interface{}) []interface{} {
			up := options.Update().SetUpsert(true)
			c.UpdateOne(ctx, a[0], a[1], up) // upsert: the embedded filter value becomes part of the stored document
			c.UpdateOne(ctx, a[2], a[1], up) // the same update document again for another document
			c.UpdateMany(ctx, bson.D{}, a[1])
			c.ReplaceOne(ctx, a[2], a[3])
			var d1 bson.D
			c.FindOneAndUpdate(ctx, a[0], a[1]).Decode(&d1)
			c.FindOneAndReplace(ctx, a[2], a[3]).Decode(&d1)
			c.InsertOne(ctx, &bson.D{{Key: "_id", Value: docID(52)}, {Key: "p", Value: bson.A{bson.D{{Key: "q", Value: int32(1)}}}}})
			return []interface{}{d1}
		}},
		// Distinct over array fields whose elements are stored out of order, one of them grown by $addToSet
		{"Distinct(array fields)", func() []interface{} { return []interface{}{bson.D{{Key: "tags", Value: bson.D{{Key: "$exists", Value: true}}}}, bson.D{{Key: "_id", Value: docID(60)}}} }, func(e *Env, a []interface{}) []interface{} {
			ct := e.coll("d.tg")
			ct.InsertOne(ctx, bson.D{{Key: "_id", Value: int32(1)}, {Key: "tags", Value: bson.A{"c", "a", "b"}}})
			before := e.snapshot()
			v1, _ := ct.Distinct(ctx, "tags", bson.D{})
			e.mutateEvent("Distinct(array fields)", "read: one document", before)
			ct.InsertOne(ctx, bson.D{{Key: "_id", Value: int32(0)}, {Key: "tags", Value: bson.A{"z"}}})
			ct.UpdateOne(ctx, bson.D{{Key: "_id", Value: int32(0)}}, bson.D{{Key: "$addToSet", Value: bson.D{{Key: "tags", Value: bson.D{{Key: "$each", Value: bson.A{"y", "x"}}}}}}})
			ct.InsertOne(ctx, bson.D{{Key: "_id", Value: int32(2)}, {Key: "tags", Value: bson.A{"a"}}})
			before = e.snapshot()
			v2, _ := ct.Distinct(ctx, "tags", a[0])
			v3, _ := ct.Distinct(ctx, "tags", bson.D{{Key: "_id", Value: int32(0)}})
			e.mutateEvent("Distinct(array fields)", "read: several documents", before)
			return []interface{}{v1, v2, v3}
		}},
		{"Find(paths below _id)", func() []interface{} {
			return []interface{}{bson.D{}, bson.D{{Key: "_id.k", Value: int32(0)}}, bson.D{{Key: "n", Value: int32(1)}, {Key: "_id.k", Value: bson.D{{Key: "$slice", Value: int32(1)}}}}}
		}, func(e *Env, a []interface{}) []interface{} {
			c.InsertOne(ctx, bson.D{{Key: "_id", Value: bson.D{{Key: "a", Value: int32(1)}, {Key: "b", Value: bson.A{int32(2)}}, {Key: "c", Value: int32(3)}}}, {Key: "n", Value: int32(1)}})
			before := e.snapshot()
			var ds, ds2, ds3 []bson.D
			if cur, err := c.Find(ctx, a[0], options.Find().SetProjection(a[1])); err == nil {
				cur.All(ctx, &ds)
			}
			if cur, err := c.Find(ctx, a[0], options.Find().SetProjection(a[2])); err == nil {
				cur.All(ctx, &ds2)
			}
			// a member in the middle of the _id taken out of the returned copy
			if cur, err := c.Find(ctx, a[0], options.Find().SetProjection(bson.D{{Key: "_id.b", Value: int32(0)}, {Key: "_id.a", Value: int32(0)}})); err == nil {
				cur.All(ctx, &ds3)
			}
			e.mutateEvent("Find(paths below _id)", "read", before)
			return []interface{}{ds, ds2, ds3}
		}},
		{"UpdateOne(path below _id)", func() []interface{} {
			return []interface{}{bson.D{{Key: "_id", Value: docID(3)}}, bson.D{{Key: "$set", Value: bson.D{{Key: "_id.k.0", Value: int32(99)}}}}, bson.D{{Key: "$set", Value: bson.D{{Key: "_id.z", Value: bson.A{int32(1)}}}}}}
		}, func(e *Env, a []interface{}) []interface{} {
			// both change the _id and are refused: nothing may change
			before := e.snapshot()
			_, err1 := c.UpdateOne(ctx, a[0], a[1])
			_, err2 := c.UpdateOne(ctx, a[0], a[2])
			if err1 != nil && err2 != nil {
				e.mutateEvent("UpdateOne(path below _id)", "refused update", before)
			}
			return nil
		}},
		{"FindOne(bytes of one result)", func() []interface{} { return []interface{}{bson.D{{Key: "_id", Value: docID(3)}}} }, func(e *Env, a []interface{}) []interface{} {
			// the bytes handed out by one accessor of a result are overwritten; the other accessors of the same result
			// and a fresh read still deliver the document
			var want, got bson.D
			c.FindOne(ctx, a[0]).Decode(&want)
			sr := c.FindOne(ctx, a[0])
			raw, err := sr.DecodeBytes()
			if err != nil {
				return nil
			}
			for i := 4; i < len(raw)-1; i++ {
				raw[i] = 0x10
			}
			raw2, err2 := sr.DecodeBytes()
			err3 := sr.Decode(&got)
			if err2 != nil || err3 != nil || !reflect.DeepEqual(got, want) || bson.Raw(raw2).Validate() != nil {
				e.finding("alias", "overwriting the bytes returned by SingleResult.DecodeBytes changed what the same result returns afterwards", V{"op": "FindOne"})
			} else {
				var again bson.D
				if bson.Unmarshal(raw2, &again) != nil || !reflect.DeepEqual(again, want) {
					e.finding("alias", "overwriting the bytes returned by SingleResult.DecodeBytes changed what the same result returns afterwards", V{"op": "FindOne"})
				}
			}
			return []interface{}{got, []byte(raw2)}
		}},
		{"DeleteOne", func() []interface{} { return []interface{}{bson.D{{Key: "_id", Value: docID(30)}}} }, func(e *Env, a []interface{}) []interface{} {
			c.DeleteOne(ctx, a[0])
			return nil
		}},
		{"FindOneAndDelete", func() []interface{} { return []interface{}{bson.M{"_id": bson.D{{Key: "k", Value: bson.A{int32(31), bson.D{{Key: "q", Value: int32(31)}}}}}}} }, func(e *Env, a []interface{}) []interface{} {
			var d1 bson.D
			c.FindOneAndDelete(ctx, a[0]).Decode(&d1)
			return []interface{}{d1}
		}},
	}
	n := 0
	for _, cs := range cases {
		args := cs.args()
		saved := deepCopy(args)
		var results []interface{}
		readOnly := cs.name == "Find" || cs.name == "FindOne" || cs.name == "Distinct" || cs.name == "Find(exclusion)"
		before := V{}
		if readOnly {
			before = e.snapshot()
		}
		func() {
			defer func() {
				if r := recover(); r != nil {
					e.finding("panic", cs.name+" panics", V{"op": cs.name})
				}
			}()
			results = cs.run(e, args)
		}()
		if readOnly {
			e.mutateEvent(cs.name, "read", before) // a read is a stuttering step as well
		}
		if !reflect.DeepEqual(saved, interface{}(args)) {
			e.finding("alias", "the call modified its arguments", V{"op": cs.name})
		}
		pre := e.snapshot()
		Scribble(args)
		e.mutateEvent(cs.name, "arguments", pre)
		pre = e.snapshot()
		for _, r := range results {
			Scribble(r)
		}
		e.mutateEvent(cs.name, "results", pre)
		n++
	}
	return n
}

// AliasHistory: after every call of a random history the arguments that were handed to the driver and the values it
// handed back are overwritten in place; the database must not notice (Mutate events), and a call must leave its
// arguments as they were.
func AliasHistory(e *Env, steps int) {
	for i := 0; i < steps; i++ {
		c := e.RandomCall()
		saved := deepCopy(c.Args)
		e.Rets = nil
		read := c.Op == "find" || c.Op == "findOne" || c.Op == "distinct" || c.Op == "count"
		before := V{}
		if read {
			before = e.snapshot()
		}
		e.Do(c)
		if read {
			e.mutateEvent(c.Op, "read", before)
		}
		if len(c.Args) > 0 && !reflect.DeepEqual(saved, interface{}(c.Args)) {
			e.finding("alias", "the call modified its arguments", V{"op": c.Op})
		}
		rets := e.Rets
		pre := e.snapshot()
		Scribble(c.Args)
		for _, a := range c.Args {
			if ds, ok := a.([]bson.D); ok {
				Scribble(ds)
			}
		}
		e.mutateEvent(c.Op, "arguments", pre)
		pre = e.snapshot()
		for _, r := range rets {
			Scribble(r)
		}
		e.mutateEvent(c.Op, "results", pre)
	}
}
