package dbt

import (
	"time"

	"go.mongodb.org/mongo-driver/bson"
	"go.mongodb.org/mongo-driver/bson/primitive"

	"github.com/256dpi/lungo"
	"github.com/256dpi/lungo/bsonkit"
	"github.com/256dpi/lungo/mongokit"
)

func mongokitIndex(key *bson.D, seconds int) mongokit.IndexConfig {
	return mongokit.IndexConfig{Key: key, Expiry: time.Duration(seconds) * time.Second}
}

// TTL scenarios (C19): collections with 0-2 TTL indexes next to other indexes; the
// indexed field holds dates on both sides of the cutoff (margins of at least 30
// minutes), other types, arrays with and without dates, or is missing.

func ttlValues(now time.Time) []interface{} {
	dt := func(t time.Time) primitive.DateTime { return primitive.NewDateTimeFromTime(t) }
	return []interface{}{
		primitive.DateTime(1000), dt(now.Add(-48 * time.Hour)), dt(now.Add(-2 * time.Hour)), dt(now.Add(-30 * time.Minute)), dt(now.Add(30 * time.Minute)),
		primitive.DateTime(4102444800000), int32(5), int64(1000), float64(1.5), "2001-01-01", nil, true, primitive.Timestamp{T: 5, I: 1},
		bson.A{primitive.DateTime(1000), int32(1)}, bson.A{dt(now.Add(time.Hour)), "x"}, bson.A{int32(1), int32(2)}, bson.A{}, bson.A{dt(now.Add(time.Hour)), dt(now.Add(-72 * time.Hour))},
		bson.A{dt(now.Add(-72 * time.Hour)), dt(now.Add(-72 * time.Hour))}, bson.A{dt(now.Add(time.Hour)), dt(now.Add(time.Hour)), int32(1), int32(1)},
		bson.D{{Key: "d", Value: primitive.DateTime(1000)}}, "missing",
	}
}

// ExpirePass runs one real expiry pass (Transaction.Expire on a locked transaction, then commit) and records it.
func (e *Env) ExpirePass() {
	pre, evsBefore, _ := e.Obs(nil)
	now := time.Now()
	old := e.Engine.Catalog() // what readers hold: the pass must not touch it (C03)
	oldDump := e.dumpCat(old)
	defer func() {
		e.Step++
		e.Trace.Write(V{"fn": "snapcheck", "hist": e.Hist, "step": e.Step, "id": 0, "kind": "catalog published before a TTL pass", "pre": oldDump, "post": e.dumpCat(old)})
	}()
	txn, err := e.Engine.Begin(e.Ctx, true)
	if err != nil {
		e.finding("expire", "Begin failed: "+err.Error(), nil)
		return
	}
	err = txn.Expire()
	dirty := txn.Dirty()
	if err != nil {
		e.Engine.Abort(txn)
		e.finding("expire", "Expire failed: "+err.Error(), nil)
		return
	}
	if err := e.Engine.Commit(txn); err != nil {
		e.finding("expire", "Commit failed: "+err.Error(), nil)
		return
	}
	e.recordExpire(pre, evsBefore, now, dirty, "pass")
}

// AbandonedPass runs Transaction.Expire and then gives the transaction up (abort, or a commit that the store
// rejects): nothing may have changed, and the documents are still there for the next pass to remove and log.
func (e *Env) AbandonedPass(failCommit bool) {
	pre, evsBefore, _ := e.Obs(nil)
	now := time.Now()
	txn, err := e.Engine.Begin(e.Ctx, true)
	if err != nil {
		e.finding("expire", "Begin failed: "+err.Error(), nil)
		return
	}
	if err = txn.Expire(); err != nil {
		e.Engine.Abort(txn)
		e.finding("expire", "Expire failed: "+err.Error(), nil)
		return
	}
	via := "aborted"
	if failCommit && e.Flaky != nil {
		via = "rejected-commit"
		e.Flaky.FailNext = true
		err = e.Engine.Commit(txn)
		e.Flaky.FailNext = false
		if err == nil {
			via = "pass" // nothing was dirty, the store was not asked: an ordinary pass
		}
	} else {
		e.Engine.Abort(txn)
	}
	e.recordExpire(pre, evsBefore, now, false, via)
}

func (e *Env) recordExpire(pre V, evsBefore []interface{}, now time.Time, dirty bool, via string) {
	post, evsAfter, ts := e.Obs(nil)
	delta := []interface{}{}
	if len(evsAfter) >= len(evsBefore) {
		delta = append(delta, evsAfter[len(evsBefore):]...)
	}
	e.Step++
	e.Trace.Write(V{"fn": "expire", "via": via, "hist": e.Hist, "step": e.Step, "now": e.T.Val(primitive.NewDateTimeFromTime(now)), "pre": pre, "post": post, "ev": delta, "ts": ts, "dirty": dirty})
}

// TTLScenarios builds the states through the driver API (validated like every other call) and runs passes.
func TTLScenarios(mk func() *Env, each func(e *Env), fileDir string) int {
	n := 0
	now := time.Now()
	vals := ttlValues(now)
	type ixset struct {
		name string
		ixs  []IndexSpec
	}
	sets := []ixset{
		{"none", []IndexSpec{{Key: d("a", int32(1)), Expire: -1}}},
		{"c3600", []IndexSpec{{Key: d("c", int32(1)), Expire: 3600}, {Key: d("a", int32(1)), Unique: true, Expire: -1}}},
		{"c0", []IndexSpec{{Key: d("c", int32(1)), Expire: 0}}},
		{"c10-e86400", []IndexSpec{{Key: d("c", int32(1)), Expire: 10}, {Key: d("e", int32(-1)), Expire: 86400}, {Key: d("a", int32(1), "b", int32(1)), Expire: -1}}},
		{"partial-ttl", []IndexSpec{{Key: d("c", int32(1)), Expire: 3600, Partial: d("a", d("$gte", int32(0))), Name: "pc"}}},
		// a partial index next to the TTL index: expired documents inside and outside its filter are removed alike
		{"c3600-beside-partial", []IndexSpec{{Key: d("c", int32(1)), Expire: 3600}, {Key: d("a", int32(1), "_id", int32(1)), Unique: true, Partial: d("a", d("$gte", int32(4))), Name: "pa2", Expire: -1},
			{Key: d("zz", int32(1)), Partial: d("zz", d("$exists", true)), Name: "pz", Expire: -1}}},
	}
	for _, set := range sets {
		for round := 0; round < 2; round++ {
			e := mk()
			if fileDir != "" && round == 1 {
				// second round on a file store: the TTL definitions must survive a reopen
				e.Close()
				e = OpenFile(e, fileDir, n)
			}
			e.Hist = n
			n++
			for _, ns := range []string{"d.c1", "d.c2"} {
				for _, ix := range set.ixs {
					if ns == "d.c2" && round == 1 {
						continue // second namespace without TTL index
					}
					e.Do(e.CreateIndex(ns, ix))
				}
				docs := []bson.D{}
				for i, v := range vals {
					doc := d("_id", int32(i), "a", int32(i%7))
					if v != "missing" {
						doc = append(doc, bson.E{Key: "c", Value: v})
					}
					// the second TTL field: a date for some documents
					if i%3 == round {
						doc = append(doc, bson.E{Key: "e", Value: primitive.NewDateTimeFromTime(now.Add(-time.Duration(i) * 6 * time.Hour))})
					}
					docs = append(docs, doc)
				}
				e.Do(e.InsertMany(ns, docs, false))
			}
			// several more collections with a TTL index but nothing to expire: the outcome of a pass
			// must not depend on which namespace is visited last
			for _, ns := range []string{"d.c3", "d.c4", "e.c5", "e.c6"} {
				e.Do(e.CreateIndex(ns, IndexSpec{Key: d("c", int32(1)), Expire: 60}))
				e.Do(e.InsertMany(ns, []bson.D{d("_id", int32(1), "c", primitive.NewDateTimeFromTime(now.Add(time.Hour))), d("_id", int32(2), "c", "old")}, true))
			}
			if e.Path != "" {
				e.Reopen()
			}
			if e.Path == "" {
				e.AbandonedPass(false)
				e.AbandonedPass(true)
			}
			e.ExpirePass()
			e.ExpirePass() // nothing left to expire: must change nothing
			e.Do(e.Count("d.c1", d(), 0, 0))
			each(e)
			e.Close()
		}
	}
	// the background loop
	e := mk()
	e.Close()
	n++
	return n
}

// BackgroundExpiry lets the engine's own expiry goroutine run (interval 50 ms) and records what it did.
func BackgroundExpiry(e0 *Env, store lungo.Store) {
	if store == nil {
		store = lungo.NewMemoryStore()
	}
	client, engine, err := lungo.Open(e0.Ctx, lungo.Options{Store: store, ExpireInterval: 50 * time.Millisecond})
	if err != nil {
		return
	}
	e := &Env{Ctx: e0.Ctx, Client: client, Engine: engine, T: e0.T, Trace: e0.Trace, G: e0.G, Hist: 9999}
	defer engine.Close()
	now := time.Now()
	// build the state in one transaction so that no pass can fall between the writes
	txn, err := engine.Begin(e.Ctx, true)
	if err != nil {
		return
	}
	docs := bsonkit.List{}
	for i, v := range ttlValues(now) {
		doc := d("_id", int32(i))
		if v != "missing" {
			doc = append(doc, bson.E{Key: "c", Value: v})
		}
		docs = append(docs, bsonkit.MustConvert(doc))
	}
	h := lungo.Handle{"d", "bg"}
	key := d("c", int32(1))
	if _, err := txn.CreateIndex(h, "", mongokitIndex(&key, 3600)); err != nil {
		engine.Abort(txn)
		return
	}
	if _, err := txn.Insert(h, docs, true); err != nil {
		engine.Abort(txn)
		return
	}
	if err := engine.Commit(txn); err != nil {
		return
	}
	// the state before the pass is what this commit published (a pass may already run while we look at it);
	// the pass is awaited by watching for the next published catalog, not by a fixed sleep
	published := txn.Catalog()
	pre, evsBefore, _ := e.Obs(published)
	deadline := time.Now().Add(15 * time.Second)
	for engine.Catalog() == published && time.Now().Before(deadline) {
		time.Sleep(5 * time.Millisecond)
	}
	time.Sleep(150 * time.Millisecond) // further passes must not change anything more
	e.recordExpire(pre, evsBefore, now, engine.Catalog() != published, "background")
	e0.Findings = append(e0.Findings, e.Findings...)
}

// RandomTTL: seeded variations - 1-3 collections with 0-2 TTL indexes on randomly chosen fields and intervals
// (next to ordinary, unique and partial indexes), documents drawn from the value pool in random order and number,
// then committed, abandoned and repeated passes.
func RandomTTL(mk func() *Env, each func(e *Env), rounds int) {
	for r := 0; r < rounds; r++ {
		e := mk()
		e.Hist = 500 + r
		g := e.G
		now := time.Now()
		vals := ttlValues(now)
		fields := []string{"c", "e", "when"}
		for _, ns := range []string{"d.r1", "d.r2", "e.r3"}[:1+g.N(3)] {
			used := map[string]bool{}
			for k := 0; k < g.N(3); k++ {
				f := fields[g.N(len(fields))]
				if used[f] {
					continue
				}
				used[f] = true
				spec := IndexSpec{Key: d(f, g.Pick(int32(1), int32(-1))), Expire: []int{0, 10, 3600, 86400}[g.N(4)]}
				if g.P(25) {
					spec.Partial, spec.Name = d("a", d("$gte", int32(g.N(5)))), "p_"+f
				}
				e.Do(e.CreateIndex(ns, spec))
			}
			if g.P(50) {
				e.Do(e.CreateIndex(ns, IndexSpec{Key: d("a", int32(1), "_id", int32(1)), Unique: g.P(50), Partial: d("a", d("$gte", int32(3))), Name: "pa", Expire: -1}))
			}
			if g.P(40) {
				e.Do(e.CreateIndex(ns, IndexSpec{Key: d("tags", int32(1)), Expire: -1}))
			}
			var docs []bson.D
			for i := 0; i < 4+g.N(14); i++ {
				doc := d("_id", int32(i), "a", int32(g.N(7)))
				for _, f := range fields {
					if v := vals[g.N(len(vals))]; v != "missing" && g.P(70) {
						doc = append(doc, bson.E{Key: f, Value: v})
					}
				}
				if g.P(40) {
					doc = append(doc, bson.E{Key: "tags", Value: bson.A{int32(g.N(3)), int32(g.N(3))}})
				}
				docs = append(docs, doc)
			}
			e.Do(e.InsertMany(ns, docs, false))
		}
		if e.Flaky != nil {
			e.AbandonedPass(g.P(50))
		}
		e.ExpirePass()
		e.ExpirePass()
		e.Do(e.Count("d.r1", d(), 0, 0))
		each(e)
		e.Close()
	}
}
