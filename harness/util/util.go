// Package util has small I/O helpers shared by the harness commands.
package util

import (
	"bufio"
	"encoding/json"
	"fmt"
	"os"
	"unicode/utf16"
)

// ASCII escapes every non-ASCII rune of a JSON text as \uXXXX so that the file
// does not depend on the reader's default charset (TLC's Json module).
func ASCII(buf []byte) []byte {
	ascii := true
	for _, b := range buf {
		if b >= 0x80 {
			ascii = false
			break
		}
	}
	if ascii {
		return buf
	}
	out := make([]byte, 0, len(buf)+16)
	for _, r := range string(buf) {
		switch {
		case r < 0x80:
			out = append(out, byte(r))
		case r < 0x10000:
			out = append(out, []byte(fmt.Sprintf("\\u%04x", r))...)
		default:
			r1, r2 := utf16.EncodeRune(r)
			out = append(out, []byte(fmt.Sprintf("\\u%04x\\u%04x", r1, r2))...)
		}
	}
	return out
}

// WriteJSON writes v as JSON to path.
func WriteJSON(path string, v interface{}) {
	buf, err := json.Marshal(v)
	if err != nil {
		Die("marshal %s: %v", path, err)
	}
	buf = ASCII(buf)
	if err := os.WriteFile(path, buf, 0644); err != nil {
		Die("write %s: %v", path, err)
	}
}

// ReadJSON reads JSON from path into v.
func ReadJSON(path string, v interface{}) {
	buf, err := os.ReadFile(path)
	if err != nil {
		Die("read %s: %v", path, err)
	}
	if err := json.Unmarshal(buf, v); err != nil {
		Die("parse %s: %v", path, err)
	}
}

// Die reports a harness failure (inconclusive, exit 2).
func Die(format string, args ...interface{}) {
	fmt.Fprintf(os.Stderr, "HARNESS-ERROR: "+format+"\n", args...)
	os.Exit(2)
}

// NDJSON is a line-oriented JSON writer.
type NDJSON struct {
	f *os.File
	w *bufio.Writer
	N int
}

// CreateNDJSON opens path for writing.
func CreateNDJSON(path string) *NDJSON {
	f, err := os.Create(path)
	if err != nil {
		Die("create %s: %v", path, err)
	}
	return &NDJSON{f: f, w: bufio.NewWriterSize(f, 1<<20)}
}

// Write appends one record.
func (n *NDJSON) Write(v interface{}) {
	buf, err := json.Marshal(v)
	if err != nil {
		Die("marshal: %v", err)
	}
	n.w.Write(ASCII(buf))
	n.w.WriteByte('\n')
	n.N++
}

// Close flushes and closes the file.
func (n *NDJSON) Close() {
	n.w.Flush()
	n.f.Close()
}
