------------------------------- MODULE Oplog -------------------------------
(***************************************************************************)
(* Change-log retention (property C08, transaction.go Clean).              *)
(* A configuration: len events, event i (1 = oldest) has age ages[i] in    *)
(* seconds (ages never increase with i), minSize, maxSize, minAge, maxAge  *)
(* in seconds (minAge = 0: no age protection; maxAge > 0).                 *)
(*   CleanImpl   the loop of Transaction.Clean                             *)
(*   CleanRef    the property: remove exactly the events that are beyond   *)
(*               the maximum size or age and not covered by one of the two *)
(*               protections (the minSize newest / younger than minAge)    *)
(***************************************************************************)
EXTENDS Integers, Sequences, FiniteSets

Protected(i, len, ages, minSize, minAge) == i > len - minSize \/ (minAge > 0 /\ ages[i] <= minAge)
BeyondMax(i, len, ages, maxSize, maxAge) == i <= len - maxSize \/ ages[i] > maxAge

(* number of removed events according to the property; removal is always a prefix *)
CleanRef(len, ages, minSize, maxSize, minAge, maxAge) ==
  Cardinality({i \in 1..len : ~Protected(i, len, ages, minSize, minAge) /\ BeyondMax(i, len, ages, maxSize, maxAge)})

(* Transaction.Clean: walk from the oldest event, stop at the first that is not both droppable and forced *)
RECURSIVE CleanLoop(_, _, _, _, _, _, _)
CleanLoop(i, len, ages, minSize, maxSize, minAge, maxAge) ==
  IF i > len THEN 0
  ELSE LET afterMin == (i - 1) < len - minSize /\ (minAge = 0 \/ ages[i] > minAge)
           beyondMax == (i - 1) < len - maxSize \/ ages[i] > maxAge
       IN IF afterMin /\ beyondMax THEN 1 + CleanLoop(i + 1, len, ages, minSize, maxSize, minAge, maxAge) ELSE 0
CleanImpl(len, ages, minSize, maxSize, minAge, maxAge) == CleanLoop(1, len, ages, minSize, maxSize, minAge, maxAge)

(* the envelope stated by the property, on an observed removal of `dropped` oldest events *)
EnvelopeOK(dropped, len, ages, minSize, maxSize, minAge, maxAge) ==
  /\ dropped \in 0..len
  /\ \A i \in 1..dropped : ~Protected(i, len, ages, minSize, minAge)                      \* never a protected event
  /\ \A i \in (dropped + 1)..len :                                                        \* nothing that must go stays
        ~(BeyondMax(i, len, ages, maxSize, maxAge) /\ \A j \in 1..i : ~Protected(j, len, ages, minSize, minAge))

NonIncreasing(ages) == \A i \in 1..(Len(ages) - 1) : ages[i] >= ages[i + 1]
=============================================================================
