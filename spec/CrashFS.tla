------------------------------- MODULE CrashFS -------------------------------
(***************************************************************************)
(* A POSIX-style file system with volatile and durable state, and a writer *)
(* whose program (the sequence of system calls of one commit of the file   *)
(* store) is a parameter, so that it can be the designed sequence of       *)
(* dbkit.AtomicWriteFile or the one recorded with strace from the binary.  *)
(*                                                                         *)
(* Names: "F" the store file, "T" the temporary file.  Inodes: 0 holds the *)
(* complete old state (when one exists); the writer's file is inode 1.     *)
(* Content of inode 1 is the number of write calls applied (NW = complete).*)
(*   vdir / ddir   volatile / durable directory: name -> inode or -1       *)
(*   vlen / dlen   volatile / durable length of inode 1 (in write calls)   *)
(*   pend          directory operations not yet made durable by an fsync   *)
(*                 of the directory                                        *)
(* A crash keeps: for the file, any length between what fsync made durable *)
(* and what was written; for the directory, the durable entries plus any   *)
(* subset of the pending operations (applied in program order).  A kill    *)
(* keeps the volatile state.                                               *)
(***************************************************************************)
EXTENDS Integers, Sequences, FiniteSets, TLC

CONSTANTS Program,     \* sequence of [op |-> "unlinkT"|"openT"|"write"|"fsyncT"|"closeT"|"rename"|"openD"|"fsyncD"|"closeD"]
          HasOld       \* an old store file exists before the commit

NW == Cardinality({i \in 1..Len(Program) : Program[i].op = "write"})

VARIABLES pc, vdir, ddir, vlen, dlen, pend, phase, result
vars == <<pc, vdir, ddir, vlen, dlen, pend, phase, result>>

None == -1
Dir(f, t) == [F |-> f, T |-> t]
Init == /\ pc = 1
        /\ vdir = Dir(IF HasOld THEN 0 ELSE None, None) /\ ddir = vdir
        /\ vlen = 0 /\ dlen = 0 /\ pend = <<>>
        /\ phase = "running" /\ result = "none"

ApplyDirOp(d, o) ==
  CASE o = "unlinkT" -> [d EXCEPT !.T = None]
    [] o = "openT"   -> [d EXCEPT !.T = 1]
    [] o = "rename"  -> IF d.T = None THEN d ELSE [d EXCEPT !.F = d.T, !.T = None]
    [] OTHER -> d

Step ==
  /\ phase = "running" /\ pc <= Len(Program)
  /\ LET o == Program[pc].op IN
     /\ pc' = pc + 1
     /\ vdir' = ApplyDirOp(vdir, o)
     /\ pend' = IF o \in {"unlinkT", "openT", "rename"} THEN Append(pend, o) ELSE IF o = "fsyncD" THEN <<>> ELSE pend
     /\ ddir' = IF o = "fsyncD" THEN ApplyDirOp(vdir, o) ELSE ddir
     /\ vlen' = IF o = "openT" THEN 0 ELSE IF o = "write" THEN vlen + 1 ELSE vlen
     /\ dlen' = IF o = "openT" THEN 0 ELSE IF o = "fsyncT" THEN vlen ELSE dlen
     /\ UNCHANGED <<phase, result>>
Finish == phase = "running" /\ pc > Len(Program) /\ phase' = "returned" /\ UNCHANGED <<pc, vdir, ddir, vlen, dlen, pend, result>>

(* what Load finds for a directory and a length of inode 1 *)
LoadOf(d, len) ==
  IF d.F = None THEN (IF HasOld THEN "lost" ELSE "old")        \* no file: an empty catalog, which is the old state only if there was none
  ELSE IF d.F = 0 THEN "old"
  ELSE IF len = NW THEN "new" ELSE "torn"

(* directory states a crash may leave: durable entries plus any subset of the pending operations, in order *)
RECURSIVE Survivors(_, _)
Survivors(d, ops) ==
  IF ops = <<>> THEN {d}
  ELSE Survivors(d, Tail(ops)) \cup Survivors(ApplyDirOp(d, Head(ops)), Tail(ops))

Crash ==          \* power loss
  /\ phase \in {"running", "returned"}
  /\ \E d \in Survivors(ddir, pend) : \E len \in dlen..vlen :
       result' = LoadOf(d, len)
  /\ phase' = IF phase = "returned" THEN "crashed-after-return" ELSE "crashed"
  /\ UNCHANGED <<pc, vdir, ddir, vlen, dlen, pend>>
Kill ==           \* the process dies, the page cache survives
  /\ phase = "running"
  /\ result' = LoadOf(vdir, vlen)
  /\ phase' = "killed"
  /\ UNCHANGED <<pc, vdir, ddir, vlen, dlen, pend>>

Next == Step \/ Finish \/ Crash \/ Kill
Spec == Init /\ [][Next]_vars

(* C05: old or new, never torn, never lost; once the write has returned, new *)
OldOrNew == result \in {"none", "old", "new"}
DurableOnceReturned == phase = "crashed-after-return" => result = "new"
(* a kill before the rename leaves the old state, a leftover temporary file never prevents the next commit: the program starts by removing it *)
StartsByRemovingTemp == \E i \in 1..Len(Program) : Program[i].op = "unlinkT" /\ \A j \in 1..(i - 1) : Program[j].op \notin {"openT", "write", "rename"}
=============================================================================
