------------------------------- MODULE Query -------------------------------
(***************************************************************************)
(* Query matching.  MatchImpl follows lungo's algorithm (mongokit/match.go, *)
(* process.go: Process / ProcessExpression / matchUnwind over bsonkit.All). *)
(* Results: "T" matched, "F" not matched, "E" the filter is rejected.      *)
(* MatchRef (declarative MongoDB path expansion) is in QueryRef.tla.        *)
(***************************************************************************)
EXTENDS Schema

IsOp(k) == Str[k].op

Neg(r) == IF r = "T" THEN "F" ELSE IF r = "F" THEN "T" ELSE r

(* first result that is not "F" (disjunction with error propagation in order) *)
RECURSIVE FirstNonF(_, _)
FirstNonF(Op(_), s) ==
  IF s = <<>> THEN "F"
  ELSE LET r == Op(Head(s)) IN IF r # "F" THEN r ELSE FirstNonF(Op, Tail(s))

(* first result that is not "T" (conjunction with error propagation in order) *)
RECURSIVE FirstNonT(_, _)
FirstNonT(Op(_), s) ==
  IF s = <<>> THEN "T"
  ELSE LET r == Op(Head(s)) IN IF r # "T" THEN r ELSE FirstNonT(Op, Tail(s))

(* matchUnwind *)
Unwind(doc, p, merge, yieldMerge, Op(_)) ==
  LET r == All(doc, p, TRUE, merge)
      first == IF r.v.t = "arr" THEN FirstNonF(Op, r.v.a) ELSE "F"
  IN IF first # "F" THEN first
     ELSE IF ~r.m \/ yieldMerge THEN Op(r.v) ELSE "F"

CompOp(op, field, v) ==
  LET comp == ClassRank(field) = ClassRank(v)
      c == Cmp(field, v)
      ok == CASE op = "$eq"  -> comp /\ c = 0
              [] op = "$gt"  -> comp /\ c > 0
              [] op = "$gte" -> comp /\ c >= 0
              [] op = "$lt"  -> comp /\ c < 0
              [] op = "$lte" -> comp /\ c <= 0
  IN IF ok THEN "T" ELSE "F"

MatchComp(doc, op, p, v) == LET f(field) == CompOp(op, field, v) IN Unwind(doc, p, TRUE, FALSE, f)

MatchIn(doc, p, v) ==
  LET f(field) == IF v.t # "arr" THEN "E"
                  ELSE IF \E i \in 1..Len(v.a) : Cmp(field, v.a[i]) = 0 THEN "T" ELSE "F"
  IN Unwind(doc, p, TRUE, FALSE, f)

Abs(n) == IF n < 0 THEN -n ELSE n
(* Go's % : truncated division, sign of the dividend *)
GoRem(n, d) == LET r == Abs(n) % Abs(d) IN IF n < 0 THEN -r ELSE r

Truthy(v) ==
  CASE v.t = "bool" -> v.b
    [] v.t = "null" -> FALSE
    [] v.t = "num" /\ v.k # "dec" -> ~(v.sp = "fin" /\ v.d = <<>>)
    [] OTHER -> TRUE

MatchExists(doc, p, v) ==
  LET r == All(doc, p, TRUE, TRUE)
      found == IF r.m /\ r.v.t = "arr" THEN Len(r.v.a) > 0 ELSE r.v # Missing
  IN IF Truthy(v) = found THEN "T" ELSE "F"

(* ---- $type ---- *)
(* [ok, number (the "number" alias), code] *)
ResolveType(o) ==
  IF o.t = "str" THEN
     IF o.s = "number" THEN [ok |-> TRUE, number |-> TRUE, code |-> 0]
     ELSE IF o.s \in DOMAIN AliasCode THEN [ok |-> TRUE, number |-> FALSE, code |-> AliasCode[o.s]]
     ELSE [ok |-> FALSE, number |-> FALSE, code |-> 0]
  ELSE IF o.t = "num" /\ o.k # "dec" THEN
     LET ti == TruncInt(o) IN
     IF ~IsIntegral(o) \/ ~ti.ok \/ ti.n < 0 \/ ti.n > 255 \/ ti.n \notin KnownCodes
       THEN [ok |-> FALSE, number |-> FALSE, code |-> 0]
       ELSE [ok |-> TRUE, number |-> FALSE, code |-> ti.n]
  ELSE [ok |-> FALSE, number |-> FALSE, code |-> 0]
MatchType(doc, p, v) ==
  LET operands == IF v.t = "arr" THEN v.a ELSE <<v>>
      rs == [i \in 1..Len(operands) |-> ResolveType(operands[i])]
  IN IF operands = <<>> THEN "E"
     ELSE IF \E i \in 1..Len(rs) : ~rs[i].ok THEN "E"
     ELSE LET f(field) ==
                IF field = Missing THEN "F"      \* a missing field has no type
                ELSE IF (\E i \in 1..Len(rs) : rs[i].number) /\ field.t = "num" THEN "T"
                ELSE IF \E i \in 1..Len(rs) : ~rs[i].number /\ rs[i].code = TypeCode(field) THEN "T"
                ELSE "F"
          IN Unwind(doc, p, TRUE, FALSE, f)

(* ---- $all ---- *)
MatchAll(doc, p, v) ==
  LET f(field) ==
        IF v.t # "arr" THEN "E"
        ELSE IF v.a = <<>> THEN "F"
        ELSE IF \A i \in 1..Len(v.a) : \/ Cmp(field, v.a[i]) = 0           \* each value is the field itself or one of its elements
                                         \/ (field.t = "arr" /\ \E j \in 1..Len(field.a) : Cmp(v.a[i], field.a[j]) = 0) THEN "T"
        ELSE "F"
  IN Unwind(doc, p, FALSE, TRUE, f)

(* ---- $size ---- *)
MatchSize(doc, p, v) ==
  IF v.t # "num" \/ v.k = "dec" THEN "E"
  ELSE IF v.k = "f64" /\ ~IsIntegral(v) THEN "E"
  ELSE IF v.neg /\ v.d # <<>> THEN "E"
  ELSE LET r == All(doc, p, FALSE, FALSE)
           want == TruncInt(v)
           sizeOK(a) == want.ok /\ Len(a) = want.n
       IN IF r.m THEN (IF r.v.t = "arr" /\ \E i \in 1..Len(r.v.a) : r.v.a[i].t = "arr" /\ sizeOK(r.v.a[i].a) THEN "T" ELSE "F")
          ELSE IF r.v.t = "arr" /\ sizeOK(r.v.a) THEN "T" ELSE "F"

(* ---- $mod ---- *)
ModOperand(o) ==   \* [ok, n]; doubles truncate toward zero
  IF o.t = "num" /\ o.k # "dec" /\ o.sp = "fin" THEN TruncInt(o) ELSE [ok |-> FALSE, n |-> 0]
MatchMod(doc, p, v) ==
  IF v.t # "arr" THEN "E"
  ELSE IF Len(v.a) # 2 THEN "E"
  ELSE LET dv == ModOperand(v.a[1])  rm == ModOperand(v.a[2]) IN
       IF ~dv.ok \/ ~rm.ok THEN "E"
       ELSE IF dv.n = 0 THEN "E"
       ELSE LET f(field) ==
                  IF field.t # "num" \/ field.k = "dec" THEN "F"
                  ELSE LET n == TruncInt(field) IN
                       IF ~n.ok THEN "F"
                       ELSE IF GoRem(n.n, dv.n) = rm.n THEN "T" ELSE "F"
            IN Unwind(doc, p, TRUE, FALSE, f)

(* ---- $bits* (positions 0..30, values within the model range) ---- *)
RECURSIVE Pow2(_)
Pow2(n) == IF n = 0 THEN 1 ELSE 2 * Pow2(n - 1)
BitOfNat(m, pos) == IF pos > 30 THEN FALSE ELSE (m \div Pow2(pos)) % 2 = 1
(* two's complement, sign extended up to bit 63 *)
BitOfInt(n, pos) == IF pos >= 64 THEN FALSE
                    ELSE IF n >= 0 THEN BitOfNat(n, pos)
                    ELSE IF pos > 30 THEN TRUE ELSE ~BitOfNat(-n - 1, pos)
RECURSIVE NatPositions(_, _)
NatPositions(m, pos) == IF m = 0 THEN <<>>
                        ELSE (IF m % 2 = 1 THEN <<pos>> ELSE <<>>) \o NatPositions(m \div 2, pos + 1)
BytePositions(d) ==
  LET one(i) == LET ps == NatPositions(d[i], 0) IN [x \in 1..Len(ps) |-> (i - 1) * 8 + ps[x]]
  IN FlatMapSeq(one, [i \in 1..Len(d) |-> i])
(* [ok, ps] *)
BitMask(v) ==
  IF v.t = "num" /\ v.k # "dec" THEN
     LET ti == TruncInt(v) IN
     IF ~IsIntegral(v) \/ ~ti.ok \/ ti.n < 0 THEN [ok |-> FALSE, ps |-> <<>>]
     ELSE [ok |-> TRUE, ps |-> NatPositions(ti.n, 0)]
  ELSE IF v.t = "arr" THEN
     LET one(i) == LET o == v.a[i]  ti == TruncInt(o) IN
                   IF o.t = "num" /\ o.k # "dec" /\ IsIntegral(o) /\ ti.ok /\ ti.n >= 0 THEN ti.n ELSE -1
         ps == [i \in 1..Len(v.a) |-> one(i)]
     IN IF \E i \in 1..Len(ps) : ps[i] < 0 THEN [ok |-> FALSE, ps |-> <<>>] ELSE [ok |-> TRUE, ps |-> ps]
  ELSE IF v.t = "bin" THEN [ok |-> TRUE, ps |-> BytePositions(v.d)]
  ELSE [ok |-> FALSE, ps |-> <<>>]
(* [ok, fn] bit accessor of a field *)
FieldBit(field, pos) ==
  IF field.t = "bin" THEN (pos \div 8 < Len(field.d) /\ BitOfNat(field.d[(pos \div 8) + 1], pos % 8))
  ELSE BitOfInt(TruncInt(field).n, pos)
HasBits(field) ==
  \/ field.t = "bin"
  \/ (field.t = "num" /\ field.k \in {"i32", "i64"} /\ TruncInt(field).ok)
  \/ (field.t = "num" /\ field.k = "f64" /\ IsIntegral(field) /\ TruncInt(field).ok)
MatchBits(doc, op, p, v) ==
  LET bm == BitMask(v) IN
  IF ~bm.ok THEN "E"
  ELSE LET f(field) ==
             IF ~HasBits(field) THEN "F"
             ELSE LET nset == Cardinality({i \in 1..Len(bm.ps) : FieldBit(field, bm.ps[i])})
                      nclr == Len(bm.ps) - nset
                      ok == CASE op = "$bitsAllSet"   -> nset = Len(bm.ps)
                              [] op = "$bitsAllClear" -> nclr = Len(bm.ps)
                              [] op = "$bitsAnySet"   -> nset > 0
                              [] op = "$bitsAnyClear" -> nclr > 0
                  IN IF ok THEN "T" ELSE "F"
       IN Unwind(doc, p, TRUE, FALSE, f)

RECURSIVE Process(_, _, _, _), ProcExpr(_, _, _, _), ExprOps(_, _, _), ApplyOp(_, _, _, _),
          MatchLogic(_, _, _), MatchNot(_, _, _), MatchElem(_, _, _)

(* Process: implicit AND over the pairs of a query document *)
Process(doc, q, prefix, root) ==
  LET f(pair) == ProcExpr(doc, prefix, pair, root) IN FirstNonT(f, q)

ExprOpNames == {"$eq", "$gt", "$gte", "$lt", "$lte", "$ne", "$in", "$nin", "$exists", "$type", "$all", "$size",
                "$not", "$elemMatch", "$mod", "$bitsAllSet", "$bitsAllClear", "$bitsAnySet", "$bitsAnyClear"}

ApplyOp(doc, op, p, v) ==
  CASE op \in {"$eq", "$gt", "$gte", "$lt", "$lte"} -> MatchComp(doc, op, p, v)
    [] op = "$ne"        -> Neg(MatchComp(doc, "$eq", p, v))
    [] op = "$in"        -> MatchIn(doc, p, v)
    [] op = "$nin"       -> Neg(MatchIn(doc, p, v))
    [] op = "$exists"    -> MatchExists(doc, p, v)
    [] op = "$type"      -> MatchType(doc, p, v)
    [] op = "$all"       -> MatchAll(doc, p, v)
    [] op = "$size"      -> MatchSize(doc, p, v)
    [] op = "$not"       -> MatchNot(doc, p, v)
    [] op = "$elemMatch" -> MatchElem(doc, p, v)
    [] op = "$mod"       -> MatchMod(doc, p, v)
    [] op \in {"$bitsAllSet", "$bitsAllClear", "$bitsAnySet", "$bitsAnyClear"} -> MatchBits(doc, op, p, v)
    [] OTHER             -> "E"

MatchNot(doc, p, v) ==
  IF v.t # "doc" THEN "E" ELSE IF v.f = <<>> THEN "E"
  ELSE \* succeeds as soon as one expression does not match; errors propagate in order
       LET f(pair) == LET r == ProcExpr(doc, p, pair, FALSE) IN
                      IF r = "F" THEN "X" ELSE IF r = "T" THEN "F" ELSE r
           res == FirstNonF(f, v.f)
       IN IF res = "X" THEN "T" ELSE res

MatchElem(doc, p, v) ==
  IF v.t # "doc" THEN "E" ELSE IF v.f = <<>> THEN "F"
  ELSE LET r == All(doc, p, TRUE, TRUE) IN
    IF r.v.t # "arr" THEN "F"
    ELSE LET f(item) == Process(Doc(<< <<"item", item>> >>), v.f, <<"item">>, FALSE)
         IN FirstNonF(f, r.v.a)

MatchLogic(doc, op, v) ==
  IF v.t # "arr" THEN "E" ELSE IF v.a = <<>> THEN "E"
  ELSE LET f(item) == IF item.t # "doc" THEN "E" ELSE Process(doc, item.f, <<>>, TRUE) IN
       IF op = "$and" THEN FirstNonT(f, v.a)
       ELSE IF op = "$or" THEN FirstNonF(f, v.a)
       ELSE Neg(FirstNonF(f, v.a))

(* a field's expression document whose first key is an operator *)
ExprOps(doc, p, exps) ==
  LET f(pair) == IF ~IsOp(pair[1]) THEN "E" ELSE ApplyOp(doc, pair[1], p, pair[2]) IN FirstNonT(f, exps)

ProcExpr(doc, prefix, pair, root) ==
  LET key == pair[1]  val == pair[2] IN
  IF IsOp(key)
    THEN IF root THEN (IF key \in {"$and", "$or", "$nor"} THEN MatchLogic(doc, key, val)
                       ELSE IF key = "$jsonSchema" THEN MatchSchema(doc, val) ELSE "E")
         ELSE ApplyOp(doc, key, prefix, val)
  ELSE LET p == prefix \o PathOf(key) IN
       IF val.t = "doc" /\ val.f # <<>> /\ IsOp(val.f[1][1])
         THEN ExprOps(doc, p, val.f)
       ELSE MatchComp(doc, "$eq", p, val)

(* mongokit.Match(doc, query) *)
MatchImpl(doc, query) == Process(doc, query.f, <<>>, TRUE)
Matches(doc, query) == MatchImpl(doc, query) = "T"
=============================================================================
