------------------------------- MODULE Path -------------------------------
(***************************************************************************)
(* lungo's path access (bsonkit/access.go), action for action.  Paths are  *)
(* sequences of segments; PathOf(s) splits a dotted string through the     *)
(* string table.                                                           *)
(***************************************************************************)
EXTENDS BSON

PathOf(s) == Str[s].p
IdxOf(seg) == Str[seg].i           \* array index of a segment, -1 if none

(* get(v, path, collect, compact): [v |-> value, m |-> collected from several documents] *)
RECURSIVE GetP(_, _, _, _)
GetP(v, p, collect, compact) ==
  IF p = <<>> THEN [v |-> v, m |-> FALSE]
  ELSE IF p = <<"">> THEN [v |-> Missing, m |-> FALSE]
  ELSE LET key == Head(p) IN
    IF v.t = "doc" /\ FieldIdx(v.f, key) # 0
      THEN GetP(v.f[FieldIdx(v.f, key)][2], Tail(p), collect, compact)
    ELSE IF v.t = "arr"
      THEN LET idx == IdxOf(key) IN
           IF idx >= 0 /\ idx < Len(v.a)
             THEN GetP(v.a[idx + 1], Tail(p), collect, compact)
           ELSE IF collect
             THEN LET one(item) ==
                        LET r == GetP(item, p, collect, compact) IN
                        IF r.v = Missing THEN (IF compact THEN <<>> ELSE <<Missing>>)
                        ELSE IF r.m /\ compact /\ r.v.t = "arr" THEN r.v.a
                        ELSE <<r.v>>
                  IN [v |-> Arr(FlatMapSeq(one, v.a)), m |-> TRUE]
           ELSE [v |-> Missing, m |-> FALSE]
    ELSE [v |-> Missing, m |-> FALSE]

Get(doc, p) == GetP(doc, p, FALSE, FALSE).v
GetS(doc, s) == IF s = "" THEN Missing ELSE Get(doc, PathOf(s))

All(doc, p, compact, merge) ==
  LET r == GetP(doc, p, TRUE, compact) IN
  IF ~r.m \/ ~merge \/ r.v.t # "arr" THEN r
  ELSE LET one(item) == IF item.t = "arr" THEN item.a ELSE <<item>>
       IN [v |-> Arr(FlatMapSeq(one, r.v.a)), m |-> TRUE]

(***************************************************************************)
(* put(v, path, value, prepend): value = Missing means unset.              *)
(* Result [ok, v (new value of this node), prev (value found at the end)]  *)
(***************************************************************************)
PutFail == [ok |-> FALSE, v |-> Missing, prev |-> Missing]
Nulls(n) == [x \in 1..n |-> Null]
RemoveAt(s, i) == SubSeq(s, 1, i - 1) \o SubSeq(s, i + 1, Len(s))

RECURSIVE PutV(_, _, _, _)
PutV(v, p, val, pre) ==
  IF p = <<>> THEN [ok |-> TRUE, v |-> val, prev |-> v]
  ELSE IF p = <<"">> THEN PutFail
  ELSE LET key == Head(p)  rest == Tail(p) IN
    IF v.t = "doc" THEN
      LET i == FieldIdx(v.f, key) IN
      IF i # 0 THEN
        LET r == PutV(v.f[i][2], rest, val, pre) IN
        IF ~r.ok THEN PutFail
        ELSE IF r.v = Missing THEN [ok |-> TRUE, v |-> Doc(RemoveAt(v.f, i)), prev |-> r.prev]
        ELSE [ok |-> TRUE, v |-> Doc([v.f EXCEPT ![i] = <<key, r.v>>]), prev |-> r.prev]
      ELSE IF val = Missing THEN PutFail
      ELSE LET r == PutV(Missing, rest, val, pre) IN
           IF ~r.ok THEN PutFail
           ELSE [ok |-> TRUE,
                 v |-> Doc(IF pre THEN << <<key, r.v>> >> \o v.f ELSE Append(v.f, <<key, r.v>>)),
                 prev |-> Missing]
    ELSE IF v.t = "arr" THEN
      LET idx == IdxOf(key) IN
      IF idx < 0 THEN PutFail
      ELSE IF idx < Len(v.a) THEN
        LET r == PutV(v.a[idx + 1], rest, val, pre) IN
        IF ~r.ok THEN PutFail
        ELSE [ok |-> TRUE, v |-> Arr([v.a EXCEPT ![idx + 1] = IF r.v = Missing THEN Null ELSE r.v]), prev |-> r.prev]
      ELSE IF val = Missing THEN PutFail
      ELSE LET r == PutV(Missing, rest, val, pre) IN
           IF ~r.ok THEN PutFail
           ELSE [ok |-> TRUE, v |-> Arr(v.a \o Nulls(idx - Len(v.a)) \o <<r.v>>), prev |-> Missing]
    ELSE IF val = Missing THEN PutFail
    ELSE IF v = Missing THEN
      LET r == PutV(Missing, rest, val, pre) IN
      IF ~r.ok THEN PutFail ELSE [ok |-> TRUE, v |-> Doc(<< <<key, r.v>> >>), prev |-> Missing]
    ELSE PutFail

(* bsonkit.Put: [ok, doc] ; a Missing value is rejected *)
Put(doc, p, val, pre) ==
  IF val = Missing THEN [ok |-> FALSE, doc |-> doc]
  ELSE LET r == PutV(doc, p, val, pre) IN
       IF r.ok THEN [ok |-> TRUE, doc |-> r.v] ELSE [ok |-> FALSE, doc |-> doc]
PutS(doc, s, val, pre) == IF s = "" THEN [ok |-> FALSE, doc |-> doc] ELSE Put(doc, PathOf(s), val, pre)

(* bsonkit.Unset: [doc, prev]; prev = Missing when nothing was removed *)
Unset(doc, p) ==
  LET r == PutV(doc, p, Missing, FALSE) IN
  IF r.ok THEN [doc |-> r.v, prev |-> r.prev] ELSE [doc |-> doc, prev |-> Missing]
UnsetS(doc, s) == IF s = "" THEN [doc |-> doc, prev |-> Missing] ELSE Unset(doc, PathOf(s))

(* bsonkit.IndexedPath: some segment parses as an array index *)
IndexedPath(p) == \E i \in 1..Len(p) : IdxOf(p[i]) >= 0

(* is a a (non-strict) prefix of b *)
IsPrefixSeq(a, b) == Len(a) <= Len(b) /\ SubSeq(b, 1, Len(a)) = a
=============================================================================
