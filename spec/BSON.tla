------------------------------- MODULE BSON -------------------------------
(***************************************************************************)
(* The BSON value universe of lungo as TLA+ values, and its comparison     *)
(* order (property C12).                                                   *)
(*                                                                         *)
(* Values are tagged records (see harness/enc):                            *)
(*   [t |-> "null"]                          [t |-> "missing"] (internal)  *)
(*   [t |-> "bool", b |-> BOOLEAN]           [t |-> "str", s |-> STRING]   *)
(*   [t |-> "num", k |-> "i32"|"i64"|"f64"|"dec",                          *)
(*      sp |-> "fin"|"nan"|"pinf"|"ninf", neg |-> BOOLEAN,                 *)
(*      d |-> digits (no leading/trailing zero, <<>> for zero),            *)
(*      e |-> Int (value = 0.d1d2..dn * 10^e), q |-> Int (dec: stored      *)
(*      exponent, byte identity only)]                                     *)
(*   [t |-> "doc", f |-> << <<key, value>>, ... >>]                        *)
(*   [t |-> "arr", a |-> << value, ... >>]                                 *)
(*   [t |-> "bin", st |-> 0..255, d |-> bytes]  [t |-> "oid", s |-> hex]   *)
(*   [t |-> "date", neg, d, e]  (milliseconds, same magnitude encoding)    *)
(*   [t |-> "ts", T |-> Nat, I |-> Nat]   [t |-> "regex", p, o]            *)
(*                                                                         *)
(* TLC has no order on strings and no character access, so every string    *)
(* that occurs in a run is described by the string table Str:              *)
(*   Str[s] = [c |-> UTF-8 bytes, p |-> dotted path segments,              *)
(*             i |-> array index or -1, op |-> starts with "$"]            *)
(***************************************************************************)
EXTENDS Integers, Sequences, FiniteSets, TLC, Json

(* The string table of the run.  It is a definition rather than a CONSTANT   *)
(* because TLC caches the value of a zero-arity constant definition, but     *)
(* re-evaluates a cfg-level substitution (CONSTANT Str <- ...) on every use  *)
(* inside LET-defined operators that are passed as operator arguments        *)
(* (measured: the JSON file was re-read on every access).                    *)
Str == JsonDeserialize("strings.json")

Null    == [t |-> "null"]
Missing == [t |-> "missing"]
Bool(b) == [t |-> "bool", b |-> b]
StrV(s) == [t |-> "str", s |-> s]
Doc(f)  == [t |-> "doc", f |-> f]
Arr(a)  == [t |-> "arr", a |-> a]
EmptyDoc == Doc(<<>>)
EmptyArr == Arr(<<>>)

IsDoc(v) == v.t = "doc"
IsArr(v) == v.t = "arr"
IsNum(v) == v.t = "num"

(* MongoDB comparison order of type classes; missing ranks with null       *)
ClassRank(v) ==
  CASE v.t = "missing" -> 0
    [] v.t = "null"    -> 0
    [] v.t = "num"     -> 1
    [] v.t = "str"     -> 2
    [] v.t = "doc"     -> 3
    [] v.t = "arr"     -> 4
    [] v.t = "bin"     -> 5
    [] v.t = "oid"     -> 6
    [] v.t = "bool"    -> 7
    [] v.t = "date"    -> 8
    [] v.t = "ts"      -> 9
    [] v.t = "regex"   -> 10
    [] v.t = "now"     -> IF v.k = "date" THEN 8 ELSE 9   \* placeholder written by $currentDate (Update.tla)

Sign(x) == IF x < 0 THEN -1 ELSE IF x > 0 THEN 1 ELSE 0

(* lexicographic comparison of integer sequences; a proper prefix is smaller *)
RECURSIVE SeqCmpFrom(_, _, _)
SeqCmpFrom(a, b, i) ==
  IF i > Len(a) THEN (IF i > Len(b) THEN 0 ELSE -1)
  ELSE IF i > Len(b) THEN 1
  ELSE IF a[i] # b[i] THEN Sign(a[i] - b[i])
  ELSE SeqCmpFrom(a, b, i + 1)
SeqCmp(a, b) == SeqCmpFrom(a, b, 1)

StrCmp(a, b) == IF a = b THEN 0 ELSE SeqCmp(Str[a].c, Str[b].c)

(***************************************************************************)
(* Exact magnitudes.  A magnitude is (d, e): value 0.d1..dn * 10^e, d      *)
(* without leading or trailing zeros, d = <<>> is zero.                    *)
(***************************************************************************)
MagCmp(d1, e1, d2, e2) ==
  IF d1 = <<>> THEN (IF d2 = <<>> THEN 0 ELSE -1)
  ELSE IF d2 = <<>> THEN 1
  ELSE IF e1 # e2 THEN Sign(e1 - e2)
  ELSE SeqCmp(d1, d2)

(* signed comparison of two finite values *)
SignedCmp(n1, d1, e1, n2, d2, e2) ==
  LET z1 == d1 = <<>>  z2 == d2 = <<>>
      s1 == IF z1 THEN 0 ELSE IF n1 THEN -1 ELSE 1
      s2 == IF z2 THEN 0 ELSE IF n2 THEN -1 ELSE 1
  IN IF s1 # s2 THEN Sign(s1 - s2)
     ELSE IF s1 = 0 THEN 0
     ELSE IF s1 = 1 THEN MagCmp(d1, e1, d2, e2)
     ELSE MagCmp(d2, e2, d1, e1)

(* numbers of all four kinds by exact value; NaN lowest, then -Inf, finite, +Inf *)
SpRank(sp) == CASE sp = "nan" -> 0 [] sp = "ninf" -> 1 [] sp = "fin" -> 2 [] sp = "pinf" -> 3
NumCmp(l, r) ==
  IF l.sp # "fin" \/ r.sp # "fin" THEN Sign(SpRank(l.sp) - SpRank(r.sp))
  ELSE SignedCmp(l.neg, l.d, l.e, r.neg, r.d, r.e)

RECURSIVE Cmp(_, _), CmpDocFrom(_, _, _), CmpArrFrom(_, _, _)
Cmp(l, r) ==
  LET lc == ClassRank(l)  rc == ClassRank(r) IN
  IF lc # rc THEN Sign(lc - rc)
  ELSE IF l.t = "now" \/ r.t = "now"     \* the current time is later than every date/timestamp of the pools
       THEN (IF l.t = r.t THEN 0 ELSE IF l.t = "now" THEN 1 ELSE -1)
  ELSE CASE lc = 0  -> 0
         [] lc = 1  -> NumCmp(l, r)
         [] lc = 2  -> StrCmp(l.s, r.s)
         [] lc = 3  -> CmpDocFrom(l.f, r.f, 1)
         [] lc = 4  -> CmpArrFrom(l.a, r.a, 1)
         [] lc = 5  -> IF Len(l.d) # Len(r.d) THEN Sign(Len(l.d) - Len(r.d))
                       ELSE IF l.st # r.st THEN Sign(l.st - r.st)
                       ELSE SeqCmp(l.d, r.d)
         [] lc = 6  -> StrCmp(l.s, r.s)
         [] lc = 7  -> IF l.b = r.b THEN 0 ELSE IF l.b THEN 1 ELSE -1
         [] lc = 8  -> SignedCmp(l.neg, l.d, l.e, r.neg, r.d, r.e)
         [] lc = 9  -> IF l.T # r.T THEN Sign(l.T - r.T) ELSE Sign(l.I - r.I)
         [] lc = 10 -> LET pc == StrCmp(l.p, r.p) IN IF pc # 0 THEN pc ELSE StrCmp(l.o, r.o)
CmpDocFrom(l, r, i) ==
  IF i > Len(l) THEN (IF i > Len(r) THEN 0 ELSE -1)
  ELSE IF i > Len(r) THEN 1
  ELSE LET kc == StrCmp(l[i][1], r[i][1]) IN
       IF kc # 0 THEN kc
       ELSE LET vc == Cmp(l[i][2], r[i][2]) IN
            IF vc # 0 THEN vc ELSE CmpDocFrom(l, r, i + 1)
CmpArrFrom(l, r, i) ==
  IF i > Len(l) THEN (IF i > Len(r) THEN 0 ELSE -1)
  ELSE IF i > Len(r) THEN 1
  ELSE LET vc == Cmp(l[i], r[i]) IN
       IF vc # 0 THEN vc ELSE CmpArrFrom(l, r, i + 1)

Eq(l, r) == Cmp(l, r) = 0

(***************************************************************************)
(* Byte-level identity ("the serialized bytes are the same"): TLA+         *)
(* equality of the tagged records, because the encoding is canonical and   *)
(* keeps numeric kind, -0 and the decimal128 exponent.  All NaNs are one   *)
(* value in the encoding.                                                  *)
(***************************************************************************)
Same(l, r) == l = r

(* ---- small helpers on documents ---- *)
FieldIdx(f, k) ==
  IF \E i \in 1..Len(f) : f[i][1] = k
  THEN CHOOSE i \in 1..Len(f) : f[i][1] = k /\ \A j \in 1..(i - 1) : f[j][1] # k
  ELSE 0
HasField(v, k) == v.t = "doc" /\ FieldIdx(v.f, k) # 0
Field(v, k) == IF HasField(v, k) THEN v.f[FieldIdx(v.f, k)][2] ELSE Missing
Keys(v) == [i \in 1..Len(v.f) |-> v.f[i][1]]

RECURSIVE FlatMapSeq(_, _)
FlatMapSeq(Op(_), s) == IF s = <<>> THEN <<>> ELSE Op(Head(s)) \o FlatMapSeq(Op, Tail(s))

RECURSIVE FilterSeq(_, _)
FilterSeq(P(_), s) ==
  IF s = <<>> THEN <<>>
  ELSE IF P(Head(s)) THEN <<Head(s)>> \o FilterSeq(P, Tail(s)) ELSE FilterSeq(P, Tail(s))

MapSeq(Op(_), s) == [i \in 1..Len(s) |-> Op(s[i])]

(* small integers as numbers (used by specs that build values) *)
RECURSIVE NatDigits(_)
NatDigits(n) == IF n = 0 THEN <<>> ELSE NatDigits(n \div 10) \o <<n % 10>>
RECURSIVE StripTrail(_)
StripTrail(d) == IF d # <<>> /\ d[Len(d)] = 0 THEN StripTrail(SubSeq(d, 1, Len(d) - 1)) ELSE d
IntNum(kind, n) ==
  LET m == IF n < 0 THEN -n ELSE n
      ds == NatDigits(m)
  IN [t |-> "num", k |-> kind, sp |-> "fin", neg |-> n < 0,
      d |-> StripTrail(ds), e |-> IF m = 0 THEN 0 ELSE Len(ds), q |-> 0]
I32(n) == IntNum("i32", n)
I64(n) == IntNum("i64", n)

(* value of a number as a TLC integer when it is a small integer, else Oops *)
RECURSIVE DigitsVal(_)
DigitsVal(d) == IF d = <<>> THEN 0 ELSE DigitsVal(SubSeq(d, 1, Len(d) - 1)) * 10 + d[Len(d)]
RECURSIVE Pow10(_)
Pow10(n) == IF n = 0 THEN 1 ELSE 10 * Pow10(n - 1)
IsSmallInt(v) == v.t = "num" /\ v.sp = "fin" /\ (v.d = <<>> \/ (Len(v.d) <= v.e /\ v.e <= 9))
SmallInt(v) == IF v.d = <<>> THEN 0
               ELSE (IF v.neg THEN -1 ELSE 1) * DigitsVal(v.d) * Pow10(v.e - Len(v.d))
=============================================================================
