---------------------------- MODULE StreamProto ----------------------------
(***************************************************************************)
(* The wake-up protocol between committing writers and a consumer blocked  *)
(* in Stream.next (stream.go, engine.go Commit; property C09 "without      *)
(* stalls").  One label per critical section:                              *)
(*   writer    w1: under the engine mutex append the event (publish), then *)
(*             send on the stream's signal channel WITHOUT blocking        *)
(*   consumer  c1: under the stream mutex read the log; deliver the next   *)
(*             event if there is one, otherwise release the mutex ...      *)
(*             c2: ... and wait for the signal, close or cancellation      *)
(*   closer    closes the stream (wakes the consumer)                      *)
(* Buffered = TRUE is lungo (channel of capacity 1: a signal sent while    *)
(* the consumer is between c1 and c2 is kept); Buffered = FALSE is the     *)
(* lost-wake-up variant (the send only succeeds if the consumer is already *)
(* waiting).                                                               *)
(***************************************************************************)
EXTENDS Integers, Sequences, TLC

CONSTANTS NEvents, Buffered, WithClose

(* --algorithm StreamProto {
variables
  log = 0,              \* number of committed events
  pos = 0,              \* number of events delivered to the consumer
  signal = 0,           \* pending signals in the channel (0 or 1)
  waiting = FALSE,      \* the consumer is blocked in the select
  closed = FALSE,
  seen = <<>>;          \* delivered event numbers, in order

fair process (Writer = "w")
{
  w0: while (log < NEvents) {
  w1:   log := log + 1;                       \* publish under the engine mutex
  w2:   if (Buffered) { if (signal = 0) { signal := 1 } }
        else { if (waiting) { signal := 1 } };  \* non-blocking send
  }
}

fair process (Consumer = "c")
{
  c0: while (~closed) {
  c1:   if (pos < log) { pos := pos + 1; seen := Append(seen, pos); }   \* deliver the next event
        else {
  c2:     waiting := TRUE;
  c3:     await signal = 1 \/ closed;
          waiting := FALSE;
          if (signal = 1) { signal := 0 };
        }
  }
}

fair process (Closer = "x")
{
  x0: if (WithClose) { await log = NEvents; closed := TRUE; }
}
} *)
\* BEGIN TRANSLATION
VARIABLES pc, log, pos, signal, waiting, closed, seen

vars == << pc, log, pos, signal, waiting, closed, seen >>

ProcSet == {"w"} \cup {"c"} \cup {"x"}

Init == (* Global variables *)
        /\ log = 0
        /\ pos = 0
        /\ signal = 0
        /\ waiting = FALSE
        /\ closed = FALSE
        /\ seen = <<>>
        /\ pc = [self \in ProcSet |-> CASE self = "w" -> "w0"
                                        [] self = "c" -> "c0"
                                        [] self = "x" -> "x0"]

w0 == /\ pc["w"] = "w0"
      /\ IF log < NEvents
            THEN /\ pc' = [pc EXCEPT !["w"] = "w1"]
            ELSE /\ pc' = [pc EXCEPT !["w"] = "Done"]
      /\ UNCHANGED << log, pos, signal, waiting, closed, seen >>

w1 == /\ pc["w"] = "w1"
      /\ log' = log + 1
      /\ pc' = [pc EXCEPT !["w"] = "w2"]
      /\ UNCHANGED << pos, signal, waiting, closed, seen >>

w2 == /\ pc["w"] = "w2"
      /\ IF Buffered
            THEN /\ IF signal = 0
                       THEN /\ signal' = 1
                       ELSE /\ TRUE
                            /\ UNCHANGED signal
            ELSE /\ IF waiting
                       THEN /\ signal' = 1
                       ELSE /\ TRUE
                            /\ UNCHANGED signal
      /\ pc' = [pc EXCEPT !["w"] = "w0"]
      /\ UNCHANGED << log, pos, waiting, closed, seen >>

Writer == w0 \/ w1 \/ w2

c0 == /\ pc["c"] = "c0"
      /\ IF ~closed
            THEN /\ pc' = [pc EXCEPT !["c"] = "c1"]
            ELSE /\ pc' = [pc EXCEPT !["c"] = "Done"]
      /\ UNCHANGED << log, pos, signal, waiting, closed, seen >>

c1 == /\ pc["c"] = "c1"
      /\ IF pos < log
            THEN /\ pos' = pos + 1
                 /\ seen' = Append(seen, pos')
                 /\ pc' = [pc EXCEPT !["c"] = "c0"]
            ELSE /\ pc' = [pc EXCEPT !["c"] = "c2"]
                 /\ UNCHANGED << pos, seen >>
      /\ UNCHANGED << log, signal, waiting, closed >>

c2 == /\ pc["c"] = "c2"
      /\ waiting' = TRUE
      /\ pc' = [pc EXCEPT !["c"] = "c3"]
      /\ UNCHANGED << log, pos, signal, closed, seen >>

c3 == /\ pc["c"] = "c3"
      /\ signal = 1 \/ closed
      /\ waiting' = FALSE
      /\ IF signal = 1
            THEN /\ signal' = 0
            ELSE /\ TRUE
                 /\ UNCHANGED signal
      /\ pc' = [pc EXCEPT !["c"] = "c0"]
      /\ UNCHANGED << log, pos, closed, seen >>

Consumer == c0 \/ c1 \/ c2 \/ c3

x0 == /\ pc["x"] = "x0"
      /\ IF WithClose
            THEN /\ log = NEvents
                 /\ closed' = TRUE
            ELSE /\ TRUE
                 /\ UNCHANGED closed
      /\ pc' = [pc EXCEPT !["x"] = "Done"]
      /\ UNCHANGED << log, pos, signal, waiting, seen >>

Closer == x0

(* Allow infinite stuttering to prevent deadlock on termination. *)
Terminating == /\ \A self \in ProcSet: pc[self] = "Done"
               /\ UNCHANGED vars

Next == Writer \/ Consumer \/ Closer
           \/ Terminating

Spec == /\ Init /\ [][Next]_vars
        /\ WF_vars(Writer)
        /\ WF_vars(Consumer)
        /\ WF_vars(Closer)

Termination == <>(\A self \in ProcSet: pc[self] = "Done")

\* END TRANSLATION

(* every delivered sequence is 1..k: nothing skipped, duplicated or reordered *)
InOrder == \A i \in 1..Len(seen) : seen[i] = i
(* without stalls: every committed event is eventually delivered (unless the stream is closed) *)
AllDelivered == <>(pos = NEvents \/ closed)
(* a closed stream releases the consumer *)
ClosedReleases == closed ~> pc["c"] = "Done"
=============================================================================
