---------------------------- MODULE SortDistinct ----------------------------
(***************************************************************************)
(* Sort, skip/limit window and distinct (property C13).                    *)
(*   FindImpl   follows mongokit.Collection.Find: sort -> filter with      *)
(*              limit+skip (early exit) -> drop skip                       *)
(*   FindRef    declarative: the window [skip, skip+limit) of the stable   *)
(*              sort of the matching documents                             *)
(*   Distinct   values at the path (array elements individually), once     *)
(*              each, ascending                                            *)
(* SortKey / Order / StableSort are defined in Update.tla (shared with     *)
(* $push $sort).                                                           *)
(***************************************************************************)
EXTENDS Update

(* mongokit.Columns: [err, cols]; directions are numbers truncated to 1 / -1 *)
Columns(sort) ==
  LET dir(v) == IF v.t = "num" /\ v.k # "dec" /\ TruncInt(v).ok THEN TruncInt(v).n ELSE 0
      ds == [i \in 1..Len(sort.f) |-> dir(sort.f[i][2])]
  IN IF \E i \in 1..Len(ds) : ds[i] \notin {1, -1} THEN [err |-> TRUE, cols |-> <<>>]
     ELSE [err |-> FALSE, cols |-> [i \in 1..Len(ds) |-> [p |-> PathOf(sort.f[i][1]), rev |-> ds[i] = -1]]]

SortDocs(list, cols) == StableSort(LAMBDA x, y : Order(x, y, cols) < 0, list)

(* mongokit.Filter / bsonkit.Select: documents in list order, stop at the limit or at the first error *)
RECURSIVE FilterFrom(_, _, _, _, _)
FilterFrom(list, q, limit, i, acc) ==
  IF i > Len(list) THEN [err |-> FALSE, list |-> acc]
  ELSE LET m == MatchImpl(list[i], q) IN
       IF m = "E" THEN [err |-> TRUE, list |-> acc]
       ELSE IF m = "F" THEN FilterFrom(list, q, limit, i + 1, acc)
       ELSE LET acc2 == Append(acc, list[i]) IN
            IF limit > 0 /\ Len(acc2) >= limit THEN [err |-> FALSE, list |-> acc2]
            ELSE FilterFrom(list, q, limit, i + 1, acc2)
Filter(list, q, limit) == FilterFrom(list, q, limit, 1, <<>>)

(* mongokit.Collection.Find; sort = EmptyDoc means natural order; skip >= 0; limit = 0 means none *)
FindImpl(list, q, sort, skip, limit) ==
  LET cs == IF sort.f = <<>> THEN [err |-> FALSE, cols |-> <<>>] ELSE Columns(sort) IN
  IF cs.err THEN [err |-> TRUE, list |-> <<>>]
  ELSE LET sorted == IF sort.f = <<>> THEN list ELSE SortDocs(list, cs.cols)
           f == Filter(sorted, q, IF limit > 0 THEN limit + skip ELSE limit)
       IN IF f.err THEN [err |-> TRUE, list |-> <<>>]
          ELSE [err |-> FALSE, list |-> IF skip > Len(f.list) THEN <<>> ELSE SubSeq(f.list, skip + 1, Len(f.list))]

(* declarative reference (no filter errors): the window of the full ordering *)
Window(s, skip, limit) ==
  LET hi == IF limit > 0 /\ skip + limit < Len(s) THEN skip + limit ELSE Len(s) IN SubSeq(s, skip + 1, hi)
FindRef(list, q, cols, skip, limit) ==
  Window(FilterSeq(LAMBDA d : Matches(d, q), SortDocs(list, cols)), skip, limit)

(* the three clauses that make SortDocs "the" sorted order: a permutation that never decreases and keeps ties in list order *)
NonDecreasing(s, cols) == \A i \in 1..(Len(s) - 1) : Order(s[i], s[i + 1], cols) <= 0
IsStablePermutation(s, list, cols) ==
  \E perm \in [1..Len(list) -> 1..Len(list)] :
     /\ \A i, j \in 1..Len(list) : i # j => perm[i] # perm[j]
     /\ Len(s) = Len(list) /\ \A i \in 1..Len(s) : s[i] = list[perm[i]]
     /\ \A i \in 1..(Len(s) - 1) : Order(s[i], s[i + 1], cols) = 0 => perm[i] < perm[i + 1]

(* ---- distinct ---- *)
DistinctValues(list, p) ==       \* every value occurring at the path, array elements individually
  LET one(doc) == LET r == All(doc, p, TRUE, TRUE) IN
                  IF r.v = Missing THEN <<>> ELSE IF r.v.t = "arr" THEN r.v.a ELSE <<r.v>>
  IN FlatMapSeq(one, list)
(* an observed Distinct result is right iff it is strictly ascending and covers exactly the occurring values;
   which representative of a class of equal values (1 vs 1.0) is returned is not fixed *)
DistinctOK(obs, list, p) ==
  LET vals == DistinctValues(list, p) IN
  /\ \A i \in 1..(Len(obs) - 1) : Cmp(obs[i], obs[i + 1]) < 0
  /\ \A i \in 1..Len(obs) : \E j \in 1..Len(vals) : Same(obs[i], vals[j])
  /\ \A j \in 1..Len(vals) : \E i \in 1..Len(obs) : Cmp(obs[i], vals[j]) = 0
=============================================================================
