------------------------------ MODULE QueryRef ------------------------------
(***************************************************************************)
(* MatchRef: query matching written from MongoDB's documented semantics,   *)
(* independently of lungo's algorithm (DESIGN.md section 8).               *)
(*                                                                         *)
(* A field condition holds iff it holds for some member of the path        *)
(* expansion: follow embedded documents; at an array met before the last   *)
(* component fan out over its document elements (and take the element at a *)
(* numeric component); at the last component take the value and, if it is  *)
(* an array, each of its elements as well.  A path with no value           *)
(* contributes Missing, which equals null.  Negating operators are the     *)
(* negation of the positive form over the whole expansion.                 *)
(***************************************************************************)
EXTENDS Query

(* members reached by the path; leaf = TRUE also yields the elements of a final array *)
RECURSIVE Expand(_, _, _)
Expand(v, p, leaf) ==
  IF p = <<>> THEN (IF leaf /\ v.t = "arr" THEN <<v>> \o v.a ELSE <<v>>)
  ELSE LET key == Head(p)  rest == Tail(p) IN
    IF v.t = "doc" THEN
       (IF FieldIdx(v.f, key) # 0 THEN Expand(v.f[FieldIdx(v.f, key)][2], rest, leaf) ELSE <<Missing>>)
    ELSE IF v.t = "arr" THEN
       LET idx == IdxOf(key)
           byIdx == IF idx >= 0 /\ idx < Len(v.a) THEN Expand(v.a[idx + 1], rest, leaf) ELSE <<>>
           one(item) == IF item.t = "doc" THEN Expand(item, p, leaf) ELSE <<>>
           fan == FlatMapSeq(one, v.a)
       IN IF byIdx \o fan = <<>> THEN <<Missing>> ELSE byIdx \o fan
    ELSE <<Missing>>

AnyM(ms, P(_)) == \E i \in 1..Len(ms) : P(ms[i])

Bracket(m, v) == ClassRank(m) = ClassRank(v)
CmpHolds(op, m, v) ==
  Bracket(m, v) /\ CASE op = "$eq"  -> Cmp(m, v) = 0
                     [] op = "$gt"  -> Cmp(m, v) > 0
                     [] op = "$gte" -> Cmp(m, v) >= 0
                     [] op = "$lt"  -> Cmp(m, v) < 0
                     [] op = "$lte" -> Cmp(m, v) <= 0

B(b) == IF b THEN "T" ELSE "F"

RECURSIVE RefQueryX(_, _, _), RefPair(_, _, _, _, _), RefOp(_, _, _, _), RefExprs(_, _, _)

(* one operator on a path; well-formed operands assumed (core domain, clause 3) *)
RefOp(doc, op, p, v) ==
  LET ms == Expand(doc, p, TRUE)       \* leaf-expanding members
      ends == Expand(doc, p, FALSE)    \* values at the end of the path
  IN CASE op \in {"$eq", "$gt", "$gte", "$lt", "$lte"} -> B(AnyM(ms, LAMBDA m : CmpHolds(op, m, v)))
       [] op = "$ne"     -> B(~AnyM(ms, LAMBDA m : CmpHolds("$eq", m, v)))
       [] op = "$in"     -> B(AnyM(ms, LAMBDA m : \E i \in 1..Len(v.a) : Cmp(m, v.a[i]) = 0))
       [] op = "$nin"    -> B(~AnyM(ms, LAMBDA m : \E i \in 1..Len(v.a) : Cmp(m, v.a[i]) = 0))
       [] op = "$exists" -> B(Truthy(v) = AnyM(ends, LAMBDA m : m # Missing))
       [] op = "$type"   ->
            LET operands == IF v.t = "arr" THEN v.a ELSE <<v>>
                rs == [i \in 1..Len(operands) |-> ResolveType(operands[i])]
            IN B(AnyM(ms, LAMBDA m : m # Missing /\
                         \E i \in 1..Len(rs) : (rs[i].number /\ m.t = "num") \/ (~rs[i].number /\ rs[i].code = TypeCode(m))))
       [] op = "$size"   -> B(AnyM(ends, LAMBDA m : m.t = "arr" /\ TruncInt(v).ok /\ Len(m.a) = TruncInt(v).n))
       [] op = "$all"    -> B(v.a # <<>> /\ \A i \in 1..Len(v.a) : AnyM(ms, LAMBDA m : Cmp(m, v.a[i]) = 0))
       [] op = "$mod"    -> LET dv == ModOperand(v.a[1]).n  rm == ModOperand(v.a[2]).n IN
                            B(AnyM(ms, LAMBDA m : m.t = "num" /\ m.k # "dec" /\ TruncInt(m).ok /\ GoRem(TruncInt(m).n, dv) = rm))
       [] op \in {"$bitsAllSet", "$bitsAllClear", "$bitsAnySet", "$bitsAnyClear"} ->
            LET ps == BitMask(v).ps
                holds(m) == HasBits(m) /\
                   LET nset == Cardinality({i \in 1..Len(ps) : FieldBit(m, ps[i])}) IN
                   CASE op = "$bitsAllSet"   -> nset = Len(ps)
                     [] op = "$bitsAllClear" -> nset = 0
                     [] op = "$bitsAnySet"   -> nset > 0
                     [] op = "$bitsAnyClear" -> nset < Len(ps)
            IN B(AnyM(ms, holds))
       [] op = "$not"    -> Neg(RefExprs(doc, p, v.f))
       [] op = "$elemMatch" ->
            B(v.f # <<>> /\ AnyM(ends, LAMBDA m : m.t = "arr" /\
                \E i \in 1..Len(m.a) :
                   LET item == Doc(<< <<"item", m.a[i]>> >>) IN
                   \A j \in 1..Len(v.f) : RefPair(item, <<"item">>, v.f[j], FALSE, FALSE) = "T"))

(* conjunction of operator expressions on one path *)
RefExprs(doc, p, exps) ==
  B(\A i \in 1..Len(exps) : RefOp(doc, exps[i][1], p, exps[i][2]) = "T")

RefPair(doc, prefix, pair, root, kf) ==
  LET key == pair[1]  val == pair[2] IN
  IF IsOp(key) THEN
     IF root THEN
        CASE key = "$jsonSchema" -> B(ValidX(val, doc, kf))
          [] key = "$and" -> B(\A i \in 1..Len(val.a) : RefQueryX(doc, val.a[i], kf) = "T")
          [] key = "$or"  -> B(\E i \in 1..Len(val.a) : RefQueryX(doc, val.a[i], kf) = "T")
          [] key = "$nor" -> B(~\E i \in 1..Len(val.a) : RefQueryX(doc, val.a[i], kf) = "T")
     ELSE RefOp(doc, key, prefix, val)
  ELSE LET p == prefix \o PathOf(key) IN
       IF val.t = "doc" /\ val.f # <<>> /\ IsOp(val.f[1][1]) THEN RefExprs(doc, p, val.f)
       ELSE RefOp(doc, "$eq", p, val)

RefQueryX(doc, q, kf) == B(\A i \in 1..Len(q.f) : RefPair(doc, <<>>, q.f[i], TRUE, kf) = "T")
RefQuery(doc, q) == RefQueryX(doc, q, FALSE)

MatchRef(doc, query) == RefQuery(doc, query)
(* the reference semantics with known finding KF-C10-2 (Schema.tla) switched on: used to recognise that finding only *)
MatchRefKF(doc, query) == RefQueryX(doc, query, TRUE)

(***************************************************************************)
(* The core domain (DESIGN.md 8.2), decided on the reference side.         *)
(***************************************************************************)
RECURSIVE NoNestedArrays(_)
NoNestedArrays(v) ==
  CASE v.t = "arr" -> \A i \in 1..Len(v.a) :
                        /\ v.a[i].t # "arr"
                        /\ NoNestedArrays(v.a[i])
    [] v.t = "doc" -> \A i \in 1..Len(v.f) : NoNestedArrays(v.f[i][2])
    [] OTHER -> TRUE

(* some proper prefix of the path evaluates to an array (reference side) *)
RECURSIVE Traverses(_, _)
Traverses(v, p) ==
  IF p = <<>> THEN FALSE
  ELSE IF v.t = "arr" THEN TRUE
  ELSE IF v.t = "doc" /\ FieldIdx(v.f, Head(p)) # 0 THEN Traverses(v.f[FieldIdx(v.f, Head(p))][2], Tail(p))
  ELSE FALSE

NonNullScalar(x) == x.t \notin {"null", "missing", "doc", "arr"}
TraverseOps == {"$eq", "$ne", "$gt", "$gte", "$lt", "$lte", "$in", "$nin", "$mod", "$type", "$size",
                "$bitsAllSet", "$bitsAllClear", "$bitsAnySet", "$bitsAnyClear"}

(* A numeric path component that meets an array is read by MongoDB both as an index and as a field name of the  *)
(* element documents; lungo reads it as an index when the index exists and as a field name otherwise.  The two   *)
(* readings are both non-empty -- and the path is outside the core domain -- only when the index exists and some  *)
(* element document has a field of that name.                                                                    *)
RECURSIVE AmbiguousIndex(_, _)
AmbiguousIndex(v, p) ==
  IF p = <<>> THEN FALSE
  ELSE IF v.t = "doc" THEN FieldIdx(v.f, Head(p)) # 0 /\ AmbiguousIndex(v.f[FieldIdx(v.f, Head(p))][2], Tail(p))
  ELSE IF v.t = "arr" THEN
       LET idx == IdxOf(Head(p)) IN
       \/ (idx >= 0 /\ idx < Len(v.a) /\ \E i \in 1..Len(v.a) : v.a[i].t = "doc" /\ FieldIdx(v.a[i].f, Head(p)) # 0)
       \/ (idx >= 0 /\ idx < Len(v.a) /\ AmbiguousIndex(v.a[idx + 1], Tail(p)))
       \/ \E i \in 1..Len(v.a) : v.a[i].t = "doc" /\ AmbiguousIndex(v.a[i], p)
  ELSE FALSE

RECURSIVE CoreQuery(_, _), CorePair(_, _, _, _), CoreOp(_, _, _, _)
CoreOp(doc, op, p, v) ==
  IF AmbiguousIndex(doc, p) THEN FALSE
  ELSE IF op = "$not" THEN v.t = "doc" /\ \A i \in 1..Len(v.f) : CoreOp(doc, v.f[i][1], p, v.f[i][2])
  ELSE IF op = "$elemMatch" THEN
       /\ ~Traverses(doc, p)
       /\ v.t = "doc"
       /\ LET arr == Get(doc, p) IN     \* conditions inside are evaluated on each element as {item: e}
          arr.t = "arr" => \A i \in 1..Len(arr.a) : \A j \in 1..Len(v.f) :
                             CorePair(Doc(<< <<"item", arr.a[i]>> >>), <<"item">>, v.f[j], FALSE)
  ELSE IF ~Traverses(doc, p) THEN TRUE
  ELSE IF op = "$exists" THEN      \* over a fan-out path: in the domain unless a value at the end of the path is an empty array
       LET ends == Expand(doc, p, FALSE) IN \A i \in 1..Len(ends) : ends[i] # EmptyArr
  ELSE /\ op \in TraverseOps
       /\ CASE op = "$size" -> TRUE       \* ($all takes an array operand: outside the domain on array-traversing paths)
            [] op \in {"$in", "$nin"} -> v.t = "arr" /\ \A i \in 1..Len(v.a) : NonNullScalar(v.a[i])
            [] op \in {"$mod", "$type"} \/ op \in {"$bitsAllSet", "$bitsAllClear", "$bitsAnySet", "$bitsAnyClear"} -> TRUE
            [] OTHER -> NonNullScalar(v)
CorePair(doc, prefix, pair, root) ==
  LET key == pair[1]  val == pair[2] IN
  IF IsOp(key) THEN
     IF root THEN IF key = "$jsonSchema" THEN val.t = "doc" /\ SchemaWF(val)      \* well-formed schemas of the modelled keyword subset
                  ELSE val.t = "arr" /\ \A i \in 1..Len(val.a) : CoreQuery(doc, val.a[i])
     ELSE CoreOp(doc, key, prefix, val)
  ELSE LET p == prefix \o PathOf(key) IN
       IF val.t = "doc" /\ val.f # <<>> /\ IsOp(val.f[1][1])
         THEN \A i \in 1..Len(val.f) : CoreOp(doc, val.f[i][1], p, val.f[i][2])
       ELSE CoreOp(doc, "$eq", p, val)
CoreQuery(doc, q) == q.t = "doc" /\ \A i \in 1..Len(q.f) : CorePair(doc, <<>>, q.f[i], TRUE)

(* $elemMatch sub-conditions are evaluated against each element as {item: e}:
   the element documents must satisfy the domain for the inner paths as well. *)
InCore(doc, q) == NoNestedArrays(doc) /\ CoreQuery(doc, q)
=============================================================================
