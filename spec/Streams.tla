------------------------------ MODULE Streams ------------------------------
(***************************************************************************)
(* Change streams (property C09) over the history of the change log.       *)
(*   hist   every event ever committed, in commit order:                   *)
(*          [db, coll ("" for dropDatabase), op, id]                       *)
(*   first  index in hist of the oldest event retention has kept           *)
(*          (Len(hist) + 1 when none is kept)                              *)
(*   start  index in hist of the stream's start position (0: before all)   *)
(*   sc     scope <<db, coll>>, "" = any                                   *)
(* A stream delivers exactly the events of its scope after its start       *)
(* position, in order, each once; a drop of its collection or database     *)
(* ends it with an invalidate event; an undelivered event that retention   *)
(* discarded makes it fail with the lost-position error.                   *)
(***************************************************************************)
EXTENDS Integers, Sequences, FiniteSets

InScope(ev, sc) ==
  /\ (sc[1] = "" \/ ev.db = sc[1])
  /\ (sc[2] = "" \/ ev.coll = sc[2] \/ ev.op = "dropDatabase")
Invalidating(ev, sc) ==
  \/ (sc[1] # "" /\ sc[2] # "" /\ ev.op = "drop")
  \/ (sc[1] # "" /\ ev.op = "dropDatabase")

(* indices of the events the stream delivers, cut after the first invalidating one *)
RECURSIVE DeliveriesFrom(_, _, _)
DeliveriesFrom(hist, i, sc) ==
  IF i > Len(hist) THEN <<>>
  ELSE IF ~InScope(hist[i], sc) THEN DeliveriesFrom(hist, i + 1, sc)
  ELSE IF Invalidating(hist[i], sc) THEN <<i>>
  ELSE <<i>> \o DeliveriesFrom(hist, i + 1, sc)
Deliveries(hist, start, sc) == DeliveriesFrom(hist, start + 1, sc)

(* what one TryNext call may return, given k events delivered so far *)
\* res: [ok, id, op, err ("", "lost", "other")]
NextOK(hist, first, start, sc, k, invalidated, closed, res) ==
  LET D == Deliveries(hist, start, sc) IN
  IF closed \/ invalidated THEN ~res.ok
  ELSE IF k < Len(D) THEN
     LET idx == D[k + 1]
         posTrimmed == IF k = 0 THEN (start > 0 /\ start < first) ELSE D[k] < first
     IN IF idx < first THEN ~res.ok /\ res.err = "lost"                       \* must not skip a discarded event
        ELSE \/ (res.ok /\ res.id = hist[idx].id /\ res.op = hist[idx].op)
             \/ (posTrimmed /\ ~res.ok /\ res.err = "lost")                    \* its own position was discarded: failing is allowed
  ELSE IF Len(D) > 0 /\ k = Len(D) /\ Invalidating(hist[D[k]], sc) THEN res.ok /\ res.op = "invalidate"
  ELSE LET posTrimmed == IF k = 0 THEN (start > 0 /\ start < first) ELSE D[k] < first IN
       ~res.ok /\ (res.err = "" \/ (posTrimmed /\ res.err = "lost"))

(* the complete sequence a stream delivered until it was drained *)
DeliveredOK(hist, start, sc, delivered, gotInvalidate) ==
  LET D == Deliveries(hist, start, sc) IN
  /\ Len(delivered) = Len(D)
  /\ \A i \in 1..Len(D) : delivered[i] = hist[D[i]].id
  /\ gotInvalidate = (Len(D) > 0 /\ Invalidating(hist[D[Len(D)]], sc))

(* a consumer that may have fallen behind retention: what it received is a gap-free prefix of its deliveries, and it *)
(* stops short of them only by failing with the lost-position error                                               *)
DeliveredPrefixOK(hist, start, sc, delivered, lost) ==
  LET D == Deliveries(hist, start, sc) IN
  /\ Len(delivered) <= Len(D)
  /\ \A i \in 1..Len(delivered) : delivered[i] = hist[D[i]].id
  /\ (Len(delivered) < Len(D) => lost)
=============================================================================
