------------------------------ MODULE Database ------------------------------
(***************************************************************************)
(* The sequential reference model of the driver API (properties C01, C02,  *)
(* C07, C08, C15, C19): a database is a function from namespace names      *)
(* ("db.coll") to collections                                              *)
(*     [docs |-> sequence of documents in natural (insertion) order,       *)
(*      idx  |-> set of index definitions                                  *)
(*               [name, key, unique, partial (document or Missing), exp]]  *)
(* Indexes have no content of their own: what an index holds is derived    *)
(* from docs (IndexKeys below), which is exactly property C15.             *)
(* Every driver call is a function  Exec(db, op, ns, a)  returning         *)
(*     [res |-> result record, db |-> new database, ev |-> change events]  *)
(* A call that fails returns the database unchanged and no events (C02).   *)
(***************************************************************************)
EXTENDS SortDistinct, Projection

(* ---------------------------------------------------------------------- *)
(* index keys (bsonkit/index.go tuples, mongokit/index.go partial gate)    *)
(* ---------------------------------------------------------------------- *)
IdIndex == [name |-> "_id_", key |-> Doc(<< <<"_id", I32(1)>> >>), unique |-> TRUE, partial |-> Missing, exp |-> -1]

ColValues(doc, p) ==
  LET v == All(doc, p, TRUE, TRUE).v IN
  IF v.t = "arr" THEN (IF v.a = <<>> THEN <<v>> ELSE v.a) ELSE <<v>>
RECURSIVE TuplesFrom(_, _, _)
TuplesFrom(doc, key, i) ==       \* set of key tuples (sequences of values), Cartesian product over the columns
  IF i > Len(key) THEN {<<>>}
  ELSE LET vs == ColValues(doc, PathOf(key[i][1]))
           rest == TuplesFrom(doc, key, i + 1)
       IN {<<vs[j]>> \o t : j \in 1..Len(vs), t \in rest}
Tuples(doc, def) == TuplesFrom(doc, def.key.f, 1)
KeyEq(t1, t2) == \A j \in 1..Len(t1) : Cmp(t1[j], t2[j]) = 0
InIndexDomain(doc, def) == def.partial = Missing \/ MatchImpl(doc, def.partial) = "T"
Collide(d1, d2, def) ==
  /\ InIndexDomain(d1, def) /\ InIndexDomain(d2, def)
  /\ \E t1 \in Tuples(d1, def) : \E t2 \in Tuples(d2, def) : KeyEq(t1, t2)
UniqueViolation(docs, def) ==
  def.unique /\ \E i, j \in 1..Len(docs) : i < j /\ Collide(docs[i], docs[j], def)
AnyViolation(docs, idx) == \E def \in idx : UniqueViolation(docs, def)
(* C07 on a state *)
UniqueOK(coll) == ~AnyViolation(coll.docs, coll.idx)

(* order of two documents in an index listing: by key columns with direction *)
IndexCols(def) == Columns(def.key).cols
(* C15 on a state: an index listing (bsonkit Index.List) holds exactly the documents of the partial domain,  *)
(* each once, and the listing is consistent with key order: every document appears at the position of its   *)
(* smallest key tuple, so the sequence of smallest tuples never decreases                                     *)
TupleCmp(t1, t2, cols) ==
  LET F[i \in 0..Len(cols)] ==
        IF i = 0 THEN 0
        ELSE IF F[i - 1] # 0 THEN F[i - 1]
        ELSE LET c == Cmp(t1[i], t2[i]) IN IF cols[i].rev THEN -c ELSE c
  IN F[Len(cols)]
MinTuple(doc, def) ==
  LET ts == Tuples(doc, def)  cols == IndexCols(def) IN
  CHOOSE t \in ts : \A u \in ts : TupleCmp(t, u, cols) <= 0
IndexListingOK(listing, docs, def) ==
  LET dom == FilterSeq(LAMBDA d : InIndexDomain(d, def), docs)  cols == IndexCols(def) IN
  /\ Len(listing) = Len(dom)
  /\ \A i \in 1..Len(dom) : \E j \in 1..Len(listing) : listing[j] = dom[i]
  /\ \A i \in 1..(Len(listing) - 1) : TupleCmp(MinTuple(listing[i], def), MinTuple(listing[i + 1], def), cols) <= 0

(* generated index names (mongokit IndexConfig.Name): path and direction joined by "_" *)
RECURSIVE GenNameFrom(_, _, _)
GenNameFrom(key, cols, i) ==
  IF i > Len(key) THEN ""
  ELSE (IF i = 1 THEN "" ELSE "_") \o key[i][1] \o "_" \o (IF cols[i].rev THEN "-1" ELSE "1") \o GenNameFrom(key, cols, i + 1)
GenName(key) == GenNameFrom(key.f, Columns(key).cols, 1)

(* ---------------------------------------------------------------------- *)
(* collections (mongokit/collection.go)                                    *)
(* ---------------------------------------------------------------------- *)
NewColl == [docs |-> <<>>, idx |-> {IdIndex}]
Id(doc) == Get(doc, <<"_id">>)
WithId(doc, id) == IF Id(doc) = Missing THEN Put(doc, <<"_id">>, id, TRUE).doc ELSE doc
PosOf(docs, d) == CHOOSE i \in 1..Len(docs) : docs[i] = d
ReplaceAt(docs, i, d) == [docs EXCEPT ![i] = d]
RemoveAll(docs, gone) == FilterSeq(LAMBDA d : \A i \in 1..Len(gone) : gone[i] # d, docs)

ErrRes(cls) == [err |-> TRUE, cls |-> cls]
(* Insert: [err, cls, coll, doc] ; gen = the _id to use when the document has none *)
CInsert(coll, doc, gen) ==
  LET d == WithId(doc, gen)  docs == Append(coll.docs, d) IN
  IF AnyViolation(docs, coll.idx) THEN [err |-> TRUE, cls |-> "dup", coll |-> coll, doc |-> d]
  ELSE [err |-> FALSE, cls |-> "", coll |-> [coll EXCEPT !.docs = docs], doc |-> d]

(* Replace the first match: [err, cls, coll, matched, modified] *)
CReplace(coll, q, repl, sort) ==
  LET f == FindImpl(coll.docs, q, sort, 0, 1) IN
  IF f.err THEN [err |-> TRUE, cls |-> "query", coll |-> coll, matched |-> <<>>, modified |-> <<>>]
  ELSE IF f.list = <<>> THEN [err |-> FALSE, cls |-> "", coll |-> coll, matched |-> <<>>, modified |-> <<>>]
  ELSE LET old == f.list[1]
           new == WithId(repl, Id(old))
       IN IF Cmp(Id(new), Id(old)) # 0 THEN [err |-> TRUE, cls |-> "immutable", coll |-> coll, matched |-> <<>>, modified |-> <<>>]
          ELSE LET docs == ReplaceAt(coll.docs, PosOf(coll.docs, old), new) IN
               IF AnyViolation(docs, coll.idx) THEN [err |-> TRUE, cls |-> "dup", coll |-> coll, matched |-> <<>>, modified |-> <<>>]
               ELSE [err |-> FALSE, cls |-> "", coll |-> [coll EXCEPT !.docs = docs], matched |-> <<old>>,
                     modified |-> IF new = old THEN <<>> ELSE <<new>>]

(* Update all matches in the window: [err, cls, coll, matched, modified, recs (one change record per modified)] *)
CUpdate(coll, q, upd, sort, skip, limit, afs) ==
  LET f == FindImpl(coll.docs, q, sort, skip, limit)
      none == [err |-> FALSE, cls |-> "", coll |-> coll, matched |-> <<>>, modified |-> <<>>, recs |-> <<>>]
  IN IF f.err THEN [none EXCEPT !.err = TRUE, !.cls = "query"]
     ELSE IF f.list = <<>> THEN none
     ELSE LET rs == [i \in 1..Len(f.list) |-> Apply(f.list[i], upd, FALSE, afs)] IN
          IF \E i \in 1..Len(rs) : rs[i].err THEN [none EXCEPT !.err = TRUE, !.cls = "update"]
          ELSE IF \E i \in 1..Len(rs) : Cmp(Id(rs[i].doc), Id(f.list[i])) # 0 THEN [none EXCEPT !.err = TRUE, !.cls = "immutable"]
          ELSE LET G[i \in 0..Len(rs)] == IF i = 0 THEN coll.docs ELSE ReplaceAt(G[i - 1], PosOf(coll.docs, f.list[i]), rs[i].doc)
                   docs == G[Len(rs)]
                   changed == FilterSeq(LAMBDA i : rs[i].doc # f.list[i], [i \in 1..Len(rs) |-> i])
               IN IF AnyViolation(docs, coll.idx) THEN [none EXCEPT !.err = TRUE, !.cls = "dup"]
                  ELSE [err |-> FALSE, cls |-> "", coll |-> [coll EXCEPT !.docs = docs], matched |-> f.list,
                        modified |-> [k \in 1..Len(changed) |-> rs[changed[k]].doc],
                        recs |-> [k \in 1..Len(changed) |-> rs[changed[k]].rec]]

(* Upsert: [err, cls, coll, doc]; exactly one of repl / upd is not Missing *)
CUpsert(coll, q, repl, upd, afs, gen) ==
  LET seed == Extract(q)
      fail(cls) == [err |-> TRUE, cls |-> cls, coll |-> coll, doc |-> Missing]
  IN IF seed.err THEN fail("query")
     ELSE LET qid == Id(seed.doc) IN
       IF repl # Missing /\ qid # Missing /\ Id(repl) # Missing /\ Cmp(Id(repl), qid) # 0 THEN fail("immutable")
       ELSE LET base == IF repl # Missing THEN (IF Id(repl) # Missing THEN repl ELSE IF qid # Missing THEN WithId(repl, qid) ELSE repl)
                        ELSE seed.doc
                ap == IF upd # Missing THEN Apply(base, upd, TRUE, afs) ELSE [err |-> FALSE, doc |-> base, rec |-> <<>>]
            IN IF ap.err THEN fail("update")
               ELSE LET r == CInsert(coll, ap.doc, gen) IN
                    IF r.err THEN fail(r.cls) ELSE [err |-> FALSE, cls |-> "", coll |-> r.coll, doc |-> r.doc]

(* Delete: [err, cls, coll, matched] *)
CDelete(coll, q, sort, skip, limit) ==
  LET f == FindImpl(coll.docs, q, sort, skip, limit) IN
  IF f.err THEN [err |-> TRUE, cls |-> "query", coll |-> coll, matched |-> <<>>]
  ELSE [err |-> FALSE, cls |-> "", coll |-> [coll EXCEPT !.docs = RemoveAll(coll.docs, f.list)], matched |-> f.list]

(* ---------------------------------------------------------------------- *)
(* change events (transaction.go append)                                   *)
(* ---------------------------------------------------------------------- *)
Ev(op, ns, key, full, rec) == [op |-> op, ns |-> ns, key |-> key, full |-> full, rec |-> rec]
EvInsert(ns, d) == Ev("insert", ns, Id(d), d, <<>>)
EvReplace(ns, d) == Ev("replace", ns, Id(d), d, <<>>)
EvUpdate(ns, d, rec) == Ev("update", ns, Id(d), d, rec)
EvDelete(ns, d) == Ev("delete", ns, Id(d), Missing, <<>>)
EvDrop(ns) == Ev("drop", ns, Missing, Missing, <<>>)
EvDropDB(db) == Ev("dropDatabase", db, Missing, Missing, <<>>)

(* ---------------------------------------------------------------------- *)
(* one write operation of a bulk / a single write (transaction.go)         *)
(*   model: [kind, q, doc (document / update / replacement), upsert, many, *)
(*           sort, afs]                                                    *)
(* result: [err, cls, coll, ev, n (record of counts), upid, doc ...]       *)
(* ---------------------------------------------------------------------- *)
Counts(ins, mat, mod, del, ups) == [inserted |-> ins, matched |-> mat, modified |-> mod, deleted |-> del, upserted |-> ups]
Zero == Counts(0, 0, 0, 0, 0)
OpFail(coll, cls) == [err |-> TRUE, cls |-> cls, coll |-> coll, ev |-> <<>>, n |-> Zero, upid |-> Missing, ids |-> <<>>,
                      before |-> Missing, after |-> Missing]
OpOK(coll, ev, n, upid, ids, before, after) ==
  [err |-> FALSE, cls |-> "", coll |-> coll, ev |-> ev, n |-> n, upid |-> upid, ids |-> ids, before |-> before, after |-> after]

WInsert(coll, ns, doc, gen) ==
  LET r == CInsert(coll, doc, gen) IN
  IF r.err THEN OpFail(coll, r.cls)
  ELSE OpOK(r.coll, <<EvInsert(ns, r.doc)>>, Counts(1, 0, 0, 0, 0), Missing, <<Id(r.doc)>>, Missing, r.doc)

WReplace(coll, ns, q, repl, sort, upsert, gen) ==
  LET r == CReplace(coll, q, repl, sort) IN
  IF r.err THEN OpFail(coll, r.cls)
  ELSE IF r.matched = <<>> /\ upsert THEN
     LET u == CUpsert(coll, q, repl, Missing, <<>>, gen) IN
     IF u.err THEN OpFail(coll, u.cls)
     ELSE OpOK(u.coll, <<EvInsert(ns, u.doc)>>, Counts(0, 0, 0, 0, 1), Id(u.doc), <<>>, Missing, u.doc)
  ELSE OpOK(r.coll, IF r.modified = <<>> THEN <<>> ELSE <<EvReplace(ns, r.modified[1])>>,
            Counts(0, Len(r.matched), Len(r.modified), 0, 0), Missing, <<>>,
            IF r.matched = <<>> THEN Missing ELSE r.matched[1],
            IF r.modified # <<>> THEN r.modified[1] ELSE IF r.matched # <<>> THEN r.matched[1] ELSE Missing)

WUpdate(coll, ns, q, upd, sort, upsert, skip, limit, afs, gen) ==
  LET r == CUpdate(coll, q, upd, sort, skip, limit, afs) IN
  IF r.err THEN OpFail(coll, r.cls)
  ELSE IF r.matched = <<>> /\ upsert THEN
     LET u == CUpsert(coll, q, Missing, upd, afs, gen) IN
     IF u.err THEN OpFail(coll, u.cls)
     ELSE OpOK(u.coll, <<EvInsert(ns, u.doc)>>, Counts(0, 0, 0, 0, 1), Id(u.doc), <<>>, Missing, u.doc)
  ELSE OpOK(r.coll, [k \in 1..Len(r.modified) |-> EvUpdate(ns, r.modified[k], r.recs[k])],
            Counts(0, Len(r.matched), Len(r.modified), 0, 0), Missing, <<>>,
            IF r.matched = <<>> THEN Missing ELSE r.matched[1],
            IF r.modified # <<>> THEN r.modified[1] ELSE IF r.matched # <<>> THEN r.matched[1] ELSE Missing)

WDelete(coll, ns, q, sort, skip, limit) ==
  LET r == CDelete(coll, q, sort, skip, limit) IN
  IF r.err THEN OpFail(coll, r.cls)
  ELSE OpOK(r.coll, [k \in 1..Len(r.matched) |-> EvDelete(ns, r.matched[k])], Counts(0, 0, 0, Len(r.matched), 0), Missing, <<>>,
            IF r.matched = <<>> THEN Missing ELSE r.matched[1], Missing)

(* collection.go validateReplacement: a replacement whose first key starts with "$" is rejected before the engine *)
BadReplacement(repl) == repl.f # <<>> /\ IsOp(repl.f[1][1])

WModel(coll, ns, m, gen) ==
  CASE m.kind = "insert"  -> WInsert(coll, ns, m.doc, gen)
    [] m.kind = "replace" -> WReplace(coll, ns, m.q, m.doc, m.sort, m.upsert, gen)
    [] m.kind = "update"  -> WUpdate(coll, ns, m.q, m.doc, m.sort, m.upsert, 0, IF m.many THEN 0 ELSE 1, m.afs, gen)
    [] m.kind = "delete"  -> WDelete(coll, ns, m.q, m.sort, 0, IF m.many THEN 0 ELSE 1)

(* a sequence of models with per-item atomicity: [coll, ev, results (one per processed item), n] *)
RECURSIVE Batch(_, _, _, _, _, _, _)
Batch(coll, ns, models, gens, ordered, i, acc) ==
  IF i > Len(models) THEN acc
  ELSE LET r == WModel(acc.coll, ns, models[i], gens[i]) IN
       IF r.err THEN
          LET acc2 == [acc EXCEPT !.results = Append(@, r)] IN
          IF ordered THEN acc2 ELSE Batch(coll, ns, models, gens, ordered, i + 1, acc2)
       ELSE Batch(coll, ns, models, gens, ordered, i + 1,
                  [coll |-> r.coll, ev |-> acc.ev \o r.ev, results |-> Append(acc.results, r)])
RunBatch(coll, ns, models, gens, ordered) == Batch(coll, ns, models, gens, ordered, 1, [coll |-> coll, ev |-> <<>>, results |-> <<>>])

(* ---------------------------------------------------------------------- *)
(* the database                                                            *)
(* ---------------------------------------------------------------------- *)
Exists(db, ns) == ns \in DOMAIN db
CollOf(db, ns) == IF Exists(db, ns) THEN db[ns] ELSE NewColl
SetColl(db, ns, coll) == [n \in DOMAIN db \cup {ns} |-> IF n = ns THEN coll ELSE db[n]]
DbOf(ns) == Str[ns].p[1]
DropNs(db, gone) == [n \in DOMAIN db \ gone |-> db[n]]

R(res, db, ev) == [res |-> res, db |-> db, ev |-> ev]
(* a result record always has every field, so that the trace spec can compare field by field *)
Res == [err |-> FALSE, n |-> Zero, ids |-> <<>>, upid |-> Missing, docs |-> <<>>, vals |-> <<>>, names |-> <<>>, count |-> 0]
Failed(db) == R([Res EXCEPT !.err = TRUE], db, <<>>)

(* persist a write on ns: the namespace is created only when the call had an effect (transaction.go) *)
Persist(db, ns, w) == IF w.ev = <<>> THEN db ELSE SetColl(db, ns, w.coll)

ReadDocs(db, ns, a) ==      \* Find / FindOne: [err, list] after projection
  IF ~Exists(db, ns) THEN [err |-> FALSE, list |-> <<>>]
  ELSE LET f == FindImpl(db[ns].docs, a.q, a.sort, a.skip, a.limit) IN
       IF f.err THEN [err |-> TRUE, list |-> <<>>]
       ELSE IF a.proj = Missing THEN f
       ELSE LET ps == [i \in 1..Len(f.list) |-> Project(f.list[i], a.proj)] IN
            IF \E i \in 1..Len(ps) : ps[i].err THEN [err |-> TRUE, list |-> <<>>]
            ELSE [err |-> FALSE, list |-> [i \in 1..Len(ps) |-> ps[i].doc]]

(* the pre- or post-image returned by FindOneAnd*, projected *)
Returned(w, a) ==
  LET d == IF w.n.upserted = 1 THEN (IF a.after THEN w.after ELSE Missing)
           ELSE IF a.after THEN w.after ELSE w.before
  IN IF d = Missing THEN [err |-> FALSE, docs |-> <<>>]
     ELSE IF a.proj = Missing THEN [err |-> FALSE, docs |-> <<d>>]
     ELSE LET p == Project(d, a.proj) IN IF p.err THEN [err |-> TRUE, docs |-> <<>>] ELSE [err |-> FALSE, docs |-> <<p.doc>>]

SingleWrite(db, ns, w) ==
  IF w.err THEN Failed(db)
  ELSE R([Res EXCEPT !.n = w.n, !.upid = w.upid, !.ids = w.ids], Persist(db, ns, w), w.ev)

FindAndModify(db, ns, w, a) ==
  IF w.err THEN Failed(db)
  ELSE LET ret == Returned(w, a) IN
       \* a projection that is rejected fails the whole call: nothing is written (C02)
       IF ret.err THEN Failed(db)
       ELSE R([Res EXCEPT !.docs = ret.docs, !.n = w.n], Persist(db, ns, w), w.ev)

IndexDefOf(a, name) == [name |-> name, key |-> a.key, unique |-> a.unique, partial |-> a.partial, exp |-> a.exp]
SameDef(d1, d2) == Cmp(d1.key, d2.key) = 0 /\ d1.unique = d2.unique /\ d1.exp = d2.exp /\
                   Cmp(IF d1.partial = Missing THEN EmptyDoc ELSE d1.partial, IF d2.partial = Missing THEN EmptyDoc ELSE d2.partial) = 0

CreateIndex(db, ns, a) ==
  LET coll == CollOf(db, ns)
      cs == Columns(a.key)
      name == IF a.name = "" /\ ~cs.err THEN GenName(a.key) ELSE a.name
      def == IndexDefOf(a, name)
      same == {d \in coll.idx : d.name = name}
  IN IF a.key.f = <<>> \/ cs.err THEN Failed(db)
     ELSE IF a.exp >= 0 /\ Len(a.key.f) > 1 THEN Failed(db)
     ELSE IF same # {} /\ \A d \in same : SameDef(d, def) THEN R([Res EXCEPT !.names = <<name>>], SetColl(db, ns, coll), <<>>)
     ELSE IF \E d \in coll.idx : Cmp(d.key, a.key) = 0 THEN Failed(db)
     ELSE IF same # {} THEN Failed(db)       \* same name, other key: the property calls this a conflicting definition
     ELSE IF UniqueViolation(coll.docs, def) THEN Failed(db)
     ELSE R([Res EXCEPT !.names = <<name>>], SetColl(db, ns, [coll EXCEPT !.idx = @ \cup {def}]), <<>>)

Exec(db, op, ns, a) ==
  LET coll == CollOf(db, ns) IN
  CASE op = "insertOne" -> SingleWrite(db, ns, WInsert(coll, ns, a.doc, a.gen))
    [] op = "insertMany" ->
         LET models == [i \in 1..Len(a.docs) |-> [kind |-> "insert", doc |-> a.docs[i]]]
             b == RunBatch(coll, ns, models, [i \in 1..Len(a.docs) |-> a.gen], a.ordered)
             okIds == FlatMapSeq(LAMBDA r : IF r.err THEN <<>> ELSE r.ids, b.results)
         IN R([Res EXCEPT !.err = \E i \in 1..Len(b.results) : b.results[i].err, !.ids = okIds],
              IF b.ev = <<>> THEN db ELSE SetColl(db, ns, b.coll), b.ev)
    [] op = "bulkWrite" ->
         IF \E i \in 1..Len(a.models) : a.models[i].kind = "replace" /\ BadReplacement(a.models[i].doc) THEN Failed(db)
         ELSE
         LET b == RunBatch(coll, ns, a.models, [i \in 1..Len(a.models) |-> a.gen], a.ordered)
             oks == FilterSeq(LAMBDA r : ~r.err, b.results)
             sum(f(_)) == LET S[i \in 0..Len(oks)] == IF i = 0 THEN 0 ELSE S[i - 1] + f(oks[i]) IN S[Len(oks)]
             upids == FlatMapSeq(LAMBDA r : IF r.err \/ r.upid = Missing THEN <<>> ELSE <<r.upid>>, b.results)
         IN R([Res EXCEPT !.err = \E i \in 1..Len(b.results) : b.results[i].err,
                          !.n = Counts(sum(LAMBDA r : r.n.inserted), sum(LAMBDA r : r.n.matched), sum(LAMBDA r : r.n.modified),
                                       sum(LAMBDA r : r.n.deleted), sum(LAMBDA r : r.n.upserted)),
                          !.ids = upids],
              IF b.ev = <<>> THEN db ELSE SetColl(db, ns, b.coll), b.ev)
    [] op \in {"updateOne", "updateMany"} ->
         IF ~Exists(db, ns) /\ ~a.upsert THEN R(Res, db, <<>>)
         ELSE SingleWrite(db, ns, WUpdate(coll, ns, a.q, a.upd, EmptyDoc, a.upsert, 0, IF op = "updateOne" THEN 1 ELSE 0, a.afs, a.gen))
    [] op = "replaceOne" ->
         IF BadReplacement(a.repl) THEN Failed(db)
         ELSE IF ~Exists(db, ns) /\ ~a.upsert THEN R(Res, db, <<>>)
         ELSE SingleWrite(db, ns, WReplace(coll, ns, a.q, a.repl, EmptyDoc, a.upsert, a.gen))
    [] op \in {"deleteOne", "deleteMany"} ->
         IF ~Exists(db, ns) THEN R(Res, db, <<>>)
         ELSE SingleWrite(db, ns, WDelete(coll, ns, a.q, EmptyDoc, 0, IF op = "deleteOne" THEN 1 ELSE 0))
    [] op = "findOneAndUpdate" ->
         IF ~Exists(db, ns) /\ ~a.upsert THEN R(Res, db, <<>>)
         ELSE FindAndModify(db, ns, WUpdate(coll, ns, a.q, a.upd, a.sort, a.upsert, 0, 1, a.afs, a.gen), a)
    [] op = "findOneAndReplace" ->
         IF BadReplacement(a.repl) THEN Failed(db)
         ELSE IF ~Exists(db, ns) /\ ~a.upsert THEN R(Res, db, <<>>)
         ELSE FindAndModify(db, ns, WReplace(coll, ns, a.q, a.repl, a.sort, a.upsert, a.gen), a)
    [] op = "findOneAndDelete" ->
         IF ~Exists(db, ns) THEN R(Res, db, <<>>)
         ELSE FindAndModify(db, ns, WDelete(coll, ns, a.q, a.sort, 0, 1), [a EXCEPT !.after = FALSE])
    [] op \in {"find", "findOne"} ->
         LET f == ReadDocs(db, ns, a) IN R([Res EXCEPT !.err = f.err, !.docs = f.list], db, <<>>)
    [] op = "count" ->
         LET f == ReadDocs(db, ns, [a EXCEPT !.proj = Missing]) IN R([Res EXCEPT !.err = f.err, !.count = Len(f.list)], db, <<>>)
    [] op = "estimatedCount" -> R([Res EXCEPT !.count = Len(coll.docs)], db, <<>>)
    [] op = "distinct" ->
         LET f == ReadDocs(db, ns, [q |-> a.q, sort |-> EmptyDoc, skip |-> 0, limit |-> 0, proj |-> Missing]) IN
         R([Res EXCEPT !.err = f.err, !.docs = f.list], db, <<>>)      \* judged with DistinctOK on res.vals by the trace spec
    [] op = "createIndex" -> CreateIndex(db, ns, a)
    [] op = "createIndexes" ->           \* IndexView.CreateMany: one call, all of the indexes or none (C02)
         LET Step[i \in 0..Len(a.specs)] ==
               IF i = 0 THEN [ok |-> TRUE, db |-> db, names |-> <<>>]
               ELSE LET prev == Step[i - 1] IN
                    IF ~prev.ok THEN prev
                    ELSE LET x == CreateIndex(prev.db, ns, a.specs[i]) IN
                         IF x.res.err THEN [ok |-> FALSE, db |-> db, names |-> <<>>]
                         ELSE [ok |-> TRUE, db |-> x.db, names |-> prev.names \o x.res.names]
             f == Step[Len(a.specs)]
         IN IF f.ok THEN R([Res EXCEPT !.names = f.names], f.db, <<>>) ELSE Failed(db)
    [] op = "dropIndex" ->
         IF ~Exists(db, ns) THEN Failed(db)
         ELSE IF a.name = "_id_" THEN Failed(db)                        \* C15: dropping indexes never removes the _id index
         ELSE IF ~\E d \in coll.idx : d.name = a.name THEN Failed(db)
         ELSE R(Res, SetColl(db, ns, [coll EXCEPT !.idx = {d \in @ : d.name # a.name}]), <<>>)
    [] op = "dropIndexByKey" ->                                       \* IndexView.DropOneWithKey: the index whose key compares equal
         IF ~Exists(db, ns) THEN Failed(db)
         ELSE LET hits == {d \in coll.idx : Cmp(d.key, a.key) = 0} IN
              IF hits = {} THEN Failed(db)
              ELSE IF \E d \in hits : d.name = "_id_" THEN Failed(db)   \* C15: the _id index stays, whichever way it is addressed
              ELSE R(Res, SetColl(db, ns, [coll EXCEPT !.idx = @ \ hits]), <<>>)
    [] op = "dropAllIndexes" ->
         IF ~Exists(db, ns) THEN Failed(db)
         ELSE R(Res, SetColl(db, ns, [coll EXCEPT !.idx = {d \in @ : d.name = "_id_"}]), <<>>)
    [] op = "listIndexes" -> R([Res EXCEPT !.count = IF Exists(db, ns) THEN Cardinality(coll.idx) ELSE 0], db, <<>>)
    [] op = "createCollection" -> R(Res, SetColl(db, ns, coll), <<>>)
    [] op = "drop" ->
         IF ~Exists(db, ns) THEN R(Res, db, <<>>) ELSE R(Res, DropNs(db, {ns}), <<EvDrop(ns)>>)
    [] op = "dropDatabase" ->       \* ns is the database name; the drop events come in map order: any order is accepted
         LET gone == {n \in DOMAIN db : DbOf(n) = ns} IN
         IF gone = {} THEN R(Res, db, <<>>)
         ELSE R(Res, DropNs(db, gone), <<[op |-> "dropDatabase*", ns |-> ns, gone |-> gone]>>)
    [] op = "listCollections" -> R([Res EXCEPT !.count = Cardinality({n \in DOMAIN db : DbOf(n) = ns})], db, <<>>)

(* ---------------------------------------------------------------------- *)
(* TTL expiry (C19, transaction.go Expire)                                 *)
(* A pass at time `now` (a date value) removes a document iff its          *)
(* collection has a TTL index (exp >= 0 seconds) on a field whose value in *)
(* that document is a date, or an array containing a date, older than      *)
(* now - exp.  exp = 0 stands for "immediately".                           *)
(* ---------------------------------------------------------------------- *)
DateMinus(now, secs) ==
  LET x == ScaledAdd(ToScaled(now), [neg |-> TRUE, D |-> NatDigits(secs) \o <<0, 0, 0>>, s |-> 0])
      n == FromScaled("i64", x, 0)
  IN [t |-> "date", neg |-> n.neg, d |-> n.d, e |-> n.e]
OlderDate(v, cutoff) == v.t = "date" /\ Cmp(v, cutoff) < 0
ExpiredBy(doc, def, now) ==
  LET v == Get(doc, PathOf(def.key.f[1][1]))  cutoff == DateMinus(now, def.exp) IN
  OlderDate(v, cutoff) \/ (v.t = "arr" /\ \E i \in 1..Len(v.a) : OlderDate(v.a[i], cutoff))
TTLDefs(coll) == {def \in coll.idx : def.exp >= 0}
ExpiredDoc(coll, doc, now) == \E def \in TTLDefs(coll) : ExpiredBy(doc, def, now)
ExpireColl(coll, now) == [coll EXCEPT !.docs = FilterSeq(LAMBDA d : ~ExpiredDoc(coll, d, now), @)]
ExpireDb(db, now) == [n \in DOMAIN db |-> ExpireColl(db[n], now)]
(* the delete events of one namespace, in natural order *)
ExpireEvents(db, n, now) == LET gone == FilterSeq(LAMBDA d : ExpiredDoc(db[n], d, now), db[n].docs) IN [k \in 1..Len(gone) |-> EvDelete(n, gone[k])]

(* ---------------------------------------------------------------------- *)
(* change log: replay and update descriptions (C08)                        *)
(* ---------------------------------------------------------------------- *)
(* equality of documents up to field order, recursively *)
RECURSIVE SameUpToOrder(_, _)
SameUpToOrder(x, y) ==
  IF x.t = "doc" /\ y.t = "doc" THEN
     /\ Len(x.f) = Len(y.f)
     /\ \A i \in 1..Len(x.f) : HasField(y, x.f[i][1]) /\ SameUpToOrder(x.f[i][2], Field(y, x.f[i][1]))
  ELSE IF x.t = "arr" /\ y.t = "arr" THEN Len(x.a) = Len(y.a) /\ \A i \in 1..Len(x.a) : SameUpToOrder(x.a[i], y.a[i])
  ELSE x = y
(* apply an update description (updated: << <<path string, value>> >>, removed: <<path string>>) to the previous version *)
RECURSIVE ApplyUpdated(_, _, _), ApplyRemoved(_, _, _)
ApplyRemoved(d, removed, i) == IF i > Len(removed) THEN d ELSE ApplyRemoved(Unset(d, PathOf(removed[i])).doc, removed, i + 1)
ApplyUpdated(d, updated, i) ==
  IF i > Len(updated) THEN d ELSE ApplyUpdated(Put(d, PathOf(updated[i][1]), updated[i][2], FALSE).doc, updated, i + 1)
ApplyDescription(prev, updated, removed) == ApplyUpdated(ApplyRemoved(prev, removed, 1), updated, 1)

(* replay of observed events onto the contents (documents keyed by _id) of one state *)
Contents(db) == [n \in DOMAIN db |-> db[n].docs]
ReplayOne(c, e) ==
  IF e.op \in {"insert", "replace", "update"} THEN
     LET docs == IF e.ns \in DOMAIN c THEN c[e.ns] ELSE <<>>
         hit == {i \in 1..Len(docs) : Cmp(Id(docs[i]), e.key) = 0}
         nd == IF hit = {} THEN Append(docs, e.full) ELSE [docs EXCEPT ![CHOOSE i \in hit : TRUE] = e.full]
     IN [n \in DOMAIN c \cup {e.ns} |-> IF n = e.ns THEN nd ELSE c[n]]
  ELSE IF e.op = "delete" THEN
     [n \in DOMAIN c |-> IF n = e.ns THEN FilterSeq(LAMBDA d : Cmp(Id(d), e.key) # 0, c[n]) ELSE c[n]]
  ELSE IF e.op = "drop" THEN [n \in DOMAIN c \ {e.ns} |-> c[n]]
  ELSE [n \in {m \in DOMAIN c : DbOf(m) # e.ns} |-> c[n]]      \* dropDatabase
RECURSIVE Replay(_, _, _)
Replay(c, evs, i) == IF i > Len(evs) THEN c ELSE Replay(ReplayOne(c, evs[i]), evs, i + 1)
(* contents compared as sets of documents per namespace; a namespace without documents equals an absent one *)
NonEmpty(c) == {n \in DOMAIN c : c[n] # <<>>}
SameContents(c1, c2) ==
  /\ NonEmpty(c1) = NonEmpty(c2)
  /\ \A n \in NonEmpty(c1) : {c1[n][i] : i \in 1..Len(c1[n])} = {c2[n][i] : i \in 1..Len(c2[n])} /\ Len(c1[n]) = Len(c2[n])
=============================================================================
