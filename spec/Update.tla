------------------------------- MODULE Update -------------------------------
(***************************************************************************)
(* Update operators (mongokit/apply.go, resolve.go, extract.go) following  *)
(* the code operator by operator.  Apply returns                           *)
(*   [err, doc, rec]   err: the update is rejected as a whole              *)
(*                     doc: the new document                               *)
(*                     rec: recorded changes << <<path, value|Missing>> >> *)
(* Numeric results follow MongoDB's promotion rules (BigDec!Arith).        *)
(* $currentDate yields the placeholder [t |-> "now", k |-> "date"|"ts"].   *)
(***************************************************************************)
EXTENDS Query, BigDec

Now(k) == [t |-> "now", k |-> k]

Fail(st) == [st EXCEPT !.err = TRUE]
Conflict(rec, p) == \E i \in 1..Len(rec) : IsPrefixSeq(rec[i][1], p) \/ IsPrefixSeq(p, rec[i][1])
Record(st, p, val) == IF Conflict(st.rec, p) THEN Fail(st) ELSE [st EXCEPT !.rec = Append(@, <<p, val>>)]
PutRec(st, p, val) ==
  LET r == Put(st.doc, p, val, FALSE) IN
  IF ~r.ok THEN Fail(st) ELSE Record([st EXCEPT !.doc = r.doc], p, val)
PutOnly(st, p, val) ==
  LET r == Put(st.doc, p, val, FALSE) IN IF ~r.ok THEN Fail(st) ELSE [st EXCEPT !.doc = r.doc]

(* an integer modifier argument: int32, int64 or integral double; [ok, n] *)
IntArg(v) ==
  IF v.t = "num" /\ v.k # "dec" /\ IsIntegral(v) /\ TruncInt(v).ok THEN [ok |-> TRUE, n |-> TruncInt(v).n]
  ELSE [ok |-> FALSE, n |-> 0]

(* stable insertion sort; Less(a, b) is a strict order *)
RECURSIVE InsertSorted(_, _, _), StableSort(_, _)
InsertSorted(Less(_, _), s, x) ==      \* s sorted; x goes after every element that is not greater than x
  IF s = <<>> THEN <<x>>
  ELSE IF Less(x, s[Len(s)]) THEN InsertSorted(Less, SubSeq(s, 1, Len(s) - 1), x) \o <<s[Len(s)]>>
  ELSE Append(s, x)
StableSort(Less(_, _), s) ==
  IF s = <<>> THEN <<>> ELSE InsertSorted(Less, StableSort(Less, SubSeq(s, 1, Len(s) - 1)), s[Len(s)])

(* bsonkit sortKey / Order: arrays are ranked by their smallest (ascending) or largest (descending) element *)
RECURSIVE BestOf(_, _, _)
BestOf(a, i, rev) ==
  IF i = 1 THEN a[1]
  ELSE LET b == BestOf(a, i - 1, rev)  c == Cmp(a[i], b) IN
       IF (rev /\ c > 0) \/ (~rev /\ c < 0) THEN a[i] ELSE b
SortKey(v, rev) == IF v.t = "arr" /\ v.a # <<>> THEN BestOf(v.a, Len(v.a), rev) ELSE v
(* cols: sequence of [p |-> path, rev |-> BOOLEAN] *)
RECURSIVE OrderFrom(_, _, _, _)
OrderFrom(l, r, cols, i) ==
  IF i > Len(cols) THEN 0
  ELSE LET c == Cmp(SortKey(Get(l, cols[i].p), cols[i].rev), SortKey(Get(r, cols[i].p), cols[i].rev)) IN
       IF c = 0 THEN OrderFrom(l, r, cols, i + 1) ELSE IF cols[i].rev THEN -c ELSE c
Order(l, r, cols) == OrderFrom(l, r, cols, 1)

(* ---- bit operations on integers of magnitude < 2^30 (two's complement, sign extended) ---- *)
BitOp(op, x, y) == CASE op = "and" -> x /\ y [] op = "or" -> x \/ y [] op = "xor" -> x # y
RECURSIVE BitSum(_, _, _, _, _)
BitSum(op, a, b, i, flip) ==      \* sum of 2^i over the result bits (complemented when flip)
  IF i > 30 THEN 0
  ELSE (IF BitOp(op, BitOfInt(a, i), BitOfInt(b, i)) # flip THEN Pow2(i) ELSE 0) + BitSum(op, a, b, i + 1, flip)
BitFold(op, a, b, i) ==
  LET sign == BitOp(op, a < 0, b < 0) IN
  IF sign THEN -(1 + BitSum(op, a, b, 0, TRUE)) ELSE BitSum(op, a, b, 0, FALSE)

(* ---- $pull condition ---- *)
PullMatches(el, cond) ==     \* "T" / "F" / "E"
  IF cond.t = "doc" THEN
    IF cond.f # <<>> /\ \A i \in 1..Len(cond.f) : IsOp(cond.f[i][1])
      THEN MatchImpl(Doc(<< <<"_x", el>> >>), Doc(<< <<"_x", cond>> >>))
    ELSE IF el.t # "doc" THEN "F"
    ELSE MatchImpl(el, cond)
  ELSE IF Cmp(el, cond) = 0 THEN "T" ELSE "F"

HasKey(v, k) == v.t = "doc" /\ \E i \in 1..Len(v.f) : v.f[i][1] = k

(* ---- the operators; st = [err, doc, rec] ---- *)
ApplySet(st, p, v) == PutRec(st, p, v)

ApplyUnset(st, p) ==
  LET u == Unset(st.doc, p) IN
  IF u.prev = Missing THEN st ELSE Record([st EXCEPT !.doc = u.doc], p, Missing)

ApplyRename(st, p, v) ==
  IF v.t # "str" THEN Fail(st)
  ELSE LET np == PathOf(v.s) IN
    IF np = <<>> THEN Fail(st)
    ELSE IF IndexedPath(p) \/ IndexedPath(np) THEN Fail(st)
    ELSE IF IsPrefixSeq(p, np) \/ IsPrefixSeq(np, p) THEN Fail(st)
    ELSE LET value == Get(st.doc, p) IN
      IF value = Missing THEN st
      ELSE LET r == Put(st.doc, np, value, FALSE) IN
        IF ~r.ok THEN Fail(st)
        ELSE LET u == Unset(r.doc, p)
                 s1 == Record([st EXCEPT !.doc = u.doc], p, Missing)
             IN IF s1.err THEN s1 ELSE Record(s1, np, value)

ApplyArith(st, op, p, v) ==
  LET field == Get(st.doc, p)
      cur == IF field = Missing THEN I32(0) ELSE field
      r == Arith(op, cur, v)
  IN IF ~r.ok THEN Fail(st) ELSE PutRec(st, p, r.v)

ApplyMinMax(st, isMax, p, v) ==
  LET value == Get(st.doc, p) IN
  IF value = Missing THEN PutRec(st, p, v)
  ELSE IF (isMax /\ Cmp(value, v) < 0) \/ (~isMax /\ Cmp(value, v) > 0) THEN PutRec(st, p, v)
  ELSE st

ApplyCurrentDate(st, p, v) ==
  IF v.t = "bool" THEN (IF v.b THEN PutRec(st, p, Now("date")) ELSE st)
  ELSE IF v.t # "doc" THEN Fail(st)
  ELSE IF Len(v.f) # 1 \/ v.f[1][1] # "$type" THEN Fail(st)
  ELSE IF v.f[1][2] = StrV("date") THEN PutRec(st, p, Now("date"))
  ELSE IF v.f[1][2] = StrV("timestamp") THEN PutRec(st, p, Now("ts"))
  ELSE Fail(st)

(* $push: [ok, a] after $sort *)
PushSort(arr, spec) ==
  IF spec.t = "num" THEN
     LET ia == IntArg(spec) IN
     IF spec.k = "dec" \/ ~ia.ok \/ ia.n \notin {1, -1} THEN [ok |-> FALSE, a |-> arr]
     ELSE [ok |-> TRUE, a |-> StableSort(LAMBDA x, y : IF ia.n = -1 THEN Cmp(x, y) > 0 ELSE Cmp(x, y) < 0, arr)]
  ELSE IF spec.t = "doc" THEN
     LET dirs == [i \in 1..Len(spec.f) |-> IntArg(spec.f[i][2])] IN
     IF \E i \in 1..Len(dirs) : ~dirs[i].ok \/ dirs[i].n \notin {1, -1} THEN [ok |-> FALSE, a |-> arr]
     ELSE IF \E i \in 1..Len(arr) : arr[i].t # "doc" THEN [ok |-> FALSE, a |-> arr]
     ELSE LET cols == [i \in 1..Len(spec.f) |-> [p |-> PathOf(spec.f[i][1]), rev |-> dirs[i].n = -1]] IN
          [ok |-> TRUE, a |-> StableSort(LAMBDA x, y : Order(x, y, cols) < 0, arr)]
  ELSE [ok |-> FALSE, a |-> arr]

RECURSIVE RecordEach(_, _, _, _, _)
RecordEach(st, p, values, start, i) ==
  IF st.err \/ i > Len(values) THEN st
  ELSE RecordEach(Record(st, p \o <<ToString(start + i - 1)>>, values[i]), p, values, start, i + 1)

ApplyPush(st, p, v) ==
  LET modForm == HasKey(v, "$each")
      badKey == modForm /\ \E i \in 1..Len(v.f) : v.f[i][1] \notin {"$each", "$position", "$sort", "$slice"}
      each == Field(v, "$each")
      values == IF modForm THEN (IF each.t = "arr" THEN each.a ELSE <<>>) ELSE <<v>>
      hasPos == modForm /\ HasKey(v, "$position")
      hasSort == modForm /\ HasKey(v, "$sort")
      hasSlice == modForm /\ HasKey(v, "$slice")
      field == Get(st.doc, p)
      arr == IF field = Missing THEN <<>> ELSE IF field.t = "arr" THEN field.a ELSE <<>>
      pos == IF hasPos THEN IntArg(Field(v, "$position")) ELSE [ok |-> TRUE, n |-> 0]
      insertAt == IF ~hasPos THEN Len(arr)
                  ELSE IF pos.n < 0 THEN Max(0, Len(arr) + pos.n) ELSE Min(pos.n, Len(arr))
      inserted == SubSeq(arr, 1, insertAt) \o values \o SubSeq(arr, insertAt + 1, Len(arr))
      sorted == IF hasSort THEN PushSort(inserted, Field(v, "$sort")) ELSE [ok |-> TRUE, a |-> inserted]
      sl == IF hasSlice THEN IntArg(Field(v, "$slice")) ELSE [ok |-> TRUE, n |-> 0]
      newArr == IF ~hasSlice THEN sorted.a
                ELSE IF sl.n = 0 THEN <<>>
                ELSE IF sl.n > 0 THEN SubSeq(sorted.a, 1, Min(sl.n, Len(sorted.a)))
                ELSE SubSeq(sorted.a, Len(sorted.a) - Min(-sl.n, Len(sorted.a)) + 1, Len(sorted.a))
  IN IF badKey \/ (modForm /\ each.t # "arr") THEN Fail(st)
     ELSE IF field # Missing /\ field.t # "arr" THEN Fail(st)
     ELSE IF ~pos.ok \/ ~sorted.ok \/ ~sl.ok THEN Fail(st)
     ELSE LET s1 == PutOnly(st, p, Arr(newArr)) IN
          IF s1.err THEN s1
          ELSE IF field # Missing /\ values = <<>> /\ ~hasPos /\ ~hasSort /\ ~hasSlice THEN s1     \* nothing changed; creating the (empty) array is a change
          ELSE IF field # Missing /\ ~hasSort /\ ~hasSlice /\ insertAt = Len(arr) THEN RecordEach(s1, p, values, insertAt, 1)
          ELSE Record(s1, p, Arr(newArr))

ApplyPop(st, p, v) ==
  LET last == Cmp(v, I64(1)) = 0 IN
  IF ~last /\ Cmp(v, I64(-1)) # 0 THEN Fail(st)
  ELSE LET field == Get(st.doc, p) IN
    IF field = Missing THEN st
    ELSE IF field.t # "arr" THEN Fail(st)
    ELSE IF field.a = <<>> THEN st
    ELSE LET na == IF last THEN SubSeq(field.a, 1, Len(field.a) - 1) ELSE Tail(field.a) IN
         PutRec(st, p, Arr(na))

ApplyPull(st, p, v) ==
  LET field == Get(st.doc, p) IN
  IF field = Missing THEN st
  ELSE IF field.t # "arr" THEN Fail(st)
  ELSE LET ms == [i \in 1..Len(field.a) |-> PullMatches(field.a[i], v)] IN
    IF \E i \in 1..Len(ms) : ms[i] = "E" THEN Fail(st)
    ELSE IF \A i \in 1..Len(ms) : ms[i] = "F" THEN st
    ELSE LET keepIdx == FilterSeq(LAMBDA i : ms[i] = "F", [i \in 1..Len(ms) |-> i]) IN
         PutRec(st, p, Arr([j \in 1..Len(keepIdx) |-> field.a[keepIdx[j]]]))

ApplyPullAll(st, p, v) ==
  IF v.t # "arr" THEN Fail(st)
  ELSE LET field == Get(st.doc, p) IN
    IF field = Missing THEN st
    ELSE IF field.t # "arr" THEN Fail(st)
    ELSE LET hit(x) == \E j \in 1..Len(v.a) : Cmp(x, v.a[j]) = 0 IN
      IF ~\E i \in 1..Len(field.a) : hit(field.a[i]) THEN st
      ELSE PutRec(st, p, Arr(FilterSeq(LAMBDA x : ~hit(x), field.a)))

RECURSIVE AddUnique(_, _, _)
AddUnique(arr, values, i) ==
  IF i > Len(values) THEN arr
  ELSE IF \E j \in 1..Len(arr) : Cmp(arr[j], values[i]) = 0 THEN AddUnique(arr, values, i + 1)
  ELSE AddUnique(Append(arr, values[i]), values, i + 1)

ApplyAddToSet(st, p, v) ==
  LET modForm == HasKey(v, "$each")
      each == Field(v, "$each")
      values == IF modForm THEN (IF each.t = "arr" THEN each.a ELSE <<>>) ELSE <<v>>
      field == Get(st.doc, p)
      arr == IF field = Missing THEN <<>> ELSE IF field.t = "arr" THEN field.a ELSE <<>>
      na == AddUnique(arr, values, 1)
  IN IF modForm /\ ((\E i \in 1..Len(v.f) : v.f[i][1] # "$each") \/ each.t # "arr") THEN Fail(st)
     ELSE IF field # Missing /\ field.t # "arr" THEN Fail(st)
     ELSE IF na = arr THEN st
     ELSE PutRec(st, p, Arr(na))

ApplyBit(st, p, v) ==
  IF v.t # "doc" \/ Len(v.f) # 1 THEN Fail(st)
  ELSE LET bop == v.f[1][1]  operand == v.f[1][2]  field == Get(st.doc, p) IN
    IF ~(operand.t = "num" /\ operand.k \in {"i32", "i64"}) THEN Fail(st)
    ELSE IF ~(field = Missing \/ (field.t = "num" /\ field.k \in {"i32", "i64"})) THEN Fail(st)
    ELSE IF bop \notin {"and", "or", "xor"} THEN Fail(st)
    ELSE LET cur == IF field = Missing THEN 0 ELSE SmallInt(field)
             res == BitFold(bop, cur, SmallInt(operand), 0)
             wide == operand.k = "i64" \/ (field # Missing /\ field.k = "i64")
             rv == IF wide THEN I64(res) ELSE I32(res)
         IN IF field # Missing /\ Cmp(field, rv) = 0 THEN st ELSE PutRec(st, p, rv)

UpdateOps == {"$set", "$setOnInsert", "$unset", "$rename", "$inc", "$mul", "$max", "$min", "$currentDate",
              "$push", "$pop", "$pull", "$pullAll", "$addToSet", "$bit"}

ApplyOperator(st, name, p, v, upsert) ==
  CASE name = "$set"         -> ApplySet(st, p, v)
    [] name = "$setOnInsert" -> IF upsert THEN ApplySet(st, p, v) ELSE st
    [] name = "$unset"       -> ApplyUnset(st, p)
    [] name = "$rename"      -> ApplyRename(st, p, v)
    [] name = "$inc"         -> ApplyArith(st, "add", p, v)
    [] name = "$mul"         -> ApplyArith(st, "mul", p, v)
    [] name = "$max"         -> ApplyMinMax(st, TRUE, p, v)
    [] name = "$min"         -> ApplyMinMax(st, FALSE, p, v)
    [] name = "$currentDate" -> ApplyCurrentDate(st, p, v)
    [] name = "$push"        -> ApplyPush(st, p, v)
    [] name = "$pop"         -> ApplyPop(st, p, v)
    [] name = "$pull"        -> ApplyPull(st, p, v)
    [] name = "$pullAll"     -> ApplyPullAll(st, p, v)
    [] name = "$addToSet"    -> ApplyAddToSet(st, p, v)
    [] name = "$bit"         -> ApplyBit(st, p, v)

(* ---- positional operators (mongokit/resolve.go) ---- *)
FirstOpSeg(segs) == IF \E i \in 1..Len(segs) : IsOp(segs[i])
                    THEN CHOOSE i \in 1..Len(segs) : IsOp(segs[i]) /\ \A j \in 1..(i - 1) : ~IsOp(segs[j])
                    ELSE 0
Bound(id, afs) == \E i \in 1..Len(afs) : \E j \in 1..Len(afs[i].f) :
                     LET kp == PathOf(afs[i].f[j][1]) IN kp # <<>> /\ kp[1] = id
(* does the array item satisfy one of the array filters: "T", "F", "E" *)
ItemMatch(id, item, afs) ==
  FirstNonF(LAMBDA f : MatchImpl(Doc(<< <<id, item>> >>), f), afs)

RECURSIVE ResolveApply(_, _, _, _, _, _), ResolveEach(_, _, _, _, _, _, _, _, _, _)
ResolveApply(st, name, segs, v, upsert, afs) ==
  IF st.err THEN st
  ELSE LET k == FirstOpSeg(segs) IN
    IF k = 0 THEN (IF segs = <<>> \/ segs = <<"">> THEN Fail(st) ELSE ApplyOperator(st, name, segs, v, upsert))
    ELSE IF k = 1 THEN Fail(st)
    ELSE LET head == SubSeq(segs, 1, k - 1)
             oper == segs[k]
             tail == SubSeq(segs, k + 1, Len(segs))
             arr == Get(st.doc, head)
         IN IF arr.t # "arr" THEN Fail(st)
            ELSE IF Str[oper].pk \in {"implicit", "none"} THEN Fail(st)
            ELSE IF Str[oper].pk = "id" /\ ~Bound(Str[oper].id, afs) THEN Fail(st)
            ELSE ResolveEach(st, name, head, oper, tail, v, upsert, afs, arr.a, 1)
ResolveEach(st, name, head, oper, tail, v, upsert, afs, items, i) ==
  IF st.err \/ i > Len(items) THEN st
  ELSE LET m == IF Str[oper].pk = "all" THEN "T" ELSE ItemMatch(Str[oper].id, items[i], afs) IN
       IF m = "E" THEN Fail(st)
       ELSE IF m = "F" THEN ResolveEach(st, name, head, oper, tail, v, upsert, afs, items, i + 1)
       ELSE ResolveEach(ResolveApply(st, name, head \o <<ToString(i - 1)>> \o tail, v, upsert, afs),
                        name, head, oper, tail, v, upsert, afs, items, i + 1)

RECURSIVE ApplyConds(_, _, _, _, _, _), ApplyTops(_, _, _, _, _)
ApplyConds(st, name, conds, i, upsert, afs) ==
  IF st.err \/ i > Len(conds) THEN st
  ELSE ApplyConds(ResolveApply(st, name, PathOf(conds[i][1]), conds[i][2], upsert, afs), name, conds, i + 1, upsert, afs)
ApplyTops(st, tops, i, upsert, afs) ==
  IF st.err \/ i > Len(tops) THEN st
  ELSE LET name == tops[i][1]  val == tops[i][2] IN
       IF ~IsOp(name) \/ name \notin UpdateOps \/ val.t # "doc" THEN Fail(st)
       ELSE ApplyTops(ApplyConds(st, name, val.f, 1, upsert, afs), tops, i + 1, upsert, afs)

(* mongokit.Apply(doc, query, update, upsert, arrayFilters); afs: sequence of filter documents *)
Apply(doc, update, upsert, afs) ==
  LET st0 == [err |-> FALSE, doc |-> doc, rec |-> <<>>] IN
  IF update.t # "doc" \/ update.f = <<>> THEN Fail(st0)
  ELSE ApplyTops(st0, update.f, 1, upsert, afs)

(***************************************************************************)
(* mongokit.Extract(query): the constant parts of a query (upsert seed).   *)
(* [err, doc]                                                              *)
(***************************************************************************)
RECURSIVE ExtractProcess(_, _, _, _), ExtractPair(_, _, _, _), ExtractExps(_, _, _, _)
ExtractProcess(st, q, prefix, root) ==     \* fold over the pairs
  IF st.err \/ q = <<>> THEN st
  ELSE ExtractProcess(ExtractPair(st, prefix, Head(q), root), Tail(q), prefix, root)
ExtractPut(st, p, v) ==
  IF p = <<>> \/ p = <<"">> THEN Fail(st)
  ELSE LET r == Put(st.doc, p, v, FALSE) IN IF r.ok THEN [st EXCEPT !.doc = r.doc] ELSE Fail(st)
ExtractOp(st, op, p, v) ==
  CASE op = "$eq" -> ExtractPut(st, p, v)
    [] op = "$in" -> IF v.t # "arr" THEN Fail(st) ELSE IF Len(v.a) = 1 THEN ExtractPut(st, p, v.a[1]) ELSE st
    [] OTHER -> st
ExtractExps(st, p, exps, i) ==
  IF st.err \/ i > Len(exps) THEN st
  ELSE IF ~IsOp(exps[i][1]) THEN Fail(st)
  ELSE IF exps[i][1] \notin {"$eq", "$in"} THEN st           \* unknown operator: the field is skipped from here on
  ELSE ExtractExps(ExtractOp(st, exps[i][1], p, exps[i][2]), p, exps, i + 1)
ExtractPair(st, prefix, pair, root) ==
  LET key == pair[1]  val == pair[2] IN
  IF IsOp(key) THEN
    IF root THEN
      IF key = "$and" THEN
        IF val.t # "arr" \/ val.a = <<>> THEN Fail(st)
        ELSE LET F[i \in 0..Len(val.a)] ==
                   IF i = 0 THEN st
                   ELSE IF F[i - 1].err THEN F[i - 1]
                   ELSE IF val.a[i].t # "doc" THEN Fail(F[i - 1])
                   ELSE ExtractProcess(F[i - 1], val.a[i].f, <<>>, TRUE)
             IN F[Len(val.a)]
      ELSE IF key = "$or" THEN
        IF val.t # "arr" \/ val.a = <<>> THEN Fail(st)
        ELSE IF Len(val.a) > 1 THEN st
        ELSE IF val.a[1].t # "doc" THEN Fail(st)
        ELSE ExtractProcess(st, val.a[1].f, <<>>, FALSE)
      ELSE st
    ELSE ExtractOp(st, key, prefix, val)
  ELSE LET p == prefix \o PathOf(key) IN
    IF val.t = "doc" /\ val.f # <<>> /\ IsOp(val.f[1][1]) THEN ExtractExps(st, p, val.f, 1)
    ELSE ExtractPut(st, p, val)
Extract(query) == ExtractProcess([err |-> FALSE, doc |-> EmptyDoc], query.f, <<>>, TRUE)

(***************************************************************************)
(* comparison of an expected value containing Now placeholders with an     *)
(* observed value                                                          *)
(***************************************************************************)
RECURSIVE Like(_, _)
Like(exp, obs) ==
  IF exp.t = "now" THEN (exp.k = "date" /\ obs.t = "date") \/ (exp.k = "ts" /\ obs.t = "ts")
  ELSE IF exp.t = "doc" THEN obs.t = "doc" /\ Len(exp.f) = Len(obs.f) /\
          \A i \in 1..Len(exp.f) : exp.f[i][1] = obs.f[i][1] /\ Like(exp.f[i][2], obs.f[i][2])
  ELSE IF exp.t = "arr" THEN obs.t = "arr" /\ Len(exp.a) = Len(obs.a) /\ \A i \in 1..Len(exp.a) : Like(exp.a[i], obs.a[i])
  ELSE exp = obs
=============================================================================
