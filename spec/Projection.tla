----------------------------- MODULE Projection -----------------------------
(***************************************************************************)
(* Projections (property C14), following mongokit/project.go.              *)
(* Project(doc, projection) = [err, doc].                                  *)
(* State collected from the projection document:                           *)
(*   hide (the _id is hidden), inc / exc (paths), merge (<<path, value>>   *)
(*   overlays of $slice / $elemMatch), skip (paths not copied)             *)
(* Overlays are applied in projection order; lungo applies them in map     *)
(* order, which is the same whenever no overlay path is a prefix of        *)
(* another (generator restriction).                                        *)
(***************************************************************************)
EXTENDS Update

PFail(st) == [st EXCEPT !.err = TRUE]

ProjCondition(st, p, ps, v) ==
  LET inc == IF v.t = "bool" THEN v.b ELSE Cmp(v, I64(1)) = 0
      bad == v.t # "bool" /\ Cmp(v, I64(1)) # 0 /\ Cmp(v, I64(0)) # 0
  IN IF bad THEN PFail(st)
     ELSE IF inc THEN [st EXCEPT !.inc = Append(@, p)]
     ELSE IF ps = "_id" THEN [st EXCEPT !.hide = TRUE]
     ELSE [st EXCEPT !.exc = Append(@, p)]

SliceInt(v) == IF v.t = "num" /\ v.k # "dec" /\ TruncInt(v).ok THEN [ok |-> TRUE, n |-> TruncInt(v).n] ELSE [ok |-> FALSE, n |-> 0]
ProjSlice(st, doc, p, v) ==
  LET arr == Get(doc, p) IN
  IF v.t = "num" THEN
     LET l == SliceInt(v) IN
     IF ~l.ok THEN PFail(st)
     ELSE IF arr.t # "arr" THEN st
     ELSE LET n == Len(arr.a)
              w == IF l.n > 0 THEN SubSeq(arr.a, 1, Min(l.n, n))
                   ELSE IF l.n < 0 THEN SubSeq(arr.a, n - Min(-l.n, n) + 1, n)
                   ELSE <<>>
          IN [st EXCEPT !.merge = Append(@, <<p, Arr(w)>>)]
  ELSE IF v.t = "arr" THEN
     IF Len(v.a) # 2 THEN PFail(st)
     ELSE LET s == SliceInt(v.a[1])  l == SliceInt(v.a[2]) IN
          IF ~s.ok \/ ~l.ok \/ l.n < 0 THEN PFail(st)
          ELSE IF arr.t # "arr" THEN st
          ELSE LET n == Len(arr.a)
                   start == IF s.n < 0 THEN Max(n + s.n, 0) ELSE Min(s.n, n)
                   end == Min(start + l.n, n)
               IN [st EXCEPT !.merge = Append(@, <<p, Arr(SubSeq(arr.a, start + 1, end))>>)]
  ELSE PFail(st)

ProjElemMatch(st, doc, p, v) ==
  IF v.t # "doc" THEN PFail(st)
  ELSE LET s1 == [st EXCEPT !.inc = Append(@, p), !.skip = @ \cup {p}]
           arr == Get(doc, p)
       IN IF arr.t # "arr" THEN s1
          ELSE LET ms == [i \in 1..Len(arr.a) |-> Process(Doc(<< <<"item", arr.a[i]>> >>), v.f, <<"item">>, FALSE)]
                   hits == {i \in 1..Len(ms) : ms[i] # "F"}
               IN IF hits = {} THEN s1
                  ELSE LET first == CHOOSE i \in hits : \A j \in hits : i <= j IN
                       IF ms[first] = "E" THEN PFail(s1)
                       ELSE [s1 EXCEPT !.merge = Append(@, <<p, Arr(<<arr.a[first]>>)>>)]

ProjOp(st, doc, op, p, ps, v) ==
  CASE op = "$slice" -> ProjSlice(st, doc, p, v)
    [] op = "$elemMatch" -> ProjElemMatch(st, doc, p, v)
    [] OTHER -> PFail(st)

(* ProcessExpression with the projection operator table (no top-level operators) *)
RECURSIVE ProjExps(_, _, _, _, _, _)
ProjExps(st, doc, p, ps, exps, i) ==
  IF st.err \/ i > Len(exps) THEN st
  ELSE IF ~IsOp(exps[i][1]) THEN PFail(st)
  ELSE ProjExps(ProjOp(st, doc, exps[i][1], p, ps, exps[i][2]), doc, p, ps, exps, i + 1)
ProjPair(st, doc, pair) ==
  LET key == pair[1]  val == pair[2] IN
  IF IsOp(key) THEN PFail(st)
  ELSE IF val.t = "doc" /\ val.f # <<>> /\ IsOp(val.f[1][1]) THEN ProjExps(st, doc, PathOf(key), key, val.f, 1)
  ELSE ProjCondition(st, PathOf(key), key, val)
RECURSIVE ProjCollect(_, _, _, _)
ProjCollect(st, doc, pairs, i) ==
  IF st.err \/ i > Len(pairs) THEN st ELSE ProjCollect(ProjPair(st, doc, pairs[i]), doc, pairs, i + 1)

RECURSIVE PutAll(_, _, _), UnsetAll(_, _, _), IncludeAll(_, _, _, _, _)
IncludeAll(res, doc, inc, skip, i) ==      \* [ok, doc]
  IF ~res.ok \/ i > Len(inc) THEN res
  ELSE IF inc[i] \in skip THEN IncludeAll(res, doc, inc, skip, i + 1)
  ELSE LET value == IF inc[i] = <<>> \/ inc[i] = <<"">> THEN Missing ELSE Get(doc, inc[i]) IN
       IF value = Missing THEN IncludeAll(res, doc, inc, skip, i + 1)
       ELSE IncludeAll(Put(res.doc, inc[i], value, FALSE), doc, inc, skip, i + 1)
UnsetAll(d, exc, i) == IF i > Len(exc) THEN d ELSE UnsetAll(Unset(d, exc[i]).doc, exc, i + 1)
PutAll(res, merge, i) ==
  IF ~res.ok \/ i > Len(merge) THEN res ELSE PutAll(Put(res.doc, merge[i][1], merge[i][2], FALSE), merge, i + 1)

Project(doc, proj) ==
  LET st == ProjCollect([err |-> FALSE, hide |-> FALSE, inc |-> <<>>, exc |-> <<>>, merge |-> <<>>, skip |-> {}], doc, proj.f, 1) IN
  IF st.err THEN [err |-> TRUE, doc |-> doc]
  ELSE IF st.inc # <<>> /\ st.exc # <<>> THEN [err |-> TRUE, doc |-> doc]
  ELSE LET base == IF st.inc # <<>>
                   THEN IncludeAll(Put(EmptyDoc, <<"_id">>, Get(doc, <<"_id">>), FALSE), doc, st.inc, st.skip, 1)
                   ELSE [ok |-> TRUE, doc |-> UnsetAll(doc, st.exc, 1)]
           merged == PutAll(base, st.merge, 1)
       IN IF ~merged.ok THEN [err |-> TRUE, doc |-> doc]
          ELSE [err |-> FALSE, doc |-> IF st.hide THEN Unset(merged.doc, <<"_id">>).doc ELSE merged.doc]

(***************************************************************************)
(* The domain of C14: no projected path has a numeric component or passes  *)
(* through an array before its end, overlay paths are not nested in each   *)
(* other, and the document has an _id.                                     *)
(***************************************************************************)
ProjPaths(proj) == {PathOf(proj.f[i][1]) : i \in 1..Len(proj.f)}
ThroughArray(doc, p) == \E n \in 1..(Len(p) - 1) : Get(doc, SubSeq(p, 1, n)).t = "arr"
InProjDomain(doc, proj) ==
  /\ HasField(doc, "_id")
  /\ \A p \in ProjPaths(proj) : p # <<>> /\ ~IndexedPath(p) /\ ~ThroughArray(doc, p) /\ \A i \in 1..Len(p) : p[i] # ""
  /\ \A p, q \in ProjPaths(proj) : p # q => ~IsPrefixSeq(p, q)

(* every value in the result is the stored value at that path, or a sub-sequence of the stored array *)
RECURSIVE IsSubSeqOf(_, _)
IsSubSeqOf(s, t) == IF s = <<>> THEN TRUE ELSE IF t = <<>> THEN FALSE
                    ELSE IF Head(s) = Head(t) THEN IsSubSeqOf(Tail(s), Tail(t)) ELSE IsSubSeqOf(s, Tail(t))
RECURSIVE SubDocument(_, _)
SubDocument(res, doc) ==
  IF res.t = "doc" /\ doc.t = "doc" THEN
     \A i \in 1..Len(res.f) : HasField(doc, res.f[i][1]) /\ SubDocument(res.f[i][2], Field(doc, res.f[i][1]))
  ELSE IF res.t = "arr" /\ doc.t = "arr" THEN IsSubSeqOf(res.a, doc.a)
  ELSE res = doc
=============================================================================
