---------------------------- MODULE TraceGridFS ----------------------------
(* code -> spec for GridFS: uploads (the Write/Suspend steps that were performed and the chunk table / file record that
   resulted) and download scripts (counts, positions, end-of-file codes), judged with GridFS.tla at the real sizes. *)
EXTENDS GridFS, TLC, Json

Trace == ndJsonDeserialize("trace.ndjson")
N == Len(Trace)
NChunk == 32
VARIABLES c, l
vars == <<c, l>>
Init == c = 0 /\ l = 0
Next == \/ /\ c = 0 /\ c' \in 1..NChunk /\ l' = 0
        \/ /\ c # 0 /\ l = 0 /\ l' \in {x \in 1..N : x % NChunk = c - 1} /\ c' = c
Spec == Init /\ [][Next]_vars
Bad(line, what, exp, got) == PrintT(<<"BAD", ToJson([l |-> line, what |-> what, exp |-> exp, got |-> got])>>)

RECURSIVE RunSteps(_, _, _, _, _)
RunSteps(st, steps, i, B, C) ==
  IF i > Len(steps) THEN st
  ELSE IF steps[i][1] = "w" THEN RunSteps(WriteN(st, steps[i][2], B, C), steps, i + 1, B, C)
  ELSE RunSteps(SuspendUpload(st, C), steps, i + 1, B, C)        \* "suspend": the stream continues at the flushed length

(* run-length rendering of a chunk table so that messages stay short *)
LensOf(chunks) == [i \in 1..Len(chunks) |-> chunks[i][2]]
Numbered(chunks) == \A i \in 1..Len(chunks) : chunks[i][1] = i - 1

CheckUpload(e, line) ==
  IF e.aborted THEN (e.chunks = <<>> /\ ~e.hasfile /\ e.markers = 0) \/ Bad(line, "gridfs:leftovers-after-" \o e.how, "no chunk, file record or marker", <<Len(e.chunks), e.hasfile, e.markers>>)
  ELSE
  LET st == CloseUpload(RunSteps(NewUpload, e.steps, 1, e.B, e.C), e.C)
      suspends == {i \in 1..Len(e.steps) : e.steps[i][1] = "suspend"}
  IN /\ (Numbered(e.chunks) \/ Bad(line, "gridfs:chunk-numbers", "0..n-1", Len(e.chunks)))
     /\ (ChunksOK(LensOf(e.chunks), e.L, e.C) \/ Bad(line, "gridfs:chunks-malformed", <<e.L, e.C>>, <<Len(e.chunks), IF e.chunks = <<>> THEN 0 ELSE e.chunks[Len(e.chunks)][2]>>))
     /\ (LensOf(e.chunks) = st.lens \/ Bad(line, "gridfs:chunks-differ-from-model", Len(st.lens), Len(e.chunks)))
     /\ IF e.unclaimed       \* a finished tracked upload that was not claimed: the marker stands for it, there is no file record yet
        THEN (~e.hasfile /\ e.markers = 1) \/ Bad(line, "gridfs:unclaimed-upload", "no file record, one marker", <<e.hasfile, e.markers>>)
        ELSE (e.hasfile /\ e.flen = e.L /\ e.fchunk = e.C) \/ Bad(line, "gridfs:file-record", <<e.L, e.C>>, <<e.hasfile, e.flen, e.fchunk>>)
     /\ (\A i \in suspends : e.steps[i][2] = SuspendUpload(RunSteps(NewUpload, SubSeq(e.steps, 1, i - 1), 1, e.B, e.C), e.C).flushed
           \/ Bad(line, "gridfs:suspend-length", SuspendUpload(RunSteps(NewUpload, SubSeq(e.steps, 1, i - 1), 1, e.B, e.C), e.C).flushed, e.steps[i][2]))

ScriptOf(s) == [i \in 1..Len(s) |-> s[i]]
CheckDownload(e, line) ==
  LET exp == RunScript(0, e.L, ScriptOf(e.script), 1) IN
  \A i \in 1..Len(exp) :
     (exp[i].code = e.res[i].code /\ exp[i].pos = e.res[i].pos /\ (exp[i].code = "neg" \/ exp[i].n = e.res[i].n))
     \/ Bad(line, "gridfs:download-step", <<i, e.script[i], exp[i]>>, e.res[i])

(* one step on the file catalog of a bucket: result, catalog afterwards, chunks exactly for the files of the catalog *)
Owners(ch) == {<<ch[i][1], ch[i][2]>> : i \in 1..Len(ch)}
CheckCatalog(e, line) ==
  LET x == CatStep(e.pre, e.op, e, e.C) IN
  /\ (x.err = e.res.err \/ Bad(line, "gridfs:catalog-" \o e.op \o "-outcome", x.err, e.res.err))
  /\ ((~x.err /\ ~e.res.err /\ e.op \in {"byname", "byid"}) =>
        ((x.id = e.res.id /\ x.len = e.res.len /\ e.res.same) \/ Bad(line, "gridfs:catalog-" \o e.op \o "-wrong-file", <<x.id, x.len>>, e.res)))
  /\ (x.files = e.post \/ Bad(line, "gridfs:catalog-" \o e.op \o "-files", x.files, e.post))
  /\ (Owners(e.postchunks) = ChunkOwners(e.post, e.C) \/ Bad(line, "gridfs:catalog-" \o e.op \o "-chunks", ChunkOwners(e.post, e.C), e.postchunks))

Checked == l # 0 => CASE Trace[l].fn = "upload" -> CheckUpload(Trace[l], l)
                      [] Trace[l].fn = "catalog" -> CheckCatalog(Trace[l], l)
                      [] Trace[l].fn = "download" -> CheckDownload(Trace[l], l)
                      [] OTHER -> TRUE
=============================================================================
