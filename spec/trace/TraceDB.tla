------------------------------ MODULE TraceDB ------------------------------
(***************************************************************************)
(* code -> spec for the engine through the driver API: every line of       *)
(* trace.ndjson is one call {op, ns, a, pre, res, post, ev, ts} recorded    *)
(* from the real code with the full observed state before and after.  TLC  *)
(* evaluates Database!Exec on the observed pre-state and compares result,  *)
(* post-state and change events; the state invariants of C07 / C08 / C15   *)
(* are evaluated on every observed post-state by the specification's own   *)
(* definitions.  Differences are printed as BAD lines (the run continues,  *)
(* every line is examined; because each line carries its own pre-state a   *)
(* mismatch does not mask later ones).                                     *)
(***************************************************************************)
EXTENDS Database, Oplog, QueryRef

Trace == ndJsonDeserialize("trace.ndjson")
N == Len(Trace)
NChunk == 64

VARIABLES c, l
vars == <<c, l>>
Init == c = 0 /\ l = 0
Next == \/ /\ c = 0
           /\ c' \in 1..NChunk
           /\ l' = 0
        \/ /\ c # 0 /\ l = 0
           /\ l' \in {x \in 1..N : x % NChunk = c - 1}
           /\ c' = c
Spec == Init /\ [][Next]_vars

Bad(line, what, exp, got) ==
  PrintT(<<"BAD", ToJson([l |-> line, what |-> what, exp |-> exp, got |-> got])>>)

(* observed state -> specification state *)
DefOf(i) == [name |-> i.name, key |-> i.key, unique |-> i.unique, partial |-> i.partial, exp |-> i.exp]
ObsColl(o) == [docs |-> o.docs, idx |-> {DefOf(o.idx[i]) : i \in 1..Len(o.idx)}]
ObsDb(p) == [n \in DOMAIN p |-> ObsColl(p[n])]

(* dumps are [state, log, tok] of one catalog *)
SameDump(x, y) == x.tok = y.tok /\ x.log = y.log /\ ObsDb(x.state) = ObsDb(y.state)

WriteOps == {"insertOne", "insertMany", "bulkWrite", "updateOne", "updateMany", "replaceOne", "deleteOne", "deleteMany"}
FamOps == {"findOneAndUpdate", "findOneAndReplace", "findOneAndDelete"}

(* result comparison, per kind of call; on failure only the failure itself is compared *)
ResOK(op, exp, got, a) ==
  /\ exp.err = got.err
  /\ (op \in {"insertMany", "bulkWrite"} \/ ~exp.err) =>
       CASE op \in {"insertOne", "insertMany"} -> exp.ids = got.ids
         [] op = "bulkWrite" -> exp.n = got.n /\ exp.ids = got.ids
         [] op \in WriteOps -> exp.n = got.n /\ (exp.upid = got.upid \/ (exp.upid = Null /\ got.upid = Missing))   \* an upserted _id of null reads as "none" in the driver's result
         [] op \in FamOps \cup {"find", "findOne"} -> exp.docs = got.docs
         [] op \in {"count", "estimatedCount", "listIndexes", "listCollections"} -> exp.count = got.count
         [] op = "distinct" -> DistinctOK(got.vals, exp.docs, PathOf(a.path))
         [] op \in {"createIndex", "createIndexes"} -> exp.names = got.names
         [] OTHER -> TRUE

(* expected change events against the observed ones *)
EvSame(x, o) == x.op = o.op /\ x.ns = o.ns /\ x.key = o.key /\ x.full = o.full
EvsOK(exp, got) ==
  IF Len(exp) = 1 /\ exp[1].op = "dropDatabase*" THEN
     \* one drop event per namespace of the database in any order, then the dropDatabase event
     /\ Len(got) = Cardinality(exp[1].gone) + 1
     /\ got[Len(got)].op = "dropDatabase" /\ got[Len(got)].ns = exp[1].ns
     /\ {got[i].ns : i \in 1..(Len(got) - 1)} = exp[1].gone
     /\ \A i \in 1..(Len(got) - 1) : got[i].op = "drop"
  ELSE Len(exp) = Len(got) /\ \A i \in 1..Len(exp) : EvSame(exp[i], got[i])

(* C08: for update events the recorded description applied to the previous version gives the new version *)
PrevOf(pre, ns, key) ==
  IF ns \notin DOMAIN pre THEN Missing
  ELSE LET hit == {i \in 1..Len(pre[ns].docs) : Cmp(Id(pre[ns].docs[i]), key) = 0} IN    \* a document key identifies by BSON comparison, as _id uniqueness does
       IF hit = {} THEN Missing ELSE pre[ns].docs[CHOOSE i \in hit : TRUE]
DescriptionsOK(pre, evs) ==
  \A i \in 1..Len(evs) :
     evs[i].op = "update" =>
        /\ evs[i].hasdesc
        /\ \* the previous version: the document in the pre-state, or as changed by an earlier event of the same call
           LET earlier == {j \in 1..(i - 1) : evs[j].ns = evs[i].ns /\ Cmp(evs[j].key, evs[i].key) = 0 /\ evs[j].full # Missing}
               prev == IF earlier = {} THEN PrevOf(pre, evs[i].ns, evs[i].key)
                       ELSE evs[CHOOSE j \in earlier : \A k \in earlier : k <= j].full
           IN prev # Missing /\ SameUpToOrder(ApplyDescription(prev, evs[i].upd, evs[i].rem), evs[i].full)

(* C08: event ids strictly increase over the whole change log *)
TsIncreasing(ts) == \A i \in 1..(Len(ts) - 1) : ts[i][1] < ts[i + 1][1] \/ (ts[i][1] = ts[i + 1][1] /\ ts[i][2] < ts[i + 1][2])

(* The query and sort-key domains of DESIGN.md 8.2 / 8.3, applied to a driver call: outside them the properties  *)
(* leave the matching / ordering open, so which documents a call selects is not judged (everything that does   *)
(* not depend on the selection -- invariants, replay of the events, failed-write atomicity -- still is).       *)
FiltersOf(e) ==
  IF e.a = <<>> THEN <<>>
  ELSE IF e.op = "bulkWrite" THEN
       LET ms == SelectSeq(e.a.models, LAMBDA m : m.kind # "insert") IN [i \in 1..Len(ms) |-> ms[i].q]
  ELSE IF "q" \in DOMAIN e.a THEN <<e.a.q>> ELSE <<>>
SortsOf(e) ==
  IF e.a = <<>> THEN <<>>
  ELSE IF e.op = "bulkWrite" THEN
       LET ms == SelectSeq(e.a.models, LAMBDA m : m.kind # "insert") IN [i \in 1..Len(ms) |-> ms[i].sort]
  ELSE IF "sort" \in DOMAIN e.a THEN <<e.a.sort>> ELSE <<>>
SortKeyCrossesArray(docs, cols) ==
  \E i \in 1..Len(docs) : \E j \in 1..Len(cols) :
     Traverses(docs[i], cols[j].p) \/ Get(docs[i], cols[j].p) = EmptyArr
CallInDomain(e, pre, post) ==
  LET docs == (IF e.ns \in DOMAIN pre THEN pre[e.ns].docs ELSE <<>>) \o (IF e.ns \in DOMAIN post THEN post[e.ns].docs ELSE <<>>)
      fs == FiltersOf(e)
      ss == SortsOf(e)
  IN /\ \A i \in 1..Len(fs) : \A j \in 1..Len(docs) : MatchImpl(docs[j], fs[i]) = "E" \/ InCore(docs[j], fs[i])
     /\ \A i \in 1..Len(ss) :
           ss[i] = EmptyDoc \/ LET cs == Columns(ss[i]) IN cs.err \/ ~SortKeyCrossesArray(docs, cs.cols)

CheckCall(e, line) ==
  LET pre == ObsDb(e.pre)
      post == ObsDb(e.post)
      x == Exec(pre, e.op, e.ns, e.a)
      indom == CallInDomain(e, pre, post)
  IN /\ PrintT(<<IF indom THEN "INDOM" ELSE "OUTDOM", line>>)
     /\ (~indom \/ ResOK(e.op, x.res, e.res, e.a) \/ Bad(line, "result:" \o e.op, x.res, e.res))
     /\ (~indom \/ x.db = post \/ Bad(line, "state:" \o e.op, x.db, post))
     /\ (~indom \/ EvsOK(x.ev, e.ev) \/ Bad(line, "events:" \o e.op, x.ev, e.ev))
     \* C02, stated directly on the observation: a failed single write changes nothing and logs nothing
     /\ ((e.res.err /\ e.op \notin {"insertMany", "bulkWrite"}) => ((e.pre = e.post /\ e.ev = <<>>) \/ Bad(line, "failed-write-changed-state:" \o e.op, e.pre, e.post)))
     \* C07 on the observed state
     /\ \A n \in DOMAIN post : UniqueOK(post[n]) \/ Bad(line, "unique:" \o e.op, n, post[n].docs)
     /\ ((e.res.err /\ e.res.uniq) => (x.res.err \/ Bad(line, "spurious-uniqueness-error:" \o e.op, x.res, e.res)))
     \* C15 on the observed state: every index listing holds exactly the documents of its domain, in key order
     /\ \A n \in DOMAIN e.post : \A i \in 1..Len(e.post[n].idx) :
           IndexListingOK(e.post[n].idx[i].list, e.post[n].docs, DefOf(e.post[n].idx[i]))
           \/ Bad(line, "index-content:" \o e.op, e.post[n].idx[i].name, e.post[n].idx[i].list)
     /\ \A n \in DOMAIN post : (IdIndex \in post[n].idx) \/ Bad(line, "id-index-missing:" \o e.op, n, post[n].idx)
     \* C08 on the observation: replay of the new events on the old contents gives the new contents
     /\ (SameContents(Replay(Contents(pre), e.ev, 1), Contents(post)) \/ Bad(line, "replay:" \o e.op, Contents(pre), e.ev))
     /\ (DescriptionsOK(pre, e.ev) \/ Bad(line, "update-description:" \o e.op, e.ev, ""))
     /\ (TsIncreasing(e.ts) \/ Bad(line, "event-ids:" \o e.op, e.ts, ""))
     \* C03: a call inside a session transaction is invisible outside it
     /\ (("cpre" \in DOMAIN e) => (SameDump(e.cpre, e.cpost) \/ Bad(line, "visibility:session-call-changed-committed-state:" \o e.op, ObsDb(e.cpre.state), ObsDb(e.cpost.state))))
     \* C03/C04: a writer that queued behind a session transaction works on what that transaction published
     /\ (("parked" \in DOMAIN e) => (x.db = post \/ Bad(line, "visibility:writer-queued-behind-a-transaction-did-not-start-from-the-published-state:" \o e.op, x.db, post)))
     /\ ((e.a # <<>> /\ "gen" \in DOMAIN e.a /\ e.a.gen # Missing) => (e.a.gen.t = "oid" \/ Bad(line, "generated-id:" \o e.op, "oid", e.a.gen)))

(* one call of the real Transaction.Clean on a crafted change log *)
CheckClean(e, line) ==
  IF "err" \in DOMAIN e THEN Bad(line, "retention:commit-refused-or-panicked-while-trimming", "the write succeeds", e.err) ELSE
  LET ref == CleanRef(e.len, e.ages, e.minSize, e.maxSize, e.minAge, e.maxAge) IN
  /\ (e.prefix \/ Bad(line, "retention:not-a-prefix", "oldest events only", e.dropped))
  /\ (EnvelopeOK(e.dropped, e.len, e.ages, e.minSize, e.maxSize, e.minAge, e.maxAge) \/ Bad(line, "retention:envelope", ref, e.dropped))
  /\ (e.dropped = ref \/ Bad(line, "retention:count", ref, e.dropped))

(* one TTL pass on the real engine (Transaction.Expire + commit, or the background loop) *)
EvOfNs(evs, n) == FilterSeq(LAMBDA x : x.ns = n, evs)
CheckExpire(e, line) ==
  IF e.via \in {"aborted", "rejected-commit"} THEN      \* a pass that was given up: nothing happened
     ((e.pre = e.post /\ e.ev = <<>>) \/ Bad(line, "expire:abandoned-pass-changed-the-database:" \o e.via, e.pre, e.post))
  ELSE
  LET pre == ObsDb(e.pre)
      post == ObsDb(e.post)
      exp == ExpireDb(pre, e.now)
  IN /\ (exp = post \/ Bad(line, "expire:state", exp, post))
     /\ (\A n \in DOMAIN pre :
            LET want == ExpireEvents(pre, n, e.now)  got == EvOfNs(e.ev, n) IN
            (Len(want) = Len(got) /\ \A i \in 1..Len(want) : EvSame(want[i], got[i])) \/ Bad(line, "expire:events", want, got))
     /\ ((\A i \in 1..Len(e.ev) : e.ev[i].op = "delete" /\ e.ev[i].ns \in DOMAIN pre) \/ Bad(line, "expire:foreign-event", "", e.ev))
     /\ ((exp = pre) => ((e.pre = e.post /\ e.ev = <<>> /\ ~e.dirty) \/ Bad(line, "expire:noop-pass-changed-something", e.pre, e.post)))
     /\ \A n \in DOMAIN e.post : \A i \in 1..Len(e.post[n].idx) :
           IndexListingOK(e.post[n].idx[i].list, e.post[n].docs, DefOf(e.post[n].idx[i]))
           \/ Bad(line, "expire:index-content", e.post[n].idx[i].name, e.post[n].idx[i].list)
     /\ (TsIncreasing(e.ts) \/ Bad(line, "expire:event-ids", e.ts, ""))

(* closing a file-backed database and opening it again (C06): identity on the abstract state, on the opaque *)
(* canonical tokens of every document (BSON bytes) and on the change log                                    *)
CheckReload(e, line) ==
  IF e.err THEN Bad(line, "reload:load-failed", "loads", e.msg)
  ELSE
  /\ (ObsDb(e.pre) = ObsDb(e.post) \/ Bad(line, "reload:state", ObsDb(e.pre), ObsDb(e.post)))
  /\ (e.pretok = e.posttok \/ Bad(line, "reload:tokens", "", ""))
  /\ (e.preev = e.postev \/ Bad(line, "reload:change-log", e.preev, e.postev))
  /\ \A n \in DOMAIN e.post : \A i \in 1..Len(e.post[n].idx) :
        IndexListingOK(e.post[n].idx[i].list, e.post[n].docs, DefOf(e.post[n].idx[i]))
        \/ Bad(line, "reload:index-content", e.post[n].idx[i].name, e.post[n].idx[i].list)
  /\ \A n \in DOMAIN e.post : UniqueOK(ObsColl(e.post[n])) \/ Bad(line, "reload:unique", n, "")

(* the caller overwrites arguments it passed or values it got back (C17): a stuttering step of the database *)
CheckMutate(e, line) ==
  /\ (e.pre.tok = e.post.tok \/ Bad(line, "alias:" \o e.what \o ":" \o e.op, "stored bytes unchanged", "stored bytes changed"))
  /\ (e.pre.state = e.post.state \/ Bad(line, "alias:" \o e.what \o ":" \o e.op, e.pre.state, e.post.state))
  /\ (e.pre.log = e.post.log \/ Bad(line, "alias:" \o e.what \o ":" \o e.op, "change log unchanged", "change log changed"))

(* ---- transactions (C03); dumps are [state, log, tok] of a catalog ---- *)
CheckTxn(e, line) ==
  CASE e.what = "start" ->
         /\ (~e.err \/ Bad(line, "txn-result:start", "success", "error"))
         /\ (SameDump(e.cpre, e.cpost) \/ Bad(line, "visibility:start-changed-committed-state", "", ""))
         /\ (SameDump(e.wpost, e.cpre) \/ Bad(line, "txn-state:working-copy-differs-from-committed-at-start", "", ""))
    [] e.what = "commit" ->
         /\ ((e.err = e.storefail) \/ Bad(line, "txn-result:commit", e.storefail, e.err))
         /\ IF e.err THEN SameDump(e.cpre, e.cpost) \/ Bad(line, "visibility:failed-commit-changed-committed-state", ObsDb(e.cpre.state), ObsDb(e.cpost.state))
            ELSE SameDump(e.wpre, e.cpost) \/ Bad(line, "txn-state:commit-did-not-publish-the-working-copy", ObsDb(e.wpre.state), ObsDb(e.cpost.state))
    [] e.what = "abort" ->
         /\ (~e.err \/ Bad(line, "txn-result:abort", "success", "error"))
         /\ (SameDump(e.cpre, e.cpost) \/ Bad(line, "visibility:abort-changed-committed-state", ObsDb(e.cpre.state), ObsDb(e.cpost.state)))
    [] OTHER -> TRUE
CheckBlocked(e, line) ==
  /\ (SameDump(e.cpre, e.cpost) \/ Bad(line, "visibility:call-outside-the-transaction-changed-committed-state:" \o e.op, ObsDb(e.cpre.state), ObsDb(e.cpost.state)))
  /\ (SameDump(e.wpre, e.wpost) \/ Bad(line, "txn-state:call-outside-the-transaction-changed-the-working-copy:" \o e.op, "", ""))
  /\ ((~e.isread => e.err) \/ Bad(line, "txn-result:write-proceeded-while-a-transaction-holds-the-writer-slot:" \o e.op, "error", "success"))
CheckSnap(e, line) ==
  (e.pre = e.post) \/ Bad(line, "snapshot:" \o e.kind, "unchanged", "changed")

(* ---- a session transaction recorded under concurrency: the calls fold over Database!Exec from the catalog *)
(* that was current when the transaction was published (or started, if it was not published)               *)
RECURSIVE RunSeq(_, _, _, _)
RunSeq(db, calls, i, acc) ==       \* acc: [ok, ev, bad]
  IF i > Len(calls) THEN [db |-> db, ev |-> acc.ev, bad |-> acc.bad]
  ELSE LET cl == calls[i]  x == Exec(db, cl.op, cl.ns, cl.a) IN
       RunSeq(x.db, calls, i + 1, [ev |-> acc.ev \o x.ev, bad |-> IF acc.bad = 0 /\ ~ResOK(cl.op, x.res, cl.res, cl.a) THEN i ELSE acc.bad])
CheckSeq(e, line) ==
  LET pre == ObsDb(e.pre)  post == ObsDb(e.post)
      r == RunSeq(pre, e.calls, 1, [ev |-> <<>>, bad |-> 0])
  IN /\ (r.bad = 0 \/ Bad(line, "result:transaction-call", r.bad, e.calls[r.bad].res))
     /\ IF e.committed THEN /\ (r.db = post \/ Bad(line, "state:transaction", r.db, post))
                             /\ (EvsOK(r.ev, e.ev) \/ Bad(line, "events:transaction", r.ev, e.ev))
        ELSE (e.pre = e.post /\ e.ev = <<>>) \/ Bad(line, "visibility:discarded-transaction-changed-committed-state", e.pre, e.post)

(* ---- the engine protocol (C16 / C04): the hook events of one run, in the order in which they happened.      *)
(* holder: <<"free">>, <<"g", goroutine>> (slot acquired, transaction not yet created) or <<"t", transaction>>  *)
Free == <<"free">>
RECURSIVE ProtoFold(_, _, _, _)
ProtoFold(evs, i, holder, alive) ==       \* [bad |-> index of the first event that breaks the protocol (0 = none), holder, alive]
  IF i > Len(evs) THEN [bad |-> 0, holder |-> holder, alive |-> alive]
  ELSE LET e == evs[i]
           step ==
             CASE e.p = "sem.acquired"     -> [ok |-> holder = Free, h |-> <<"g", e.g>>]          \* a token is taken only when the slot is free
               [] e.p = "sem.release"      -> [ok |-> holder # Free, h |-> Free]                 \* a token is given back only by a holder
               [] e.p = "begin.release"    -> [ok |-> holder = <<"g", e.g>>, h |-> holder]
               [] e.p = "begin.write"      -> [ok |-> holder = <<"g", e.g>> /\ e.alive, h |-> <<"t", e.t>>]
               [] e.p = "commit.enter"     -> [ok |-> holder = <<"t", e.t>>, h |-> holder]
               [] e.p = "commit.publish"   -> [ok |-> holder = <<"t", e.t>> /\ e.alive, h |-> holder]  \* only the holder of the slot publishes
               [] e.p = "abort.release"    -> [ok |-> holder = <<"t", e.t>>, h |-> holder]
               [] OTHER                    -> [ok |-> TRUE, h |-> holder]
       IN IF ~step.ok THEN [bad |-> i, holder |-> holder, alive |-> alive]
          ELSE ProtoFold(evs, i + 1, step.h, IF e.p = "close.killed" THEN FALSE ELSE alive)
CheckProto(e, line) ==
  LET r == ProtoFold(e.events, 1, Free, TRUE) IN
  /\ (r.bad = 0 \/ Bad(line, "protocol:" \o e.events[r.bad].p, r.holder, e.events[r.bad]))
  /\ ((r.bad = 0 /\ e.quiescent) => (r.holder = Free \/ Bad(line, "protocol:writer-slot-not-released", Free, r.holder)))

Checked == l # 0 => CASE Trace[l].fn = "call" -> CheckCall(Trace[l], l)
                      [] Trace[l].fn = "clean" -> CheckClean(Trace[l], l)
                      [] Trace[l].fn = "expire" -> CheckExpire(Trace[l], l)
                      [] Trace[l].fn = "reload" -> CheckReload(Trace[l], l)
                      [] Trace[l].fn = "mutate" -> CheckMutate(Trace[l], l)
                      [] Trace[l].fn = "txn" -> CheckTxn(Trace[l], l)
                      [] Trace[l].fn = "blocked" -> CheckBlocked(Trace[l], l)
                      [] Trace[l].fn = "snapcheck" -> CheckSnap(Trace[l], l)
                      [] Trace[l].fn = "txnseq" -> CheckSeq(Trace[l], l)
                      [] Trace[l].fn = "proto" -> CheckProto(Trace[l], l)
                      [] OTHER -> TRUE
=============================================================================
