----------------------------- MODULE TracePure -----------------------------
(***************************************************************************)
(* code -> spec for the pure operator layer: every line of trace.ndjson is *)
(* one evaluation of a real lungo function ({fn, inputs..., res}).  TLC     *)
(* evaluates the specification on the same inputs and reports every        *)
(* difference as a BAD line (the check continues, so all lines are         *)
(* examined).  Lines are spread over NChunk first-level states so that all *)
(* workers take part.                                                      *)
(***************************************************************************)
EXTENDS QueryRef, Update

Trace == ndJsonDeserialize("trace.ndjson")
N == Len(Trace)
NChunk == 64

VARIABLES c, l
vars == <<c, l>>

Init == c = 0 /\ l = 0
Next == \/ /\ c = 0
           /\ c' \in 1..NChunk
           /\ l' = 0
        \/ /\ c # 0 /\ l = 0
           /\ l' \in {x \in 1..N : x % NChunk = c - 1}
           /\ c' = c
Spec == Init /\ [][Next]_vars

Bad(line, what, exp, got) ==
  PrintT(<<"BAD", ToJson([l |-> line, what |-> what, exp |-> exp, got |-> got])>>)

CheckMatch(e, line) ==
  LET impl == MatchImpl(e.doc, e.q)
      core == impl # "E" /\ InCore(e.doc, e.q)
  IN /\ (impl = e.res \/ Bad(line, "impl", impl, e.res))
     /\ (core => /\ PrintT(<<"CORE", line>>)
                 /\ LET ref == MatchRef(e.doc, e.q) IN
                    /\ (ref = e.res \/ Bad(line, "ref", ref, e.res))
                    /\ (ref = impl \/ Bad(line, "impl-vs-ref", ref, impl)))

(* mongokit.Apply: rejection, resulting document (up to $currentDate values) and recorded changes *)
RecSet(rec) == {<<rec[i][1], rec[i][2]>> : i \in 1..Len(rec)}
ObsRecSet(rec) == {<<PathOf(rec[i][1]), rec[i][2]>> : i \in 1..Len(rec)}
RecLike(exp, obs) ==
  /\ Cardinality(RecSet(exp)) = Cardinality(ObsRecSet(obs))
  /\ \A x \in RecSet(exp) : \E y \in ObsRecSet(obs) : x[1] = y[1] /\ Like(x[2], y[2])
CheckApply(e, line) ==
  LET r == Apply(e.doc, e.upd, e.upsert, e.afs) IN
  IF r.err # e.res.err THEN Bad(line, "apply-rejection", r.err, e.res.err)
  ELSE IF r.err THEN TRUE
  ELSE /\ (Like(r.doc, e.res.doc) \/ Bad(line, "apply-doc", r.doc, e.res.doc))
       /\ (RecLike(r.rec, e.res.rec) \/ Bad(line, "apply-changes", r.rec, e.res.rec))

CheckCase(e, line) ==
  CASE e.fn = "match" -> CheckMatch(e, line)
    [] e.fn = "apply" -> CheckApply(e, line)
    [] OTHER -> Bad(line, "unknown fn", e.fn, "")

Checked == l # 0 => CheckCase(Trace[l], l)
=============================================================================
