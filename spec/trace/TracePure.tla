----------------------------- MODULE TracePure -----------------------------
(***************************************************************************)
(* code -> spec for the pure operator layer: every line of trace.ndjson is *)
(* one evaluation of a real lungo function ({fn, inputs..., res}).  TLC     *)
(* evaluates the specification on the same inputs and reports every        *)
(* difference as a BAD line (the check continues, so all lines are         *)
(* examined).  Lines are spread over NChunk first-level states so that all *)
(* workers take part.                                                      *)
(***************************************************************************)
EXTENDS QueryRef, Update, SortDistinct, Projection

Trace == ndJsonDeserialize("trace.ndjson")
N == Len(Trace)
NChunk == 64

VARIABLES c, l
vars == <<c, l>>

Init == c = 0 /\ l = 0
Next == \/ /\ c = 0
           /\ c' \in 1..NChunk
           /\ l' = 0
        \/ /\ c # 0 /\ l = 0
           /\ l' \in {x \in 1..N : x % NChunk = c - 1}
           /\ c' = c
Spec == Init /\ [][Next]_vars

Bad(line, what, exp, got) ==
  PrintT(<<"BAD", ToJson([l |-> line, what |-> what, exp |-> exp, got |-> got])>>)

CheckMatch(e, line) ==
  LET impl == MatchImpl(e.doc, e.q)
      core == impl # "E" /\ InCore(e.doc, e.q)
  IN /\ (impl = e.res \/ Bad(line, "impl", impl, e.res))
     /\ (core => /\ PrintT(<<"CORE", line>>)
                 /\ LET ref == MatchRef(e.doc, e.q) IN
                    /\ (ref = e.res \/ Bad(line, IF MatchRefKF(e.doc, e.q) = e.res THEN "ref-kf-deps" ELSE "ref", ref, e.res))
                    /\ (ref = impl \/ Bad(line, "impl-vs-ref", ref, impl)))

(* mongokit.Apply: rejection, resulting document (up to $currentDate values) and recorded changes *)
RecSet(rec) == {<<rec[i][1], rec[i][2]>> : i \in 1..Len(rec)}
ObsRecSet(rec) == {<<PathOf(rec[i][1]), rec[i][2]>> : i \in 1..Len(rec)}
RecLike(exp, obs) ==
  /\ Cardinality(RecSet(exp)) = Cardinality(ObsRecSet(obs))
  /\ \A x \in RecSet(exp) : \E y \in ObsRecSet(obs) : x[1] = y[1] /\ Like(x[2], y[2])
CheckApply(e, line) ==
  LET r == Apply(e.doc, e.upd, e.upsert, e.afs) IN
  IF r.err # e.res.err THEN Bad(line, "apply-rejection", r.err, e.res.err)
  ELSE IF r.err THEN TRUE
  ELSE /\ (Like(r.doc, e.res.doc) \/ Bad(line, "apply-doc", r.doc, e.res.doc))
       /\ (RecLike(r.rec, e.res.rec) \/ Bad(line, "apply-changes", r.rec, e.res.rec))

(* Find through the driver API over a collection holding e.docs in this order *)
SortCrossesArray(docs, cols) ==
  \E i \in 1..Len(docs) : \E j \in 1..Len(cols) :
     \/ Traverses(docs[i], cols[j].p)
     \/ Get(docs[i], cols[j].p) = EmptyArr
CheckFind(e, line) ==
  LET exp == IF e.docs = <<>> THEN [err |-> FALSE, list |-> <<>>]     \* a collection that does not exist: empty result, nothing is validated
             ELSE FindImpl(e.docs, e.q, e.sort, e.skip, e.limit)
      cs == IF e.sort.f = <<>> THEN [err |-> FALSE, cols |-> <<>>] ELSE Columns(e.sort)
      indom == ~cs.err /\ ~SortCrossesArray(e.docs, cs.cols)       \* C13 sort-key domain (DESIGN.md 8.3)
      noerr == \A i \in 1..Len(e.docs) : MatchImpl(e.docs[i], e.q) # "E"
  IN IF ~indom /\ ~cs.err THEN PrintT(<<"OUTDOM", line>>)
     ELSE /\ PrintT(<<"INDOM", line>>)
          /\ IF exp.err # e.res.err THEN Bad(line, "find-error", exp.err, e.res.err)
             ELSE IF exp.err THEN TRUE
             ELSE /\ (exp.list = e.res.docs \/ Bad(line, "find-docs", exp.list, e.res.docs))
                  /\ (noerr => (LET ref == FindRef(e.docs, e.q, cs.cols, e.skip, e.limit) IN
                                 ref = e.res.docs \/ Bad(line, "find-ref", ref, e.res.docs)))
                  /\ (NonDecreasing(e.res.docs, cs.cols) \/ Bad(line, "find-order", "non-decreasing", e.res.docs))

CheckDistinct(e, line) ==
  LET f == Filter(e.docs, e.q, 0) IN
  IF f.err # e.res.err THEN Bad(line, "distinct-error", f.err, e.res.err)
  ELSE IF f.err THEN TRUE
  ELSE DistinctOK(e.res.vals, f.list, PathOf(e.path))
       \/ Bad(line, "distinct", DistinctValues(f.list, PathOf(e.path)), e.res.vals)

CheckProject(e, line) ==
  LET exp == Project(e.doc, e.proj) IN
  IF ~InProjDomain(e.doc, e.proj) THEN PrintT(<<"OUTDOM", line>>)
  ELSE /\ PrintT(<<"INDOM", line>>)
       /\ IF exp.err # e.res.err THEN Bad(line, "project-error", exp.err, e.res.err)
          ELSE IF exp.err THEN TRUE
          ELSE /\ (exp.doc = e.res.doc \/ Bad(line, "project-doc", exp.doc, e.res.doc))
               /\ (SubDocument(e.res.doc, e.doc) \/ Bad(line, "project-subdocument", e.doc, e.res.doc))

(* bsonkit.Schema.Evaluate on a value: "T" valid, "F" validation failed, "E" the schema is rejected *)
CheckSchema(e, line) ==
  IF ~SchemaWF(e.schema) THEN PrintT(<<"OUTDOM", line>>)
  ELSE /\ PrintT(<<"INDOM", line>>)
       /\ LET exp == SB(Valid(e.schema, e.value)) IN
          (exp = e.res \/ Bad(line, IF SB(ValidX(e.schema, e.value, TRUE)) = e.res THEN "schema-kf-deps" ELSE "schema", exp, e.res))

CheckCase(e, line) ==
  CASE e.fn = "match" -> CheckMatch(e, line)
    [] e.fn = "schema" -> CheckSchema(e, line)
    [] e.fn = "cmp" -> (Cmp(e.l, e.r) = e.res \/ Bad(line, "cmp", Cmp(e.l, e.r), e.res))     \* sign of bsonkit.Compare (C12)
    [] e.fn = "apply" -> CheckApply(e, line)
    [] e.fn = "find" -> CheckFind(e, line)
    [] e.fn = "distinct" -> CheckDistinct(e, line)
    [] e.fn = "project" -> CheckProject(e, line)
    [] OTHER -> Bad(line, "unknown fn", e.fn, "")

Checked == l # 0 => CheckCase(Trace[l], l)
=============================================================================
