----------------------------- MODULE TracePure -----------------------------
(***************************************************************************)
(* code -> spec for the pure operator layer: every line of trace.ndjson is *)
(* one evaluation of a real lungo function ({fn, inputs..., res}).  TLC     *)
(* evaluates the specification on the same inputs and reports every        *)
(* difference as a BAD line (the check continues, so all lines are         *)
(* examined).  Lines are spread over NChunk first-level states so that all *)
(* workers take part.                                                      *)
(***************************************************************************)
EXTENDS QueryRef

Trace == ndJsonDeserialize("trace.ndjson")
N == Len(Trace)
NChunk == 64

VARIABLES c, l
vars == <<c, l>>

Init == c = 0 /\ l = 0
Next == \/ /\ c = 0
           /\ c' \in 1..NChunk
           /\ l' = 0
        \/ /\ c # 0 /\ l = 0
           /\ l' \in {x \in 1..N : x % NChunk = c - 1}
           /\ c' = c
Spec == Init /\ [][Next]_vars

Bad(line, what, exp, got) ==
  PrintT(<<"BAD", ToJson([l |-> line, what |-> what, exp |-> exp, got |-> got])>>)

CheckMatch(e, line) ==
  LET impl == MatchImpl(e.doc, e.q)
      core == impl # "E" /\ InCore(e.doc, e.q)
  IN /\ (impl = e.res \/ Bad(line, "impl", impl, e.res))
     /\ (core => /\ PrintT(<<"CORE", line>>)
                 /\ LET ref == MatchRef(e.doc, e.q) IN
                    /\ (ref = e.res \/ Bad(line, "ref", ref, e.res))
                    /\ (ref = impl \/ Bad(line, "impl-vs-ref", ref, impl)))

CheckCase(e, line) ==
  CASE e.fn = "match" -> CheckMatch(e, line)
    [] OTHER -> Bad(line, "unknown fn", e.fn, "")

Checked == l # 0 => CheckCase(Trace[l], l)
=============================================================================
