---------------------------- MODULE TraceStreams ----------------------------
(* code -> spec for change streams: every line is one TryNext call ("snext") or the complete delivery record of a
   consumer that blocked in Next while writers ran ("sdeliv"); judged with Streams.tla. *)
EXTENDS Streams, TLC, Json

Trace == ndJsonDeserialize("trace.ndjson")
N == Len(Trace)
NChunk == 32
VARIABLES c, l
vars == <<c, l>>
Init == c = 0 /\ l = 0
Next == \/ /\ c = 0 /\ c' \in 1..NChunk /\ l' = 0
        \/ /\ c # 0 /\ l = 0 /\ l' \in {x \in 1..N : x % NChunk = c - 1} /\ c' = c
Spec == Init /\ [][Next]_vars

Bad(line, what, exp, got) == PrintT(<<"BAD", ToJson([l |-> line, what |-> what, exp |-> exp, got |-> got])>>)

CheckNext(e, line) ==
  NextOK(e.log, e.first, e.start, <<e.scope[1], e.scope[2]>>, e.k, e.invalidated, e.closed, e.res)
  \/ Bad(line, "stream:next:" \o e.kind, Deliveries(e.log, e.start, <<e.scope[1], e.scope[2]>>), e.res)
CheckDelivered(e, line) ==
  DeliveredOK(e.log, e.start, <<e.scope[1], e.scope[2]>>, e.delivered, e.invalidate)
  \/ Bad(line, "stream:delivered", Deliveries(e.log, e.start, <<e.scope[1], e.scope[2]>>), e.delivered)
CheckPrefix(e, line) ==
  DeliveredPrefixOK(e.log, e.start, <<e.scope[1], e.scope[2]>>, e.delivered, e.lost)
  \/ Bad(line, "stream:delivered-under-retention", Deliveries(e.log, e.start, <<e.scope[1], e.scope[2]>>), e.delivered)
Checked == l # 0 => CASE Trace[l].fn = "snext" -> CheckNext(Trace[l], l)
                      [] Trace[l].fn = "sdeliv" -> CheckDelivered(Trace[l], l)
                      [] Trace[l].fn = "sprefix" -> CheckPrefix(Trace[l], l)
                      [] OTHER -> TRUE
=============================================================================
