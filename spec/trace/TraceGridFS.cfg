SPECIFICATION Spec
INVARIANT Checked
CHECK_DEADLOCK FALSE
