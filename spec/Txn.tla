-------------------------------- MODULE Txn --------------------------------
(***************************************************************************)
(* Sessions and transactions at call granularity (property C03), abstract  *)
(* over the contents: a database is a value of a small set of versions and *)
(* a write maps a version to another one.                                  *)
(*   cat      the committed database                                       *)
(*   work     the working copy of the open session transaction, or None    *)
(*   snaps    snapshots handed to readers: id -> database                  *)
(*   seen     what the last read of the plain client / the session saw     *)
(* All-or-nothing: Commit installs work as cat in one step (or leaves cat  *)
(* alone when the store rejects), Abort / End drop work.  Readers outside  *)
(* the transaction only ever see cat; the session sees its own writes.     *)
(* Snapshots never change.                                                 *)
(***************************************************************************)
EXTENDS Integers, FiniteSets, Sequences

CONSTANTS MaxVersion, MaxSnaps
None == -1

VARIABLES cat, work, snaps, seenPlain, seenSess, next
vars == <<cat, work, snaps, seenPlain, seenSess, next>>

Init == cat = 0 /\ work = None /\ snaps = <<>> /\ seenPlain = 0 /\ seenSess = 0 /\ next = 1

Start == work = None /\ work' = cat /\ UNCHANGED <<cat, snaps, seenPlain, seenSess, next>>
(* a write in the session transaction creates a new version visible to the session only *)
SessWrite == work # None /\ next <= MaxVersion /\ work' = next /\ next' = next + 1 /\ UNCHANGED <<cat, snaps, seenPlain, seenSess>>
(* a call inside the transaction that changes nothing (an update that matches nothing): the transaction goes on *)
SessNoop == work # None /\ UNCHANGED vars
SessRead == seenSess' = (IF work # None THEN work ELSE cat) /\ UNCHANGED <<cat, work, snaps, seenPlain, next>>
Commit(storeOK) == /\ work # None
                   /\ cat' = IF storeOK THEN work ELSE cat
                   /\ work' = None
                   /\ UNCHANGED <<snaps, seenPlain, seenSess, next>>
Abort == work # None /\ work' = None /\ UNCHANGED <<cat, snaps, seenPlain, seenSess, next>>
(* a plain client: reads see cat; writes only proceed while no transaction holds the writer slot *)
PlainRead == seenPlain' = cat /\ UNCHANGED <<cat, work, snaps, seenSess, next>>
PlainWrite == work = None /\ next <= MaxVersion /\ cat' = next /\ next' = next + 1 /\ UNCHANGED <<work, snaps, seenPlain, seenSess>>
TakeSnapshot == Len(snaps) < MaxSnaps /\ snaps' = Append(snaps, cat) /\ UNCHANGED <<cat, work, seenPlain, seenSess, next>>

Next == Start \/ SessWrite \/ SessNoop \/ SessRead \/ Commit(TRUE) \/ Commit(FALSE) \/ Abort \/ PlainRead \/ PlainWrite \/ TakeSnapshot
Spec == Init /\ [][Next]_vars

(* properties *)
SnapshotsImmutable == [][\A i \in DOMAIN snaps : snaps'[i] = snaps[i]]_vars
(* the committed database only changes by a successful commit of the whole working copy or by a plain write *)
AllOrNothing == [][cat' # cat => ((work # None /\ cat' = work /\ work' = None) \/ (work = None /\ work' = None))]_vars
(* uncommitted versions are never visible outside the transaction *)
NoDirtyRead == (work # None /\ work # cat) => seenPlain # work
=============================================================================
