------------------------------- MODULE BigDec -------------------------------
(***************************************************************************)
(* Exact decimal arithmetic on the number encoding of BSON.tla (TLC has    *)
(* 32-bit integers only).  A number is (neg, d, e): 0.d1..dn * 10^e.       *)
(* Internally: natural numbers as digit sequences (most significant digit  *)
(* first) with a power-of-ten scale.                                       *)
(***************************************************************************)
EXTENDS BSON

RECURSIVE StripLead(_)
StripLead(a) == IF a # <<>> /\ a[1] = 0 THEN StripLead(Tail(a)) ELSE a
Zeros(n) == [i \in 1..n |-> 0]
PadLeft(a, n) == Zeros(n - Len(a)) \o a
Max(a, b) == IF a > b THEN a ELSE b
Min(a, b) == IF a < b THEN a ELSE b

(* comparison of naturals (any leading zeros) *)
NatCmp(a, b) ==
  LET x == StripLead(a)  y == StripLead(b) IN
  IF Len(x) # Len(y) THEN Sign(Len(x) - Len(y)) ELSE SeqCmp(x, y)

RECURSIVE AddRec(_, _, _, _)
AddRec(a, b, i, carry) ==
  IF i = 0 THEN (IF carry = 0 THEN <<>> ELSE <<carry>>)
  ELSE LET t == a[i] + b[i] + carry IN AddRec(a, b, i - 1, t \div 10) \o <<t % 10>>
NatAdd(a, b) == LET n == Max(Len(a), Len(b)) IN StripLead(AddRec(PadLeft(a, n), PadLeft(b, n), n, 0))

(* a - b for a >= b *)
RECURSIVE SubRec(_, _, _, _)
SubRec(a, b, i, borrow) ==
  IF i = 0 THEN <<>>
  ELSE LET t == a[i] - b[i] - borrow IN
       IF t < 0 THEN SubRec(a, b, i - 1, 1) \o <<t + 10>> ELSE SubRec(a, b, i - 1, 0) \o <<t>>
NatSub(a, b) == LET n == Max(Len(a), Len(b)) IN StripLead(SubRec(PadLeft(a, n), PadLeft(b, n), n, 0))

RECURSIVE MulDigitRec(_, _, _, _)
MulDigitRec(a, dg, i, carry) ==
  IF i = 0 THEN (IF carry = 0 THEN <<>> ELSE <<carry>>)
  ELSE LET t == a[i] * dg + carry IN MulDigitRec(a, dg, i - 1, t \div 10) \o <<t % 10>>
RECURSIVE NatMulRec(_, _, _)
NatMulRec(a, b, j) ==      \* sum over the digits b[1..j]
  IF j = 0 THEN <<>>
  ELSE NatAdd(NatMulRec(a, b, j - 1) \o <<0>>, MulDigitRec(a, b[j], Len(a), 0))
NatMul(a, b) == StripLead(NatMulRec(a, b, Len(b)))

(* scaled signed values: [neg, D (natural), s] = (-1)^neg * D * 10^s *)
ToScaled(v) == [neg |-> v.neg, D |-> v.d, s |-> v.e - Len(v.d)]
Rescale(x, s) == x.D \o Zeros(x.s - s)          \* digits of x at scale s <= x.s
ScaledAdd(x, y) ==
  LET s == Min(x.s, y.s)
      a == Rescale(x, s)  b == Rescale(y, s)
  IN IF x.neg = y.neg THEN [neg |-> x.neg, D |-> NatAdd(a, b), s |-> s]
     ELSE LET c == NatCmp(a, b) IN
          IF c = 0 THEN [neg |-> FALSE, D |-> <<>>, s |-> s]
          ELSE IF c > 0 THEN [neg |-> x.neg, D |-> NatSub(a, b), s |-> s]
          ELSE [neg |-> y.neg, D |-> NatSub(b, a), s |-> s]
ScaledMul(x, y) ==
  LET D == NatMul(x.D, y.D) IN
  [neg |-> (D # <<>>) /\ (x.neg # y.neg), D |-> D, s |-> x.s + y.s]

(* back to the canonical number encoding *)
FromScaled(kind, x, q) ==
  LET D == StripLead(x.D) IN
  IF D = <<>> THEN [t |-> "num", k |-> kind, sp |-> "fin", neg |-> FALSE, d |-> <<>>, e |-> 0, q |-> q]
  ELSE [t |-> "num", k |-> kind, sp |-> "fin", neg |-> x.neg, d |-> StripTrail(D), e |-> Len(D) + x.s, q |-> q]

(* integer range tests on a scaled value with integral value *)
I32Max == <<2,1,4,7,4,8,3,6,4,7>>
I32MinMag == <<2,1,4,7,4,8,3,6,4,8>>
I64Max == <<9,2,2,3,3,7,2,0,3,6,8,5,4,7,7,5,8,0,7>>
I64MinMag == <<9,2,2,3,3,7,2,0,3,6,8,5,4,7,7,5,8,0,8>>
IntDigits(x) == Rescale(x, 0)                       \* requires x.s >= 0
FitsI32(x) == NatCmp(IntDigits(x), IF x.neg THEN I32MinMag ELSE I32Max) <= 0
FitsI64(x) == NatCmp(IntDigits(x), IF x.neg THEN I64MinMag ELSE I64Max) <= 0

(* the decimal exponent shopspring/decimal gives an operand (ints: 0; doubles via shortest rendering:
   minus the number of fraction digits, for doubles that are their own shortest rendering) *)
DecExp(v) == IF v.k = "dec" THEN v.q ELSE Min(0, v.e - Len(v.d))

(***************************************************************************)
(* MongoDB's numeric promotion for $inc / $mul:                            *)
(*   int32 op int32 -> int32, or int64 when the result does not fit        *)
(*   int64 involved  -> int64, error when the result does not fit          *)
(*   any double      -> double  (exact result assumed representable)       *)
(*   any decimal128  -> decimal128                                         *)
(* Result: [ok, v]; ok = FALSE: rejected (not a number / overflow).        *)
(***************************************************************************)
Arith(op, a, b) ==
  IF a.t # "num" \/ b.t # "num" THEN [ok |-> FALSE, v |-> Missing]
  ELSE IF a.sp # "fin" \/ b.sp # "fin" THEN [ok |-> FALSE, v |-> Missing]     \* outside the modelled domain
  ELSE
  LET x == ToScaled(a)  y == ToScaled(b)
      r == IF op = "add" THEN ScaledAdd(x, y) ELSE ScaledMul(x, y)
      kinds == {a.k, b.k}
  IN IF "dec" \in kinds THEN
        LET q == IF op = "add" THEN Min(DecExp(a), DecExp(b)) ELSE DecExp(a) + DecExp(b)
        IN [ok |-> TRUE, v |-> FromScaled("dec", r, q)]
     ELSE IF "f64" \in kinds THEN
        \* IEEE sign of a zero result: product: xor of the operand signs; sum: negative only for (-0) + (-0)
        LET z == FromScaled("f64", r, 0)
            negzero == IF op = "mul" THEN a.neg # b.neg
                       ELSE a.neg /\ b.neg /\ a.d = <<>> /\ b.d = <<>>
        IN [ok |-> TRUE, v |-> IF z.d = <<>> THEN [z EXCEPT !.neg = negzero] ELSE z]
     ELSE IF "i64" \in kinds THEN
        (IF FitsI64(r) THEN [ok |-> TRUE, v |-> FromScaled("i64", r, 0)] ELSE [ok |-> FALSE, v |-> Missing])
     ELSE IF FitsI32(r) THEN [ok |-> TRUE, v |-> FromScaled("i32", r, 0)]
     ELSE [ok |-> TRUE, v |-> FromScaled("i64", r, 0)]
=============================================================================
