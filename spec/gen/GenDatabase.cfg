SPECIFICATION Spec
INVARIANT Emit
CHECK_DEADLOCK FALSE
