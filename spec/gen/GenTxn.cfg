SPECIFICATION Spec
CONSTANTS MaxVersion = 4
          MaxSnaps = 2
INVARIANT Emit
CHECK_DEADLOCK FALSE
