---------------------------- MODULE GenDatabase ----------------------------
(* spec -> code: every transition (reachable state, enabled call) of the bounded model MCDatabase is printed with the
   pre-state, the call, the expected result and the expected post-state; the harness replays each on a fresh real engine. *)
EXTENDS MCDatabase

(* sets are printed as sequences *)
RECURSIVE SetToSeq(_)
SetToSeq(S) == IF S = {} THEN <<>> ELSE LET x == CHOOSE y \in S : TRUE IN <<x>> \o SetToSeq(S \ {x})
DbJson(d) == [ns \in DOMAIN d |-> [docs |-> d[ns].docs, idx |-> SetToSeq(d[ns].idx)]]
Emit == n > 0 => PrintT(<<"STEP", ToJson([pre |-> DbJson(last.pre), op |-> last.op, a |-> last.a, res |-> last.res, post |-> DbJson(db), ev |-> Len(last.ev)])>>)
=============================================================================
