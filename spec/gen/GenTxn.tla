------------------------------- MODULE GenTxn -------------------------------
(***************************************************************************)
(* spec -> code for Txn.tla: every behaviour of the transaction model up   *)
(* to a depth bound is printed as the list of its steps (action, and the   *)
(* abstract state after it) and replayed on a real engine by `dbt          *)
(* txnreplay`: versions are the values of one counter document, the        *)
(* session transaction, the plain client, the rejecting store and the      *)
(* snapshots are the real ones.  After every step the replayer compares    *)
(* the committed version, the working version, what the reads returned     *)
(* and every snapshot with the abstract state.                             *)
(***************************************************************************)
EXTENDS Integers, Sequences, TLC, Json

CONSTANTS MaxVersion, MaxSnaps
Params == JsonDeserialize("mcparams.json")
Depth == Params.depth
None == -1

VARIABLES cat, work, snaps, seenPlain, seenSess, next, hist
T == INSTANCE Txn

St(a) == [a |-> a, cat |-> cat', work |-> work', snaps |-> snaps', seenPlain |-> seenPlain', seenSess |-> seenSess', next |-> next']
Step(A, name) == A /\ hist' = Append(hist, St(name))

Init == T!Init /\ hist = <<>>
Next == /\ Len(hist) < Depth
        /\ \/ Step(T!Start, "Start") \/ Step(T!SessWrite, "SessWrite") \/ Step(T!SessRead, "SessRead")
           \/ (work # None /\ UNCHANGED <<cat, work, snaps, seenPlain, seenSess, next>> /\ hist' = Append(hist, St("SessNoop")))
           \/ Step(T!Commit(TRUE), "CommitOK") \/ Step(T!Commit(FALSE), "CommitFail") \/ Step(T!Abort, "Abort")
           \/ Step(T!PlainRead, "PlainRead") \/ Step(T!PlainWrite, "PlainWrite") \/ Step(T!TakeSnapshot, "TakeSnapshot")
Spec == Init /\ [][Next]_<<cat, work, snaps, seenPlain, seenSess, next, hist>>

(* complete behaviours of the bound are emitted once each (the history is part of the state) *)
Emit == Len(hist) = Depth => PrintT(<<"PATH", ToJson(hist)>>)
=============================================================================
