------------------------------- MODULE Robust -------------------------------
(***************************************************************************)
(* C20: the grammar of oddly shaped but well-typed inputs.  The module     *)
(* only enumerates: every (call family, operator, argument class, path     *)
(* shape, document shape) cell is produced exactly once and printed; the   *)
(* harness instantiates each cell with concrete values and runs it on the  *)
(* real code under recover().  The only asserted outcome is "returns a     *)
(* result or an error and the engine serves the next call".                *)
(***************************************************************************)
EXTENDS TLC, Json, Sequences, FiniteSets

QueryOps == {"$eq", "$gt", "$gte", "$lt", "$lte", "$ne", "$in", "$nin", "$exists", "$type", "$all", "$size", "$not", "$elemMatch", "$mod",
             "$bitsAllSet", "$bitsAllClear", "$bitsAnySet", "$bitsAnyClear", "$and", "$or", "$nor", "$jsonSchema", "$unknown", "implicit"}
UpdateOps == {"$set", "$setOnInsert", "$unset", "$rename", "$inc", "$mul", "$min", "$max", "$currentDate", "$push", "$pop", "$pull", "$pullAll", "$addToSet", "$bit",
              "$push-each", "$push-position", "$push-sort", "$push-slice", "$addToSet-each", "$unknown", "replacement"}
ProjOps == {"flag", "$slice", "$elemMatch", "$unknown"}
OtherOps == {"sort", "distinct", "index-key", "index-partial", "skip-limit", "arrayFilters", "insert", "id"}
ArgClasses == {"null", "true", "false", "zero", "negzero", "fraction", "negfraction", "tiny", "int32", "int64", "double", "negative", "nan", "inf", "ninf", "decimal", "decnan", "decinf", "huge", "minint", "minint32", "mindouble", "maxdouble", "string", "emptystr",
               "dollarstr", "dotstr", "doc", "emptydoc", "opdoc", "baddoc", "arr", "emptyarr", "arr1", "arr2", "arr3", "nestedarr", "arrdocs", "binary", "oid", "date", "ts", "regex", "deep"}
PathShapes == {"top", "nested", "index", "bigindex", "empty", "dotted-empty", "trailing-dot", "dollar", "pos-all", "pos-id", "pos-unbound", "pos-implicit", "missing", "through-array", "id"}
Params == JsonDeserialize("mcparams.json")
DocShapes == IF Params.big THEN {"scalars", "arrays", "arrdocs", "nestedarr", "empty", "docid", "binid", "arrid", "numkeys", "deep"}
             ELSE {"arrays", "arrdocs", "docid", "numkeys"}

(* The second grid: every combination of the options that steer a call through different code paths (what is   *)
(* matched, upsert, which image is returned, projection, sort, inside a session transaction or not).            *)
OptCalls == {"findOneAndUpdate", "findOneAndReplace", "findOneAndDelete", "updateOne", "updateMany", "replaceOne", "deleteOne", "find", "findOne", "distinct", "count", "bulkWrite"}
OptMatch == {"one", "none", "many", "emptycoll", "nocoll"}
OptProj == {"none", "incl", "excl", "idonly", "noid", "slice", "elem", "mixed"}
OptSort == {"none", "asc", "desc", "bad"}
OptCells == {<<u, m, r, pj, so, tx>> : u \in BOOLEAN, m \in OptMatch, r \in BOOLEAN, pj \in OptProj, so \in OptSort, tx \in BOOLEAN}

Families == {<<"options", o>> : o \in OptCalls} \cup {<<"query", o>> : o \in QueryOps} \cup {<<"update", o>> : o \in UpdateOps} \cup {<<"project", o>> : o \in ProjOps} \cup {<<"other", o>> : o \in OtherOps}

VARIABLES fam, cell
vars == <<fam, cell>>
Init == fam = <<>> /\ cell = <<>>
Next == \/ /\ fam = <<>> /\ fam' \in Families /\ cell' = <<>>
        \/ /\ fam # <<>> /\ cell = <<>>
           /\ cell' \in IF fam[1] = "options" THEN OptCells ELSE {<<a, p, d>> : a \in ArgClasses, p \in PathShapes, d \in DocShapes}
           /\ fam' = fam
Spec == Init /\ [][Next]_vars

Emit == cell # <<>> =>
          IF fam[1] = "options"
          THEN PrintT(<<"CASE", ToJson([fam |-> fam[1], op |-> fam[2], upsert |-> cell[1], match |-> cell[2], after |-> cell[3], proj |-> cell[4], sort |-> cell[5], txn |-> cell[6]])>>)
          ELSE PrintT(<<"CASE", ToJson([fam |-> fam[1], op |-> fam[2], arg |-> cell[1], path |-> cell[2], doc |-> cell[3]])>>)
=============================================================================
