SPECIFICATION Spec
INVARIANTS PrefixOfScope NoDuplicates
PROPERTY AppendOnly
CHECK_DEADLOCK FALSE
