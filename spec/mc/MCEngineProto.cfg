SPECIFICATION Spec
CONSTANTS Procs = {1, 2}
          MaxCalls = 2
          FixBeginOrder = TRUE
          defaultInitValue = defaultInitValue
INVARIANTS Conservation NoPanic TxnImpliesHeld ClosedUnregistered DoneFree
