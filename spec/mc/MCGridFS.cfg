SPECIFICATION Spec
INVARIANTS ClosedIsWellFormed FullChunksOnlyWhileOpen
CHECK_DEADLOCK FALSE
