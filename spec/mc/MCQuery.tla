------------------------------ MODULE MCQuery ------------------------------
(***************************************************************************)
(* C10, specification level: MatchImpl (lungo's algorithm) and MatchRef    *)
(* (MongoDB's path-expansion semantics) agree on every (document, filter)  *)
(* of a bounded universe that lies in the core domain (DESIGN.md 8.2), and *)
(* the logical laws hold for MatchImpl on the whole universe.              *)
(***************************************************************************)
EXTENDS QueryRef

Params == JsonDeserialize("mcparams.json")

D(f) == Doc(f)
A(a) == Arr(a)
S(s) == StrV(s)

Scalars == {I32(1), I32(2), S("x"), Null} \cup (IF Params.big THEN {I64(1), Bool(TRUE)} ELSE {})
SubDocs == {D(<<>>), D(<< <<"b", I32(1)>> >>), D(<< <<"b", I32(2)>> >>), D(<< <<"b", Null>> >>),
            D(<< <<"b", A(<<I32(1), I32(2)>>)>> >>), D(<< <<"b", A(<<>>)>> >>), D(<< <<"c", I32(1)>> >>),
            D(<< <<"1", I32(1)>> >>), D(<< <<"1", D(<< <<"b", I32(2)>> >>)>> >>),     \* numeric field names inside array elements
            D(<< <<"b", A(<<D(<< <<"c", I32(1)>> >>), D(<< <<"c", A(<<I32(1), I32(2)>>)>> >>)>>)>> >>)}    \* a second level of fan-out under a.b
            \cup (IF Params.big THEN {D(<< <<"b", D(<< <<"c", I32(1)>> >>)>> >>), D(<< <<"b", S("x")>>, <<"c", I32(2)>> >>)} ELSE {})
Elems == Scalars \cup SubDocs
Arrays == {A(<<>>)} \cup {A(<<x>>) : x \in Elems} \cup {A(<<x, y>>) : x \in Elems, y \in Elems}
          \cup {A(<<A(<<I32(1)>>)>>), A(<<I32(1), A(<<I32(2)>>)>>)}      \* outside the core domain (laws only)
AVals == Scalars \cup SubDocs \cup Arrays
Docs == {D(<<>>)} \cup {D(<< <<"a", v>> >>) : v \in AVals}

Paths == {<<"a">>, <<"a", "b">>, <<"a", "0">>, <<"a", "0", "b">>, <<"a", "1">>, <<"a", "b", "c">>, <<"a", "1", "b">>}

CmpOps == {"$eq", "$gt", "$gte", "$lt", "$lte", "$ne"}
CmpOperands == {I32(1), I32(2), S("x"), Null, A(<<I32(1), I32(2)>>), D(<< <<"b", I32(1)>> >>), A(<<>>)}
InLists == {A(<<I32(1)>>), A(<<I32(1), S("x")>>), A(<<Null>>), A(<<>>), A(<<I32(2), Null>>)}
(* every (operator, operand) pair of the universe *)
Conds ==
  {<<op, v>> : op \in CmpOps, v \in CmpOperands}
  \cup {<<op, v>> : op \in {"$in", "$nin"}, v \in InLists}
  \cup {<<"$exists", Bool(b)>> : b \in BOOLEAN}
  \cup {<<"$type", S(s)>> : s \in {"number", "string", "array", "object", "null", "int"}}
  \cup {<<"$size", I32(n)>> : n \in {0, 1, 2}}
  \cup {<<"$all", v>> : v \in {A(<<I32(1)>>), A(<<I32(1), I32(2)>>), A(<<D(<< <<"b", I32(1)>> >>)>>), A(<<>>)}}
  \cup {<<"$elemMatch", v>> : v \in {D(<< <<"$gt", I32(1)>> >>), D(<< <<"b", I32(1)>> >>), D(<< <<"b", D(<< <<"$gt", I32(1)>> >>)>> >>),
                                     D(<< <<"$gte", I32(1)>>, <<"$lt", I32(2)>> >>)}}
  \cup {<<"$mod", A(<<I32(2), I32(1)>>)>>, <<"$mod", A(<<I32(2), I32(0)>>)>>}
  \cup {<<"$bitsAllSet", I32(1)>>, <<"$bitsAnyClear", I32(3)>>}
  \cup {<<"$not", D(<< <<o, v>> >>)>> : o \in {"$gt", "$eq"}, v \in {I32(1), Null}}
  \cup {<<"$not", D(<< <<"$in", A(<<I32(1), S("x")>>)>> >>)>>}

VARIABLES d, p, cond
vars == <<d, p, cond>>
None == <<"none", Null>>

Init == d \in Docs /\ p = <<>> /\ cond = None
Next == /\ p = <<>>
        /\ d' = d
        /\ p' \in Paths
        /\ cond' \in Conds
Spec == Init /\ [][Next]_vars

PathStr(q) == CHOOSE s \in DOMAIN Str : Str[s].p = q
Filter == D(<< <<PathStr(p), D(<<cond>>)>> >>)
Active == p # <<>>

Impl == MatchImpl(d, Filter)
(* Known deviation of lungo inside the core domain (known-findings KF-C10-1): $type "array" on a  *)
(* path that traverses an array never matches, because the leaf arrays are merged away.  It is     *)
(* excluded here so that the bounded agreement check stays meaningful for everything else; on real *)
(* code the trace check reports it as a KNOWN-FINDING.                                             *)
(* KF-C10-3: $size on a path that passes through two arrays sees the array of collected (missing) members *)
RECURSIVE Crossed(_, _)
Crossed(v, q) ==      \* number of arrays a walk along q passes through (with path left over)
  IF q = <<>> THEN 0
  ELSE IF v.t = "doc" THEN (IF HasField(v, Head(q)) THEN Crossed(Field(v, Head(q)), Tail(q)) ELSE 0)
  ELSE IF v.t = "arr" THEN
       LET viaIdx == IF IdxOf(Head(q)) >= 0 /\ IdxOf(Head(q)) < Len(v.a) THEN {Crossed(v.a[IdxOf(Head(q)) + 1], Tail(q))} ELSE {}
           viaDocs == {Crossed(v.a[i], q) : i \in {j \in 1..Len(v.a) : v.a[j].t = "doc"}}
           viaArrs == IF \E i \in 1..Len(v.a) : v.a[i].t = "arr" THEN {1} ELSE {}
           all == viaIdx \cup viaDocs \cup viaArrs \cup {0}
       IN 1 + (CHOOSE m \in all : \A x \in all : x <= m)
  ELSE 0
KnownDeviation == \/ (cond[1] = "$type" /\ cond[2] = S("array") /\ Traverses(d, p))
                  \/ (cond[1] = "$size" /\ Crossed(d, p) >= 2)

(* every disagreement inside the core domain is printed; the run continues so that all of them are seen *)
Agree == Active => ((InCore(d, Filter) /\ ~KnownDeviation) =>
           /\ PrintT(<<"CORE", 1>>)
           /\ (Impl = MatchRef(d, Filter)
                \/ PrintT(<<"DISAGREE", ToJson([d |-> d, p |-> p, op |-> cond[1], v |-> cond[2], impl |-> Impl, ref |-> MatchRef(d, Filter)])>>)))

(* laws on MatchImpl over the whole universe (nested arrays included) *)
One(op, v) == D(<< <<PathStr(p), D(<< <<op, v>> >>)>> >>)
LawNe  == (Active /\ cond[1] = "$eq") => MatchImpl(d, One("$ne", cond[2])) = Neg(Impl)
LawNin == (Active /\ cond[1] = "$in") => MatchImpl(d, One("$nin", cond[2])) = Neg(Impl)
LawNot == (Active /\ cond[1] # "$not") => MatchImpl(d, One("$not", D(<<cond>>))) = Neg(Impl)
LawGte == (Active /\ cond[1] = "$gte") =>
            (Impl = "T") = (MatchImpl(d, One("$gt", cond[2])) = "T" \/ MatchImpl(d, One("$eq", cond[2])) = "T")
LawLte == (Active /\ cond[1] = "$lte") =>
            (Impl = "T") = (MatchImpl(d, One("$lt", cond[2])) = "T" \/ MatchImpl(d, One("$eq", cond[2])) = "T")
LawIn  == (Active /\ cond[1] = "$in") =>
            (Impl = "T") = (\E i \in 1..Len(cond[2].a) : MatchImpl(d, One("$eq", cond[2].a[i])) = "T")
LawNor == Active => MatchImpl(d, D(<< <<"$nor", A(<<Filter>>)>> >>)) = Neg(MatchImpl(d, D(<< <<"$or", A(<<Filter>>)>> >>)))
LawAnd == Active => MatchImpl(d, D(<< <<"$and", A(<<Filter, One("$exists", Bool(TRUE))>>)>> >>)) =
                      (IF Impl = "T" /\ MatchImpl(d, One("$exists", Bool(TRUE))) = "T" THEN "T" ELSE "F")
NoError == Active => Impl \in {"T", "F"}
=============================================================================
