SPECIFICATION Spec
INVARIANTS OldOrNew DurableOnceReturned
CHECK_DEADLOCK FALSE
