SPECIFICATION Spec
CONSTANTS NEvents = 3
          Buffered = TRUE
          WithClose = FALSE
INVARIANT InOrder
PROPERTY AllDelivered
CHECK_DEADLOCK FALSE
