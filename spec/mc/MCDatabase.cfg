SPECIFICATION Spec
INVARIANTS Unique IdIndexAlways FailedUnchanged ReplayHolds NaturalOrder
CHECK_DEADLOCK FALSE
