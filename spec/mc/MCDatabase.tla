----------------------------- MODULE MCDatabase -----------------------------
(***************************************************************************)
(* Bounded model checking of the reference model itself (Database.tla):    *)
(* from the empty database, every call of a small alphabet in every state  *)
(* reachable within Depth calls.  Checked in every reachable state / step: *)
(*   Unique         no unique index (and _id_) holds two equal keys (C07)  *)
(*   IdIndexAlways  every collection has its _id_ index (C15)              *)
(*   FailedUnchanged  a failed single write leaves the database and the    *)
(*                  change log unchanged (C02)                             *)
(*   ReplayHolds    replaying the events of a step onto the contents       *)
(*                  before it gives the contents after it (C08)            *)
(*   NaturalOrder   documents keep their relative order (replace keeps the *)
(*                  slot, delete preserves order, insert appends) (C01)    *)
(***************************************************************************)
EXTENDS Database

Params == JsonDeserialize("mcparams.json")
Depth == Params.depth
NS == "d.c1"

D(f) == Doc(f)
Ids == {I32(1), I64(1), I32(2)}
AVals == {I32(1), I64(1), I32(2), Arr(<<I32(1), I32(2)>>)}
Docs == {D(<< <<"_id", i>>, <<"a", a>> >>) : i \in Ids, a \in AVals} \cup {D(<< <<"_id", I32(2)>> >>)}
Filters == {D(<<>>), D(<< <<"_id", I32(1)>> >>), D(<< <<"a", I32(1)>> >>), D(<< <<"a", D(<< <<"$gte", I32(2)>> >>)>> >>)}
Updates == {D(<< <<"$set", D(<< <<"a", I32(1)>> >>)>> >>), D(<< <<"$inc", D(<< <<"a", I32(1)>> >>)>> >>), D(<< <<"$set", D(<< <<"_id", I32(2)>> >>)>> >>),
            D(<< <<"$push", D(<< <<"a", I32(2)>> >>)>> >>)}
UniqA == [key |-> D(<< <<"a", I32(1)>> >>), name |-> "", unique |-> TRUE, partial |-> Missing, exp |-> -1]

Calls ==
  {[op |-> "insertOne", a |-> [doc |-> d, gen |-> Missing]] : d \in Docs}
  \cup {[op |-> o, a |-> [q |-> q, upd |-> u, upsert |-> FALSE, afs |-> <<>>, gen |-> Missing]] : o \in {"updateOne", "updateMany"}, q \in Filters, u \in Updates}
  \cup {[op |-> "replaceOne", a |-> [q |-> q, repl |-> D(<< <<"a", v>> >>), upsert |-> FALSE, gen |-> Missing]] : q \in Filters, v \in {I32(1), I32(2)}}
  \cup {[op |-> o, a |-> [q |-> q]] : o \in {"deleteOne", "deleteMany"}, q \in Filters}
  \cup {[op |-> "insertMany", a |-> [docs |-> <<d1, d2>>, ordered |-> ord, gen |-> Missing]] : d1 \in {D(<< <<"_id", I32(1)>>, <<"a", I32(1)>> >>), D(<< <<"_id", I32(2)>>, <<"a", I32(2)>> >>)},
                                                                                                d2 \in {D(<< <<"_id", I64(1)>>, <<"a", I32(2)>> >>), D(<< <<"_id", I32(2)>>, <<"a", I64(1)>> >>)}, ord \in BOOLEAN}
  \cup {[op |-> "createIndex", a |-> UniqA], [op |-> "dropIndex", a |-> [name |-> "a_1"]], [op |-> "dropIndex", a |-> [name |-> "_id_"]], [op |-> "drop", a |-> <<>>]}
  \* upserts whose filter fixes the _id (no generated id), find-and-modify with both images, drop by key, several indexes at once
  \cup {[op |-> "updateOne", a |-> [q |-> D(<< <<"_id", i>> >>), upd |-> u, upsert |-> TRUE, afs |-> <<>>, gen |-> Missing]] :
           i \in {I32(1), I32(2)}, u \in {D(<< <<"$set", D(<< <<"a", I32(1)>> >>)>> >>), D(<< <<"$inc", D(<< <<"a", I32(1)>> >>)>> >>)}}
  \cup {[op |-> "findOneAndUpdate", a |-> [q |-> c[1], upd |-> D(<< <<"$inc", D(<< <<"a", I32(1)>> >>)>> >>), sort |-> EmptyDoc, proj |-> Missing, upsert |-> c[2], after |-> af,
                                           afs |-> <<>>, gen |-> Missing]] :
           c \in {<<D(<< <<"_id", I32(1)>> >>), TRUE>>, <<D(<< <<"_id", I32(1)>> >>), FALSE>>, <<D(<<>>), FALSE>>}, af \in BOOLEAN}
  \cup {[op |-> "dropIndexByKey", a |-> [key |-> D(<< <<"a", I32(1)>> >>)]], [op |-> "dropIndexByKey", a |-> [key |-> D(<< <<"_id", I32(1)>> >>)]]}
  \cup {[op |-> "createIndexes", a |-> [specs |-> <<UniqA, [key |-> D(<< <<"b", I32(1)>> >>), name |-> "", unique |-> FALSE, partial |-> Missing, exp |-> -1]>>]]}

VARIABLES db, n, last
vars == <<db, n, last>>
Init == db = <<>> /\ n = 0 /\ last = [pre |-> <<>>, res |-> Res, ev |-> <<>>, op |-> "none", a |-> <<>>]
Next == /\ n < Depth
        /\ \E c \in Calls :
             LET x == Exec(db, c.op, NS, c.a) IN
             /\ db' = x.db
             /\ last' = [pre |-> db, res |-> x.res, ev |-> x.ev, op |-> c.op, a |-> c.a]
        /\ n' = n + 1
Spec == Init /\ [][Next]_vars

Unique == \A ns \in DOMAIN db : UniqueOK(db[ns])
IdIndexAlways == \A ns \in DOMAIN db : IdIndex \in db[ns].idx
FailedUnchanged == (last.res.err /\ last.op \notin {"insertMany", "bulkWrite"}) => (db = last.pre /\ last.ev = <<>>)
ReplayHolds == SameContents(Replay(Contents(last.pre), last.ev, 1), Contents(db))
(* the ids present before and after a step keep their relative order *)
IdsOf(docs) == [i \in 1..Len(docs) |-> Id(docs[i])]
NaturalOrder ==
  (NS \in DOMAIN last.pre /\ NS \in DOMAIN db /\ last.op \notin {"updateOne", "updateMany"}) =>
     LET before == IdsOf(last.pre[NS].docs)  after == IdsOf(db[NS].docs)
         keptB == FilterSeq(LAMBDA v : \E j \in 1..Len(after) : after[j] = v, before)
         keptA == FilterSeq(LAMBDA v : \E j \in 1..Len(before) : before[j] = v, after)
     IN keptB = keptA
=============================================================================
