------------------------------ MODULE MCCrashFS ------------------------------
EXTENDS Json, Sequences, Integers
Prog == JsonDeserialize("program.json")
P == [i \in 1..Len(Prog.ops) |-> [op |-> Prog.ops[i]]]
Old == Prog.hasold
VARIABLES pc, vdir, ddir, vlen, dlen, pend, phase, result
INSTANCE CrashFS WITH Program <- P, HasOld <- Old
=============================================================================
