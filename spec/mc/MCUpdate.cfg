SPECIFICATION Spec
INVARIANTS Idempotent Untouched RecSound IdOnlyByAddress
CHECK_DEADLOCK FALSE
