SPECIFICATION Spec
INVARIANT ImplIsRef
CHECK_DEADLOCK FALSE
