------------------------------- MODULE MCRead -------------------------------
(***************************************************************************)
(* C13 / C14, specification level, exhaustive over a bounded universe:     *)
(*  SortIsStableOrder  SortDocs returns a permutation that never decreases *)
(*                     under the sort specification and keeps ties in list *)
(*                     order (so it is THE order the property describes)   *)
(*  WindowAgrees       the implementation-shaped pipeline sort ->          *)
(*                     filter(limit+skip) -> drop skip returns exactly the *)
(*                     window [skip, skip+limit) of the full ordering      *)
(*  ProjSubDocument    every value of a projected result is the stored     *)
(*                     value at that path (arrays: a sub-sequence)         *)
(*  ProjExact          inclusion: _id plus exactly the included top-level  *)
(*                     fields; exclusion: the document minus exactly the   *)
(*                     excluded paths                                      *)
(***************************************************************************)
EXTENDS SortDistinct, Projection

Params == JsonDeserialize("mcparams.json")

D(f) == Doc(f)
A(a) == Arr(a)
S(s) == StrV(s)

(* ---- sort universe ---- *)
SVals == {I32(1), I64(2), Null, A(<<I32(3), I32(0)>>), D(<< <<"b", I32(1)>> >>)} \cup (IF Params.big THEN {I32(2), S("a"), A(<<I32(1), I32(3)>>)} ELSE {})
BVals == {I32(1), I64(1), S("a")}
SDoc(i, a, b) == D(<< <<"_id", I32(i)>>, <<"a", a>>, <<"b", b>> >>)
SDocNoB(i, a) == D(<< <<"_id", I32(i)>>, <<"a", a>> >>)
ColSets == { << [p |-> <<"a">>, rev |-> FALSE] >>, << [p |-> <<"a">>, rev |-> TRUE] >>,
             << [p |-> <<"a">>, rev |-> FALSE], [p |-> <<"b">>, rev |-> TRUE] >>,
             << [p |-> <<"b">>, rev |-> TRUE], [p |-> <<"a">>, rev |-> TRUE] >>,
             << [p |-> <<"a", "b">>, rev |-> FALSE] >> }
Filters == {D(<<>>), D(<< <<"a", D(<< <<"$gte", I32(2)>> >>)>> >>)} \cup (IF Params.big THEN {D(<< <<"b", D(<< <<"$exists", Bool(TRUE)>> >>)>> >>)} ELSE {})

(* ---- projection universe ---- *)
PDocs == {D(<< <<"_id", I32(1)>>, <<"a", D(<< <<"b", A(<<I32(1), I32(2), I32(3)>>)>>, <<"c", I32(1)>> >>)>>, <<"z", S("a")>> >>),
          D(<< <<"_id", I32(1)>>, <<"a", A(<<D(<< <<"b", I32(1)>> >>), D(<< <<"b", I32(2)>> >>), I32(2)>>)>>, <<"c", Null>> >>),
          D(<< <<"_id", D(<< <<"k", I32(1)>> >>)>>, <<"a", D(<< <<"b", D(<< <<"c", I32(1)>>, <<"d", A(<<>>)>> >>)>> >>)>> >>)}
PKeys == {"a", "c", "z", "a.b", "a.c", "a.b.c", "_id"}
PVals == {I32(1), I32(0), Bool(TRUE), Bool(FALSE),
          D(<< <<"$slice", I32(2)>> >>), D(<< <<"$slice", I32(-1)>> >>), D(<< <<"$slice", A(<<I32(1), I32(1)>>)>> >>), D(<< <<"$slice", A(<<I32(-5), I32(2)>>)>> >>),
          D(<< <<"$elemMatch", D(<< <<"$gt", I32(1)>> >>)>> >>), D(<< <<"$elemMatch", D(<< <<"b", I32(2)>> >>)>> >>)}

VARIABLES kind, x
vars == <<kind, x>>
(* two levels of fan-out so that all TLC workers take part: level 1 fixes part of the case, level 2 the rest *)
Init == kind = "init" /\ x = <<>>
Next ==
  \/ /\ kind = "init"
     /\ \/ /\ kind' = "sort1"
           /\ \E a1 \in SVals : \E cols \in ColSets : x' = [a1 |-> a1, cols |-> cols]
        \/ /\ kind' = "proj1"
           /\ \E d \in PDocs : \E k1 \in PKeys : x' = [d |-> d, k1 |-> k1]
  \/ /\ kind = "sort1"
     /\ kind' = "sort"
     /\ \E a2, a3 \in SVals : \E b1, b2 \in BVals : \E q \in Filters : \E n \in 0..3 :
          x' = [list |-> SubSeq(<<SDoc(3, x.a1, b1), SDocNoB(1, a2), SDoc(2, a3, b2)>>, 1, n), cols |-> x.cols, q |-> q]
  \/ /\ kind = "proj1"
     /\ kind' = "proj"
     /\ \E k2 \in PKeys : \E v1, v2 \in PVals : \E two \in BOOLEAN :
          x' = [d |-> x.d, proj |-> IF two /\ x.k1 # k2 THEN D(<< <<x.k1, v1>>, <<k2, v2>> >>) ELSE D(<< <<x.k1, v1>> >>)]
Spec == Init /\ [][Next]_vars

Sorted == SortDocs(x.list, x.cols)
SortIsStableOrder ==
  kind = "sort" => NonDecreasing(Sorted, x.cols) /\ IsStablePermutation(Sorted, x.list, x.cols)

SortDocOf(cols) == D([i \in 1..Len(cols) |-> <<CHOOSE s \in DOMAIN Str : Str[s].p = cols[i].p, IF cols[i].rev THEN I32(-1) ELSE I32(1)>>])
WindowAgrees ==
  kind = "sort" =>
    \A skip \in 0..3 : \A limit \in 0..3 :
       LET r == FindImpl(x.list, x.q, SortDocOf(x.cols), skip, limit) IN
       ~r.err /\ r.list = FindRef(x.list, x.q, x.cols, skip, limit)

PR == Project(x.d, x.proj)
InDom == InProjDomain(x.d, x.proj)
ProjSubDocument == (kind = "proj" /\ InDom /\ ~PR.err) => SubDocument(PR.doc, x.d)

TopKeys(v) == {v.f[i][1] : i \in 1..Len(v.f)}
IsFlag(v) == v.t \in {"bool", "num"}
IncFlag(v) == (v.t = "bool" /\ v.b) \/ (v.t = "num" /\ Cmp(v, I32(1)) = 0)
ProjPairs == {x.proj.f[i] : i \in 1..Len(x.proj.f)}
ProjExact ==
  (kind = "proj" /\ InDom /\ ~PR.err /\ \A pr \in ProjPairs : IsFlag(pr[2])) =>
     LET incl == {pr \in ProjPairs : IncFlag(pr[2])}
         excl == {pr \in ProjPairs : ~IncFlag(pr[2]) /\ pr[1] # "_id"}
         hide == \E pr \in ProjPairs : pr[1] = "_id" /\ ~IncFlag(pr[2])
     IN IF incl # {}
        THEN \* exactly _id (unless hidden) and the first components of included paths that exist in the document
             /\ TopKeys(PR.doc) = ({PathOf(pr[1])[1] : pr \in {q \in incl : Get(x.d, PathOf(q[1])) # Missing}} \cup {"_id"}) \ (IF hide THEN {"_id"} ELSE {})
             /\ \A pr \in incl : Get(PR.doc, PathOf(pr[1])) = Get(x.d, PathOf(pr[1]))
        ELSE \* the document minus the excluded paths (and _id when hidden); everything else untouched
             /\ \A pr \in excl : Get(PR.doc, PathOf(pr[1])) = Missing
             /\ PR.doc = (IF hide THEN Unset(UnsetAll(x.d, [i \in 1..Len(x.proj.f) |-> PathOf(x.proj.f[i][1])], 1), <<"_id">>).doc
                          ELSE UnsetAll(x.d, SelectSeq([i \in 1..Len(x.proj.f) |-> PathOf(x.proj.f[i][1])], LAMBDA p : p # <<"_id">>), 1))
(* mixing inclusion and exclusion (other than _id) is an error *)
ProjMixRejected ==
  (kind = "proj" /\ \A pr \in ProjPairs : IsFlag(pr[2])) =>
     ((\E p1, p2 \in ProjPairs : IncFlag(p1[2]) /\ ~IncFlag(p2[2]) /\ p2[1] # "_id") => PR.err)
=============================================================================
