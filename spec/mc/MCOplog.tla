------------------------------ MODULE MCOplog ------------------------------
(* C08 retention, specification level: the loop of Transaction.Clean removes exactly what the property demands,
   for every configuration of a bounded universe. *)
EXTENDS Oplog, TLC

Ages == {5, 50, 500}
RECURSIVE AgeSeqs(_)
AgeSeqs(n) == IF n = 0 THEN {<<>>} ELSE {<<a>> \o s : a \in Ages, s \in AgeSeqs(n - 1)}
VARIABLES len, ages, cfg
vars == <<len, ages, cfg>>
Init == len = -1 /\ ages = <<>> /\ cfg = <<>>
Next == \/ /\ len = -1
           /\ len' \in 0..6
           /\ ages' \in {s \in AgeSeqs(len') : NonIncreasing(s)}
           /\ cfg' = <<>>
        \/ /\ len >= 0 /\ cfg = <<>>
           /\ cfg' \in {<<a, b, c, d>> : a \in 0..4, b \in 0..4, c \in {0, 10, 100}, d \in {10, 100, 1000}}
           /\ UNCHANGED <<len, ages>>
Spec == Init /\ [][Next]_vars
ImplIsRef == cfg # <<>> =>
  /\ CleanImpl(len, ages, cfg[1], cfg[2], cfg[3], cfg[4]) = CleanRef(len, ages, cfg[1], cfg[2], cfg[3], cfg[4])
  /\ EnvelopeOK(CleanImpl(len, ages, cfg[1], cfg[2], cfg[3], cfg[4]), len, ages, cfg[1], cfg[2], cfg[3], cfg[4])
=============================================================================
