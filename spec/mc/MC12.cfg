SPECIFICATION Spec
INVARIANTS Reflexive Antisymmetric Transitive Congruent ClassOrder NumberOrder Range
POSTCONDITION Emit
CHECK_DEADLOCK FALSE
