SPECIFICATION Spec
INVARIANTS Agree LawNe LawNin LawNot LawGte LawLte LawIn LawNor LawAnd NoError
CHECK_DEADLOCK FALSE
