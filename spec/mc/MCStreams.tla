------------------------------ MODULE MCStreams ------------------------------
(* C09, specification level: a consumer that repeatedly asks for the next event while writers commit and retention
   trims receives each event of its scope exactly once, in order, or fails with the lost-position error; it never skips. *)
EXTENDS Streams, TLC

Ops == {"insert", "drop", "dropDatabase"}
Evs == {[db |-> d, coll |-> c, op |-> o] : d \in {"d", "e"}, c \in {"c1", "c2"}, o \in {"insert", "drop"}} \cup {[db |-> d, coll |-> "", op |-> "dropDatabase"] : d \in {"d"}}
Scopes == {<<"", "">>, <<"d", "">>, <<"d", "c1">>}
MaxLen == 4

VARIABLES hist, first, sc, k, delivered, state   \* state: "open" | "invalidated" | "lost"
vars == <<hist, first, sc, k, delivered, state>>
WithId(e, n) == [db |-> e.db, coll |-> e.coll, op |-> e.op, id |-> n]

Init == hist = <<>> /\ first = 1 /\ sc \in Scopes /\ k = 0 /\ delivered = <<>> /\ state = "open"
Commit == Len(hist) < MaxLen /\ \E e \in Evs : hist' = Append(hist, WithId(e, Len(hist) + 1)) /\ UNCHANGED <<first, sc, k, delivered, state>>
Trim == first <= Len(hist) /\ first' = first + 1 /\ UNCHANGED <<hist, sc, k, delivered, state>>
(* the consumer takes whatever the specification allows *)
Consume ==
  /\ state = "open"
  /\ LET D == Deliveries(hist, 0, sc) IN
     IF k < Len(D) THEN
        IF D[k + 1] < first THEN state' = "lost" /\ UNCHANGED <<k, delivered>>
        ELSE /\ delivered' = Append(delivered, D[k + 1]) /\ k' = k + 1
             /\ state' = IF Invalidating(hist[D[k + 1]], sc) THEN "invalidated" ELSE "open"
     ELSE UNCHANGED <<k, delivered, state>>
  /\ UNCHANGED <<hist, first, sc>>
Next == Commit \/ Trim \/ Consume
Spec == Init /\ [][Next]_vars

(* delivered is always a prefix of the scope-filtered history: nothing skipped, nothing twice, in order *)
PrefixOfScope ==
  LET D == Deliveries(hist, 0, sc) IN Len(delivered) <= Len(D) /\ \A i \in 1..Len(delivered) : delivered[i] = D[i]
NoDuplicates == \A i, j \in 1..Len(delivered) : i # j => delivered[i] # delivered[j]
AppendOnly == [][\A i \in 1..Len(delivered) : delivered'[i] = delivered[i]]_vars
=============================================================================
