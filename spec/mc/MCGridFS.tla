------------------------------ MODULE MCGridFS ------------------------------
(* C18, specification level: for every buffer size B in 3..6, chunk size C in 1..B+2 (bounded) and every way of writing up
   to 2B+2 bytes in pieces, with a suspend/resume at any point, the stored chunks are well formed. *)
EXTENDS GridFS, TLC

VARIABLES B, C, st, total, phase
vars == <<B, C, st, total, phase>>
Init == B \in 3..6 /\ C \in 1..6 /\ C <= B /\ st = NewUpload /\ total = 0 /\ phase = "open"
Write == /\ phase = "open" /\ total < 2 * B + 2
         /\ \E n \in 1..(B + 2) : total + n <= 2 * B + 2 /\ st' = WriteN(st, n, B, C) /\ total' = total + n
         /\ UNCHANGED <<B, C, phase>>
Suspend == /\ phase = "open" /\ total > 0
           /\ LET s == SuspendUpload(st, C) IN st' = s /\ total' = s.flushed    \* the caller continues at the flushed length
           /\ UNCHANGED <<B, C, phase>>
Close == phase = "open" /\ st' = CloseUpload(st, C) /\ phase' = "closed" /\ UNCHANGED <<B, C, total>>
Next == Write \/ Suspend \/ Close
Spec == Init /\ [][Next]_vars

ClosedIsWellFormed == phase = "closed" => (ChunksOK(st.lens, total, C) /\ st.buf = 0 /\ st.flushed = total)
BufferBounded == st.buf < B \/ st.buf = 0
FullChunksOnlyWhileOpen == phase = "open" => \A i \in 1..Len(st.lens) : st.lens[i] = C
=============================================================================
