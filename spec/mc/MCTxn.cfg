SPECIFICATION Spec
CONSTANTS MaxVersion = 5
          MaxSnaps = 3
INVARIANT NoDirtyRead
PROPERTIES SnapshotsImmutable AllOrNothing
CHECK_DEADLOCK FALSE
