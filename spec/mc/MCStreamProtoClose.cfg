SPECIFICATION Spec
CONSTANTS NEvents = 2
          Buffered = TRUE
          WithClose = TRUE
INVARIANT InOrder
PROPERTIES AllDelivered ClosedReleases
CHECK_DEADLOCK FALSE
