SPECIFICATION Spec
CONSTANTS NEvents = 3
          Buffered = FALSE
          WithClose = FALSE
INVARIANT InOrder
PROPERTY AllDelivered
CHECK_DEADLOCK FALSE
