SPECIFICATION Spec
INVARIANTS SortIsStableOrder WindowAgrees ProjSubDocument ProjExact ProjMixRejected
CHECK_DEADLOCK FALSE
