------------------------------ MODULE MCUpdate ------------------------------
(***************************************************************************)
(* C11, specification level: theorems about Update!Apply checked by TLC on *)
(* a bounded universe of documents and single- and two-operator updates:   *)
(*   Idempotent   $set $unset $min $max $addToSet $pull $pullAll applied   *)
(*                twice give the result of applying them once              *)
(*   Untouched    fields the update does not address keep value and        *)
(*                relative position                                        *)
(*   RecSound     an accepted update that records no change leaves the     *)
(*                document byte-identical; every recorded path holds the   *)
(*                recorded value (or is absent) in the result              *)
(***************************************************************************)
EXTENDS Update

Params == JsonDeserialize("mcparams.json")

D(f) == Doc(f)
A(a) == Arr(a)
S(s) == StrV(s)

Scalars == {I32(1), I32(2), I64(2), S("x"), Null} \cup (IF Params.big THEN {Bool(TRUE), I32(-1)} ELSE {})
Arrays == {A(<<>>), A(<<I32(1)>>), A(<<I32(1), I32(2)>>), A(<<I32(2), I32(1), I32(2)>>), A(<<S("x"), I32(1)>>),
           A(<<D(<< <<"b", I32(1)>> >>), D(<< <<"b", I32(2)>> >>)>>)}
SubDocs == {D(<<>>), D(<< <<"b", I32(1)>> >>), D(<< <<"b", A(<<I32(1), I32(2)>>)>>, <<"c", I32(1)>> >>)}
AVals == Scalars \cup Arrays \cup SubDocs
Docs == {D(<< <<"_id", I32(7)>> >>)}
        \cup {D(<< <<"_id", I32(7)>>, <<"a", v>> >>) : v \in AVals}
        \cup {D(<< <<"_id", I32(7)>>, <<"a", v>>, <<"z", I32(9)>> >>) : v \in AVals}
        \cup {D(<< <<"_id", I32(7)>>, <<"z", I32(9)>>, <<"a", v>> >>) : v \in Arrays}

PathStrs == {"a", "a.b", "a.0", "a.1.b", "c", "a.$[].b", "a.$[]"}
IdemOps == {"$set", "$unset", "$min", "$max", "$addToSet", "$pull", "$pullAll"}
Args(op) ==
  CASE op \in {"$set", "$min", "$max"} -> {I32(1), I32(2), I64(2), S("x"), Null, A(<<I32(1)>>), D(<< <<"b", I32(1)>> >>)}
    [] op = "$unset" -> {S("")}
    [] op = "$addToSet" -> {I32(1), I64(2), S("x"), D(<< <<"$each", A(<<I32(1), I32(3)>>)>> >>), D(<< <<"$each", A(<<>>)>> >>), D(<< <<"b", I32(1)>> >>)}
    [] op = "$pull" -> {I32(1), I64(2), D(<< <<"$gt", I32(1)>> >>), D(<< <<"b", I32(1)>> >>), D(<< <<"$in", A(<<I32(1), S("x")>>)>> >>)}
    [] op = "$pullAll" -> {A(<<I32(1)>>), A(<<I64(2), S("x")>>), A(<<>>)}
    [] op \in {"$inc", "$mul"} -> {I32(1), I64(2), I32(0)}
    [] op = "$push" -> {I32(1), D(<< <<"$each", A(<<I32(3), I32(0)>>)>>, <<"$sort", I32(1)>> >>),
                        D(<< <<"$each", A(<<I32(3)>>)>>, <<"$position", I32(0)>> >>),
                        D(<< <<"$each", A(<<I32(3)>>)>>, <<"$slice", I32(-2)>> >>)}
    [] op = "$pop" -> {I32(1), I32(-1)}
    [] op = "$rename" -> {S("c"), S("z")}
OtherOps == {"$inc", "$mul", "$push", "$pop", "$rename"}

VARIABLES d, op, ps, arg
vars == <<d, op, ps, arg>>

Init == d \in Docs /\ op = "" /\ ps = "" /\ arg = Null
Next == /\ op = ""
        /\ d' = d
        /\ op' \in IdemOps \cup OtherOps
        /\ ps' \in PathStrs
        /\ arg' \in Args(op')
Spec == Init /\ [][Next]_vars

Active == op # ""
Upd == D(<< <<op, D(<< <<ps, arg>> >>)>> >>)
R1 == Apply(d, Upd, FALSE, <<>>)

Idempotent ==
  (Active /\ op \in IdemOps /\ ~R1.err) =>
     LET r2 == Apply(R1.doc, Upd, FALSE, <<>>) IN ~r2.err /\ r2.doc = R1.doc

(* top-level fields other than the addressed one (and a $rename target) *)
Addressed == {PathOf(ps)[1]} \cup (IF op = "$rename" /\ arg.t = "str" THEN {PathOf(arg.s)[1]} ELSE {})
Rest(doc) == FilterSeq(LAMBDA pair : pair[1] \notin Addressed, doc.f)
Untouched == (Active /\ ~R1.err) => Rest(R1.doc) = Rest(d)

RecSound ==
  (Active /\ ~R1.err) =>
     /\ (R1.rec = <<>> => R1.doc = d)
     /\ \A i \in 1..Len(R1.rec) :
           LET got == Get(R1.doc, R1.rec[i][1]) IN
           \/ R1.rec[i][2] = got
           \/ (R1.rec[i][2] = Missing /\ got \in {Missing, Null})      \* unset inside an array leaves null

(* a rejected update never reports a document different from the input to its caller: Apply's   *)
(* callers discard the clone; here: the error flag is the only thing the result is used for      *)
IdOnlyByAddress == (Active /\ ~R1.err /\ PathOf(ps)[1] # "_id") => Field(R1.doc, "_id") = Field(d, "_id")
=============================================================================
