------------------------------- MODULE MC12 -------------------------------
(***************************************************************************)
(* C12: the reference comparison order of BSON.tla on the order pool.      *)
(* TLC (a) checks that Cmp is a total preorder consistent with the class   *)
(* order on every pair and every triple (i, j, k in KSet) of the pool and  *)
(* (b) writes the full sign matrix to matrix.json, which the Go side       *)
(* compares with bsonkit.Compare on every ordered pair.                    *)
(***************************************************************************)
EXTENDS BSON

Pool == JsonDeserialize("pool.json")
KSel == JsonDeserialize("ksel.json")      \* sequence of pool indices used for k

N == Len(Pool)
M == TLCEval([a \in 1..N |-> [b \in 1..N |-> Cmp(Pool[a], Pool[b])]])

VARIABLES i, j, k
vars == <<i, j, k>>

\* the initial states fix i only; each expands (in parallel) to all (j, k)
Init == /\ i \in 1..N
        /\ j = 0
        /\ k = 0
Next == /\ j = 0
        /\ i' = i
        /\ j' \in 1..N
        /\ k' \in {KSel[x] : x \in 1..Len(KSel)}
Spec == Init /\ [][Next]_vars

Law(P) == j # 0 => P
Reflexive     == Law(M[i][i] = 0)
Antisymmetric == Law(M[i][j] = -M[j][i])
Transitive    == Law((M[i][j] <= 0 /\ M[j][k] <= 0) =>
                       (/\ M[i][k] <= 0
                        /\ (M[i][j] < 0 \/ M[j][k] < 0) => M[i][k] < 0))
Congruent     == Law(M[i][j] = 0 => M[i][k] = M[j][k])
ClassOrder    == Law(ClassRank(Pool[i]) < ClassRank(Pool[j]) => M[i][j] = -1)
\* numbers: NaN lowest, all NaNs equal, infinities at the ends
NumberOrder   == Law((Pool[i].t = "num" /\ Pool[j].t = "num") =>
                   (/\ (Pool[i].sp = "nan" /\ Pool[j].sp = "nan") => M[i][j] = 0
                    /\ (Pool[i].sp = "nan" /\ Pool[j].sp # "nan") => M[i][j] = -1
                    /\ (Pool[i].sp = "ninf" /\ Pool[j].sp \in {"fin", "pinf"}) => M[i][j] = -1
                    /\ (Pool[i].sp = "fin" /\ Pool[j].sp = "pinf") => M[i][j] = -1
                    /\ (Pool[i].sp = "fin" /\ Pool[j].sp = "fin" /\ Pool[i].d = Pool[j].d /\ Pool[i].e = Pool[j].e
                          /\ Pool[i].neg = Pool[j].neg) => M[i][j] = 0))
Range         == Law(M[i][j] \in {-1, 0, 1})

Emit == JsonSerialize("matrix.json", M)
=============================================================================
