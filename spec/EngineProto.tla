----------------------------- MODULE EngineProto -----------------------------
EXTENDS Integers, Sequences, FiniteSets, TLC

CONSTANTS Procs, MaxCalls, FixBeginOrder
\* FixBeginOrder = TRUE models the repaired Begin (session txn read before e.mutex)

NoProc == 0

(* --algorithm EngineProto {
variables
  emu = NoProc,          \* engine mutex holder
  smu = NoProc,          \* session mutex holder (one shared session)
  avail = 1,             \* tokens available in the semaphore
  held = [p \in Procs |-> FALSE],  \* p holds the token (between Acquire and Release)
  etxn = NoProc,         \* engine.txn: owner proc of the current locked txn (0 = nil)
  alive = TRUE,
  stxn = NoProc,         \* session.txn: owner proc id of the txn stored in the session (0 = nil)
  starting = FALSE,
  ended = FALSE,
  version = 0,           \* number of published commits
  panicked = FALSE,
  stmu = NoProc,         \* mutex of the one change stream
  created = FALSE,       \* Engine.Watch has returned the stream (it is created and registered in one step)
  registered = FALSE,    \* the stream is in engine.streams
  sclosed = FALSE,       \* Stream.closed
  calls = [p \in Procs |-> 0];

define {
  Conservation == avail + Cardinality({p \in Procs : held[p]}) = 1
  NoPanic == ~panicked
  \* engine.txn set => its creator (or the session user) holds the token
  TxnImpliesHeld == etxn # NoProc => held[etxn]
  \* a stream that is closed is no longer registered with the engine (Stream.Close unregisters, Engine.Close drops all)
  ClosedUnregistered == (sclosed /\ stmu = NoProc /\ emu = NoProc) => (~registered \/ ~alive)
}

macro Lock(m) { await m = NoProc; m := self; }
macro Unlock(m) { assert m = self; m := NoProc; }
macro Release() { if (avail = 1) { panicked := TRUE } else { avail := 1; held[mytxn] := FALSE } }

\* Engine.Begin(ctx, true); withSess: ctx carries the shared session
procedure Begin(withSess)
  variables nested = FALSE, got = FALSE;
{
  b0: if (FixBeginOrder /\ withSess) {
        Lock(smu);
  b0a:  nested := (stxn # NoProc); Unlock(smu);
  b0b:  if (nested) { ok := FALSE; return; };
      };
  b1: Lock(emu);
  b2: if (~alive) { Unlock(emu); ok := FALSE; return; };
  b3: if (~FixBeginOrder /\ withSess) {
        Lock(smu);
  b3a:  nested := (stxn # NoProc); Unlock(smu);
  b3b:  if (nested) { Unlock(emu); ok := FALSE; return; };
      };
  b4: Unlock(emu);
  b5: either { await avail = 1; avail := 0; held[self] := TRUE; got := TRUE; }
      or { await ~alive; got := FALSE; }
      or { got := FALSE; };  \* ctx cancelled / timeout
  b6: Lock(emu);
  b7: if (~got) { Unlock(emu); ok := FALSE; return; }
      else if (~alive) { mytxn := self; Release(); Unlock(emu); ok := FALSE; return; }
      else if (etxn # NoProc) { mytxn := self; Release(); Unlock(emu); ok := FALSE; return; }
      else { etxn := self; mytxn := self; Unlock(emu); ok := TRUE; return; };
}

\* Engine.Commit(txn) ; txn identified by owner id in mytxn
procedure Commit()
{
  c1: Lock(emu);
  c2: if (~alive) { Unlock(emu); ok := FALSE; return; }
      else if (etxn = NoProc \/ etxn # mytxn) { Unlock(emu); ok := FALSE; return; };
  c3: etxn := NoProc;
      either { version := version + 1; ok := TRUE; } or { ok := FALSE; };  \* store ok / store error
  c4: Release(); Unlock(emu); return;
}

procedure Abort()
{
  a1: Lock(emu);
  a2: if (~alive) { Unlock(emu); return; }
      else if (etxn = NoProc \/ etxn # mytxn) { Unlock(emu); return; }
      else { etxn := NoProc; Release(); Unlock(emu); return; };
}

process (P \in Procs)
  variables ok = FALSE, mytxn = NoProc, kind = "none", t = NoProc;
{
  loop: while (calls[self] < MaxCalls) {
    calls[self] := calls[self] + 1;
    with (k \in {"direct", "directSess", "auto", "autoSess", "sStart", "sCommit", "sAbort", "sEnd", "watch", "snext", "sclose", "close"}) { kind := k; };
  disp:
    if (kind = "direct" \/ kind = "directSess") {
      \* Collection.Drop / CreateIndex ...: Begin; defer Abort; op; Commit
      call Begin(kind = "directSess");
  d1: if (ok) {
        either { call Commit(); } or { skip; };   \* op error => no commit
  d2:   call Abort();
      };
    } else if (kind = "auto" \/ kind = "autoSess") {
      \* useTransaction
      if (kind = "autoSess") {
        Lock(smu);
  u0:   t := stxn; Unlock(smu);
      } else { t := NoProc; };
  u1: if (t = NoProc) {
        call Begin(kind = "autoSess");
  u2:   if (ok) {
          either { call Commit(); } or { skip; };
  u3:     call Abort();
        };
      };  \* else: run fn on session txn: no engine interaction
    } else if (kind = "sStart") {
      Lock(smu);
  s1: if (ended \/ stxn # NoProc \/ starting) { Unlock(smu); }
      else {
        starting := TRUE; Unlock(smu);
  s2:   call Begin(FALSE);
  s3:   Lock(smu);
  s4:   starting := FALSE;
        if (~ok) { Unlock(smu); }
        else if (ended) { 
  s5:       call Abort();
  s6:       Unlock(smu); }
        else { stxn := mytxn; Unlock(smu); };
      };
    } else if (kind = "sCommit") {
      Lock(smu);
  sc1: if (ended \/ stxn = NoProc) { Unlock(smu); }
       else { mytxn := stxn; stxn := NoProc;
  sc2:   call Commit();
  sc3:   Unlock(smu); };
    } else if (kind = "sAbort") {
      Lock(smu);
  sa1: if (ended \/ stxn = NoProc) { Unlock(smu); }
       else { mytxn := stxn;
  sa2:   call Abort();
  sa3:   stxn := NoProc; Unlock(smu); };
    } else if (kind = "sEnd") {
      \* Session.EndSession: abort the open transaction under the session mutex
      Lock(smu);
  se1: if (ended) { Unlock(smu); }
       else if (stxn = NoProc) { ended := TRUE; Unlock(smu); }
       else { mytxn := stxn;
  se2:   call Abort();
  se3:   stxn := NoProc; ended := TRUE; Unlock(smu); };
    } else if (kind = "watch") {
      \* Engine.Watch: register the stream under the engine mutex
      Lock(emu);
  w1: if (alive /\ ~created) { created := TRUE; registered := TRUE; };
      Unlock(emu);
    } else if (kind = "snext") {
      \* Stream.next: stream mutex, then the engine mutex to read the change log
      if (created) {
      Lock(stmu);
  n1: if (sclosed) { Unlock(stmu); }
      else {
        Lock(emu);
  n2:   Unlock(emu);
  n3:   Unlock(stmu); };
      };
    } else if (kind = "sclose") {
      \* Stream.Close: stream mutex, then cancel() takes the engine mutex to unregister
      if (created) {
      Lock(stmu);
  k1: if (sclosed) { Unlock(stmu); }
      else {
        Lock(emu);
  k2:   registered := FALSE; Unlock(emu);
  k3:   sclosed := TRUE; Unlock(stmu); };
      };
    } else {
      \* Engine.Close: kill under the engine mutex, close the streams after releasing it
      Lock(emu);
  cl1: if (~alive) { Unlock(emu); }
       else {
         alive := FALSE; t := IF registered THEN self ELSE NoProc; Unlock(emu);
  cl2:   if (t # NoProc) {
           Lock(stmu);
  cl3:     sclosed := TRUE; Unlock(stmu); };
       };
    };
  };
}
} *)
\* BEGIN TRANSLATION
CONSTANT defaultInitValue
VARIABLES pc, emu, smu, avail, held, etxn, alive, stxn, starting, ended, 
          version, panicked, stmu, created, registered, sclosed, calls, stack

(* define statement *)
Conservation == avail + Cardinality({p \in Procs : held[p]}) = 1
NoPanic == ~panicked

TxnImpliesHeld == etxn # NoProc => held[etxn]

ClosedUnregistered == (sclosed /\ stmu = NoProc /\ emu = NoProc) => (~registered \/ ~alive)

VARIABLES withSess, nested, got, ok, mytxn, kind, t

vars == << pc, emu, smu, avail, held, etxn, alive, stxn, starting, ended, 
           version, panicked, stmu, created, registered, sclosed, calls, 
           stack, withSess, nested, got, ok, mytxn, kind, t >>

ProcSet == (Procs)

Init == (* Global variables *)
        /\ emu = NoProc
        /\ smu = NoProc
        /\ avail = 1
        /\ held = [p \in Procs |-> FALSE]
        /\ etxn = NoProc
        /\ alive = TRUE
        /\ stxn = NoProc
        /\ starting = FALSE
        /\ ended = FALSE
        /\ version = 0
        /\ panicked = FALSE
        /\ stmu = NoProc
        /\ created = FALSE
        /\ registered = FALSE
        /\ sclosed = FALSE
        /\ calls = [p \in Procs |-> 0]
        (* Procedure Begin *)
        /\ withSess = [ self \in ProcSet |-> defaultInitValue]
        /\ nested = [ self \in ProcSet |-> FALSE]
        /\ got = [ self \in ProcSet |-> FALSE]
        (* Process P *)
        /\ ok = [self \in Procs |-> FALSE]
        /\ mytxn = [self \in Procs |-> NoProc]
        /\ kind = [self \in Procs |-> "none"]
        /\ t = [self \in Procs |-> NoProc]
        /\ stack = [self \in ProcSet |-> << >>]
        /\ pc = [self \in ProcSet |-> "loop"]

b0(self) == /\ pc[self] = "b0"
            /\ IF FixBeginOrder /\ withSess[self]
                  THEN /\ smu = NoProc
                       /\ smu' = self
                       /\ pc' = [pc EXCEPT ![self] = "b0a"]
                  ELSE /\ pc' = [pc EXCEPT ![self] = "b1"]
                       /\ smu' = smu
            /\ UNCHANGED << emu, avail, held, etxn, alive, stxn, starting, 
                            ended, version, panicked, stmu, created, 
                            registered, sclosed, calls, stack, withSess, 
                            nested, got, ok, mytxn, kind, t >>

b0a(self) == /\ pc[self] = "b0a"
             /\ nested' = [nested EXCEPT ![self] = (stxn # NoProc)]
             /\ Assert(smu = self, 
                       "Failure of assertion at line 38, column 19 of macro called at line 47, column 36.")
             /\ smu' = NoProc
             /\ pc' = [pc EXCEPT ![self] = "b0b"]
             /\ UNCHANGED << emu, avail, held, etxn, alive, stxn, starting, 
                             ended, version, panicked, stmu, created, 
                             registered, sclosed, calls, stack, withSess, got, 
                             ok, mytxn, kind, t >>

b0b(self) == /\ pc[self] = "b0b"
             /\ IF nested[self]
                   THEN /\ ok' = [ok EXCEPT ![self] = FALSE]
                        /\ pc' = [pc EXCEPT ![self] = Head(stack[self]).pc]
                        /\ nested' = [nested EXCEPT ![self] = Head(stack[self]).nested]
                        /\ got' = [got EXCEPT ![self] = Head(stack[self]).got]
                        /\ withSess' = [withSess EXCEPT ![self] = Head(stack[self]).withSess]
                        /\ stack' = [stack EXCEPT ![self] = Tail(stack[self])]
                   ELSE /\ pc' = [pc EXCEPT ![self] = "b1"]
                        /\ UNCHANGED << stack, withSess, nested, got, ok >>
             /\ UNCHANGED << emu, smu, avail, held, etxn, alive, stxn, 
                             starting, ended, version, panicked, stmu, created, 
                             registered, sclosed, calls, mytxn, kind, t >>

b1(self) == /\ pc[self] = "b1"
            /\ emu = NoProc
            /\ emu' = self
            /\ pc' = [pc EXCEPT ![self] = "b2"]
            /\ UNCHANGED << smu, avail, held, etxn, alive, stxn, starting, 
                            ended, version, panicked, stmu, created, 
                            registered, sclosed, calls, stack, withSess, 
                            nested, got, ok, mytxn, kind, t >>

b2(self) == /\ pc[self] = "b2"
            /\ IF ~alive
                  THEN /\ Assert(emu = self, 
                                 "Failure of assertion at line 38, column 19 of macro called at line 51, column 21.")
                       /\ emu' = NoProc
                       /\ ok' = [ok EXCEPT ![self] = FALSE]
                       /\ pc' = [pc EXCEPT ![self] = Head(stack[self]).pc]
                       /\ nested' = [nested EXCEPT ![self] = Head(stack[self]).nested]
                       /\ got' = [got EXCEPT ![self] = Head(stack[self]).got]
                       /\ withSess' = [withSess EXCEPT ![self] = Head(stack[self]).withSess]
                       /\ stack' = [stack EXCEPT ![self] = Tail(stack[self])]
                  ELSE /\ pc' = [pc EXCEPT ![self] = "b3"]
                       /\ UNCHANGED << emu, stack, withSess, nested, got, ok >>
            /\ UNCHANGED << smu, avail, held, etxn, alive, stxn, starting, 
                            ended, version, panicked, stmu, created, 
                            registered, sclosed, calls, mytxn, kind, t >>

b3(self) == /\ pc[self] = "b3"
            /\ IF ~FixBeginOrder /\ withSess[self]
                  THEN /\ smu = NoProc
                       /\ smu' = self
                       /\ pc' = [pc EXCEPT ![self] = "b3a"]
                  ELSE /\ pc' = [pc EXCEPT ![self] = "b4"]
                       /\ smu' = smu
            /\ UNCHANGED << emu, avail, held, etxn, alive, stxn, starting, 
                            ended, version, panicked, stmu, created, 
                            registered, sclosed, calls, stack, withSess, 
                            nested, got, ok, mytxn, kind, t >>

b3a(self) == /\ pc[self] = "b3a"
             /\ nested' = [nested EXCEPT ![self] = (stxn # NoProc)]
             /\ Assert(smu = self, 
                       "Failure of assertion at line 38, column 19 of macro called at line 54, column 36.")
             /\ smu' = NoProc
             /\ pc' = [pc EXCEPT ![self] = "b3b"]
             /\ UNCHANGED << emu, avail, held, etxn, alive, stxn, starting, 
                             ended, version, panicked, stmu, created, 
                             registered, sclosed, calls, stack, withSess, got, 
                             ok, mytxn, kind, t >>

b3b(self) == /\ pc[self] = "b3b"
             /\ IF nested[self]
                   THEN /\ Assert(emu = self, 
                                  "Failure of assertion at line 38, column 19 of macro called at line 55, column 23.")
                        /\ emu' = NoProc
                        /\ ok' = [ok EXCEPT ![self] = FALSE]
                        /\ pc' = [pc EXCEPT ![self] = Head(stack[self]).pc]
                        /\ nested' = [nested EXCEPT ![self] = Head(stack[self]).nested]
                        /\ got' = [got EXCEPT ![self] = Head(stack[self]).got]
                        /\ withSess' = [withSess EXCEPT ![self] = Head(stack[self]).withSess]
                        /\ stack' = [stack EXCEPT ![self] = Tail(stack[self])]
                   ELSE /\ pc' = [pc EXCEPT ![self] = "b4"]
                        /\ UNCHANGED << emu, stack, withSess, nested, got, ok >>
             /\ UNCHANGED << smu, avail, held, etxn, alive, stxn, starting, 
                             ended, version, panicked, stmu, created, 
                             registered, sclosed, calls, mytxn, kind, t >>

b4(self) == /\ pc[self] = "b4"
            /\ Assert(emu = self, 
                      "Failure of assertion at line 38, column 19 of macro called at line 57, column 7.")
            /\ emu' = NoProc
            /\ pc' = [pc EXCEPT ![self] = "b5"]
            /\ UNCHANGED << smu, avail, held, etxn, alive, stxn, starting, 
                            ended, version, panicked, stmu, created, 
                            registered, sclosed, calls, stack, withSess, 
                            nested, got, ok, mytxn, kind, t >>

b5(self) == /\ pc[self] = "b5"
            /\ \/ /\ avail = 1
                  /\ avail' = 0
                  /\ held' = [held EXCEPT ![self] = TRUE]
                  /\ got' = [got EXCEPT ![self] = TRUE]
               \/ /\ ~alive
                  /\ got' = [got EXCEPT ![self] = FALSE]
                  /\ UNCHANGED <<avail, held>>
               \/ /\ got' = [got EXCEPT ![self] = FALSE]
                  /\ UNCHANGED <<avail, held>>
            /\ pc' = [pc EXCEPT ![self] = "b6"]
            /\ UNCHANGED << emu, smu, etxn, alive, stxn, starting, ended, 
                            version, panicked, stmu, created, registered, 
                            sclosed, calls, stack, withSess, nested, ok, mytxn, 
                            kind, t >>

b6(self) == /\ pc[self] = "b6"
            /\ emu = NoProc
            /\ emu' = self
            /\ pc' = [pc EXCEPT ![self] = "b7"]
            /\ UNCHANGED << smu, avail, held, etxn, alive, stxn, starting, 
                            ended, version, panicked, stmu, created, 
                            registered, sclosed, calls, stack, withSess, 
                            nested, got, ok, mytxn, kind, t >>

b7(self) == /\ pc[self] = "b7"
            /\ IF ~got[self]
                  THEN /\ Assert(emu = self, 
                                 "Failure of assertion at line 38, column 19 of macro called at line 62, column 19.")
                       /\ emu' = NoProc
                       /\ ok' = [ok EXCEPT ![self] = FALSE]
                       /\ pc' = [pc EXCEPT ![self] = Head(stack[self]).pc]
                       /\ nested' = [nested EXCEPT ![self] = Head(stack[self]).nested]
                       /\ got' = [got EXCEPT ![self] = Head(stack[self]).got]
                       /\ withSess' = [withSess EXCEPT ![self] = Head(stack[self]).withSess]
                       /\ stack' = [stack EXCEPT ![self] = Tail(stack[self])]
                       /\ UNCHANGED << avail, held, etxn, panicked, mytxn >>
                  ELSE /\ IF ~alive
                             THEN /\ mytxn' = [mytxn EXCEPT ![self] = self]
                                  /\ IF avail = 1
                                        THEN /\ panicked' = TRUE
                                             /\ UNCHANGED << avail, held >>
                                        ELSE /\ avail' = 1
                                             /\ held' = [held EXCEPT ![mytxn'[self]] = FALSE]
                                             /\ UNCHANGED panicked
                                  /\ Assert(emu = self, 
                                            "Failure of assertion at line 38, column 19 of macro called at line 63, column 52.")
                                  /\ emu' = NoProc
                                  /\ ok' = [ok EXCEPT ![self] = FALSE]
                                  /\ pc' = [pc EXCEPT ![self] = Head(stack[self]).pc]
                                  /\ nested' = [nested EXCEPT ![self] = Head(stack[self]).nested]
                                  /\ got' = [got EXCEPT ![self] = Head(stack[self]).got]
                                  /\ withSess' = [withSess EXCEPT ![self] = Head(stack[self]).withSess]
                                  /\ stack' = [stack EXCEPT ![self] = Tail(stack[self])]
                                  /\ etxn' = etxn
                             ELSE /\ IF etxn # NoProc
                                        THEN /\ mytxn' = [mytxn EXCEPT ![self] = self]
                                             /\ IF avail = 1
                                                   THEN /\ panicked' = TRUE
                                                        /\ UNCHANGED << avail, 
                                                                        held >>
                                                   ELSE /\ avail' = 1
                                                        /\ held' = [held EXCEPT ![mytxn'[self]] = FALSE]
                                                        /\ UNCHANGED panicked
                                             /\ Assert(emu = self, 
                                                       "Failure of assertion at line 38, column 19 of macro called at line 64, column 59.")
                                             /\ emu' = NoProc
                                             /\ ok' = [ok EXCEPT ![self] = FALSE]
                                             /\ pc' = [pc EXCEPT ![self] = Head(stack[self]).pc]
                                             /\ nested' = [nested EXCEPT ![self] = Head(stack[self]).nested]
                                             /\ got' = [got EXCEPT ![self] = Head(stack[self]).got]
                                             /\ withSess' = [withSess EXCEPT ![self] = Head(stack[self]).withSess]
                                             /\ stack' = [stack EXCEPT ![self] = Tail(stack[self])]
                                             /\ etxn' = etxn
                                        ELSE /\ etxn' = self
                                             /\ mytxn' = [mytxn EXCEPT ![self] = self]
                                             /\ Assert(emu = self, 
                                                       "Failure of assertion at line 38, column 19 of macro called at line 65, column 43.")
                                             /\ emu' = NoProc
                                             /\ ok' = [ok EXCEPT ![self] = TRUE]
                                             /\ pc' = [pc EXCEPT ![self] = Head(stack[self]).pc]
                                             /\ nested' = [nested EXCEPT ![self] = Head(stack[self]).nested]
                                             /\ got' = [got EXCEPT ![self] = Head(stack[self]).got]
                                             /\ withSess' = [withSess EXCEPT ![self] = Head(stack[self]).withSess]
                                             /\ stack' = [stack EXCEPT ![self] = Tail(stack[self])]
                                             /\ UNCHANGED << avail, held, 
                                                             panicked >>
            /\ UNCHANGED << smu, alive, stxn, starting, ended, version, stmu, 
                            created, registered, sclosed, calls, kind, t >>

Begin(self) == b0(self) \/ b0a(self) \/ b0b(self) \/ b1(self) \/ b2(self)
                  \/ b3(self) \/ b3a(self) \/ b3b(self) \/ b4(self)
                  \/ b5(self) \/ b6(self) \/ b7(self)

c1(self) == /\ pc[self] = "c1"
            /\ emu = NoProc
            /\ emu' = self
            /\ pc' = [pc EXCEPT ![self] = "c2"]
            /\ UNCHANGED << smu, avail, held, etxn, alive, stxn, starting, 
                            ended, version, panicked, stmu, created, 
                            registered, sclosed, calls, stack, withSess, 
                            nested, got, ok, mytxn, kind, t >>

c2(self) == /\ pc[self] = "c2"
            /\ IF ~alive
                  THEN /\ Assert(emu = self, 
                                 "Failure of assertion at line 38, column 19 of macro called at line 72, column 21.")
                       /\ emu' = NoProc
                       /\ ok' = [ok EXCEPT ![self] = FALSE]
                       /\ pc' = [pc EXCEPT ![self] = Head(stack[self]).pc]
                       /\ stack' = [stack EXCEPT ![self] = Tail(stack[self])]
                  ELSE /\ IF etxn = NoProc \/ etxn # mytxn[self]
                             THEN /\ Assert(emu = self, 
                                            "Failure of assertion at line 38, column 19 of macro called at line 73, column 49.")
                                  /\ emu' = NoProc
                                  /\ ok' = [ok EXCEPT ![self] = FALSE]
                                  /\ pc' = [pc EXCEPT ![self] = Head(stack[self]).pc]
                                  /\ stack' = [stack EXCEPT ![self] = Tail(stack[self])]
                             ELSE /\ pc' = [pc EXCEPT ![self] = "c3"]
                                  /\ UNCHANGED << emu, stack, ok >>
            /\ UNCHANGED << smu, avail, held, etxn, alive, stxn, starting, 
                            ended, version, panicked, stmu, created, 
                            registered, sclosed, calls, withSess, nested, got, 
                            mytxn, kind, t >>

c3(self) == /\ pc[self] = "c3"
            /\ etxn' = NoProc
            /\ \/ /\ version' = version + 1
                  /\ ok' = [ok EXCEPT ![self] = TRUE]
               \/ /\ ok' = [ok EXCEPT ![self] = FALSE]
                  /\ UNCHANGED version
            /\ pc' = [pc EXCEPT ![self] = "c4"]
            /\ UNCHANGED << emu, smu, avail, held, alive, stxn, starting, 
                            ended, panicked, stmu, created, registered, 
                            sclosed, calls, stack, withSess, nested, got, 
                            mytxn, kind, t >>

c4(self) == /\ pc[self] = "c4"
            /\ IF avail = 1
                  THEN /\ panicked' = TRUE
                       /\ UNCHANGED << avail, held >>
                  ELSE /\ avail' = 1
                       /\ held' = [held EXCEPT ![mytxn[self]] = FALSE]
                       /\ UNCHANGED panicked
            /\ Assert(emu = self, 
                      "Failure of assertion at line 38, column 19 of macro called at line 76, column 18.")
            /\ emu' = NoProc
            /\ pc' = [pc EXCEPT ![self] = Head(stack[self]).pc]
            /\ stack' = [stack EXCEPT ![self] = Tail(stack[self])]
            /\ UNCHANGED << smu, etxn, alive, stxn, starting, ended, version, 
                            stmu, created, registered, sclosed, calls, 
                            withSess, nested, got, ok, mytxn, kind, t >>

Commit(self) == c1(self) \/ c2(self) \/ c3(self) \/ c4(self)

a1(self) == /\ pc[self] = "a1"
            /\ emu = NoProc
            /\ emu' = self
            /\ pc' = [pc EXCEPT ![self] = "a2"]
            /\ UNCHANGED << smu, avail, held, etxn, alive, stxn, starting, 
                            ended, version, panicked, stmu, created, 
                            registered, sclosed, calls, stack, withSess, 
                            nested, got, ok, mytxn, kind, t >>

a2(self) == /\ pc[self] = "a2"
            /\ IF ~alive
                  THEN /\ Assert(emu = self, 
                                 "Failure of assertion at line 38, column 19 of macro called at line 82, column 21.")
                       /\ emu' = NoProc
                       /\ pc' = [pc EXCEPT ![self] = Head(stack[self]).pc]
                       /\ stack' = [stack EXCEPT ![self] = Tail(stack[self])]
                       /\ UNCHANGED << avail, held, etxn, panicked >>
                  ELSE /\ IF etxn = NoProc \/ etxn # mytxn[self]
                             THEN /\ Assert(emu = self, 
                                            "Failure of assertion at line 38, column 19 of macro called at line 83, column 49.")
                                  /\ emu' = NoProc
                                  /\ pc' = [pc EXCEPT ![self] = Head(stack[self]).pc]
                                  /\ stack' = [stack EXCEPT ![self] = Tail(stack[self])]
                                  /\ UNCHANGED << avail, held, etxn, panicked >>
                             ELSE /\ etxn' = NoProc
                                  /\ IF avail = 1
                                        THEN /\ panicked' = TRUE
                                             /\ UNCHANGED << avail, held >>
                                        ELSE /\ avail' = 1
                                             /\ held' = [held EXCEPT ![mytxn[self]] = FALSE]
                                             /\ UNCHANGED panicked
                                  /\ Assert(emu = self, 
                                            "Failure of assertion at line 38, column 19 of macro called at line 84, column 41.")
                                  /\ emu' = NoProc
                                  /\ pc' = [pc EXCEPT ![self] = Head(stack[self]).pc]
                                  /\ stack' = [stack EXCEPT ![self] = Tail(stack[self])]
            /\ UNCHANGED << smu, alive, stxn, starting, ended, version, stmu, 
                            created, registered, sclosed, calls, withSess, 
                            nested, got, ok, mytxn, kind, t >>

Abort(self) == a1(self) \/ a2(self)

loop(self) == /\ pc[self] = "loop"
              /\ IF calls[self] < MaxCalls
                    THEN /\ calls' = [calls EXCEPT ![self] = calls[self] + 1]
                         /\ \E k \in {"direct", "directSess", "auto", "autoSess", "sStart", "sCommit", "sAbort", "sEnd", "watch", "snext", "sclose", "close"}:
                              kind' = [kind EXCEPT ![self] = k]
                         /\ pc' = [pc EXCEPT ![self] = "disp"]
                    ELSE /\ pc' = [pc EXCEPT ![self] = "Done"]
                         /\ UNCHANGED << calls, kind >>
              /\ UNCHANGED << emu, smu, avail, held, etxn, alive, stxn, 
                              starting, ended, version, panicked, stmu, 
                              created, registered, sclosed, stack, withSess, 
                              nested, got, ok, mytxn, t >>

disp(self) == /\ pc[self] = "disp"
              /\ IF kind[self] = "direct" \/ kind[self] = "directSess"
                    THEN /\ /\ stack' = [stack EXCEPT ![self] = << [ procedure |->  "Begin",
                                                                     pc        |->  "d1",
                                                                     nested    |->  nested[self],
                                                                     got       |->  got[self],
                                                                     withSess  |->  withSess[self] ] >>
                                                                 \o stack[self]]
                            /\ withSess' = [withSess EXCEPT ![self] = kind[self] = "directSess"]
                         /\ nested' = [nested EXCEPT ![self] = FALSE]
                         /\ got' = [got EXCEPT ![self] = FALSE]
                         /\ pc' = [pc EXCEPT ![self] = "b0"]
                         /\ UNCHANGED << emu, smu, stmu, t >>
                    ELSE /\ IF kind[self] = "auto" \/ kind[self] = "autoSess"
                               THEN /\ IF kind[self] = "autoSess"
                                          THEN /\ smu = NoProc
                                               /\ smu' = self
                                               /\ pc' = [pc EXCEPT ![self] = "u0"]
                                               /\ t' = t
                                          ELSE /\ t' = [t EXCEPT ![self] = NoProc]
                                               /\ pc' = [pc EXCEPT ![self] = "u1"]
                                               /\ smu' = smu
                                    /\ UNCHANGED << emu, stmu >>
                               ELSE /\ IF kind[self] = "sStart"
                                          THEN /\ smu = NoProc
                                               /\ smu' = self
                                               /\ pc' = [pc EXCEPT ![self] = "s1"]
                                               /\ UNCHANGED << emu, stmu >>
                                          ELSE /\ IF kind[self] = "sCommit"
                                                     THEN /\ smu = NoProc
                                                          /\ smu' = self
                                                          /\ pc' = [pc EXCEPT ![self] = "sc1"]
                                                          /\ UNCHANGED << emu, 
                                                                          stmu >>
                                                     ELSE /\ IF kind[self] = "sAbort"
                                                                THEN /\ smu = NoProc
                                                                     /\ smu' = self
                                                                     /\ pc' = [pc EXCEPT ![self] = "sa1"]
                                                                     /\ UNCHANGED << emu, 
                                                                                     stmu >>
                                                                ELSE /\ IF kind[self] = "sEnd"
                                                                           THEN /\ smu = NoProc
                                                                                /\ smu' = self
                                                                                /\ pc' = [pc EXCEPT ![self] = "se1"]
                                                                                /\ UNCHANGED << emu, 
                                                                                                stmu >>
                                                                           ELSE /\ IF kind[self] = "watch"
                                                                                      THEN /\ emu = NoProc
                                                                                           /\ emu' = self
                                                                                           /\ pc' = [pc EXCEPT ![self] = "w1"]
                                                                                           /\ stmu' = stmu
                                                                                      ELSE /\ IF kind[self] = "snext"
                                                                                                 THEN /\ IF created
                                                                                                            THEN /\ stmu = NoProc
                                                                                                                 /\ stmu' = self
                                                                                                                 /\ pc' = [pc EXCEPT ![self] = "n1"]
                                                                                                            ELSE /\ pc' = [pc EXCEPT ![self] = "loop"]
                                                                                                                 /\ stmu' = stmu
                                                                                                      /\ emu' = emu
                                                                                                 ELSE /\ IF kind[self] = "sclose"
                                                                                                            THEN /\ IF created
                                                                                                                       THEN /\ stmu = NoProc
                                                                                                                            /\ stmu' = self
                                                                                                                            /\ pc' = [pc EXCEPT ![self] = "k1"]
                                                                                                                       ELSE /\ pc' = [pc EXCEPT ![self] = "loop"]
                                                                                                                            /\ stmu' = stmu
                                                                                                                 /\ emu' = emu
                                                                                                            ELSE /\ emu = NoProc
                                                                                                                 /\ emu' = self
                                                                                                                 /\ pc' = [pc EXCEPT ![self] = "cl1"]
                                                                                                                 /\ stmu' = stmu
                                                                                /\ smu' = smu
                                    /\ t' = t
                         /\ UNCHANGED << stack, withSess, nested, got >>
              /\ UNCHANGED << avail, held, etxn, alive, stxn, starting, ended, 
                              version, panicked, created, registered, sclosed, 
                              calls, ok, mytxn, kind >>

d1(self) == /\ pc[self] = "d1"
            /\ IF ok[self]
                  THEN /\ \/ /\ stack' = [stack EXCEPT ![self] = << [ procedure |->  "Commit",
                                                                      pc        |->  "d2" ] >>
                                                                  \o stack[self]]
                             /\ pc' = [pc EXCEPT ![self] = "c1"]
                          \/ /\ TRUE
                             /\ pc' = [pc EXCEPT ![self] = "d2"]
                             /\ stack' = stack
                  ELSE /\ pc' = [pc EXCEPT ![self] = "loop"]
                       /\ stack' = stack
            /\ UNCHANGED << emu, smu, avail, held, etxn, alive, stxn, starting, 
                            ended, version, panicked, stmu, created, 
                            registered, sclosed, calls, withSess, nested, got, 
                            ok, mytxn, kind, t >>

d2(self) == /\ pc[self] = "d2"
            /\ stack' = [stack EXCEPT ![self] = << [ procedure |->  "Abort",
                                                     pc        |->  "loop" ] >>
                                                 \o stack[self]]
            /\ pc' = [pc EXCEPT ![self] = "a1"]
            /\ UNCHANGED << emu, smu, avail, held, etxn, alive, stxn, starting, 
                            ended, version, panicked, stmu, created, 
                            registered, sclosed, calls, withSess, nested, got, 
                            ok, mytxn, kind, t >>

u1(self) == /\ pc[self] = "u1"
            /\ IF t[self] = NoProc
                  THEN /\ /\ stack' = [stack EXCEPT ![self] = << [ procedure |->  "Begin",
                                                                   pc        |->  "u2",
                                                                   nested    |->  nested[self],
                                                                   got       |->  got[self],
                                                                   withSess  |->  withSess[self] ] >>
                                                               \o stack[self]]
                          /\ withSess' = [withSess EXCEPT ![self] = kind[self] = "autoSess"]
                       /\ nested' = [nested EXCEPT ![self] = FALSE]
                       /\ got' = [got EXCEPT ![self] = FALSE]
                       /\ pc' = [pc EXCEPT ![self] = "b0"]
                  ELSE /\ pc' = [pc EXCEPT ![self] = "loop"]
                       /\ UNCHANGED << stack, withSess, nested, got >>
            /\ UNCHANGED << emu, smu, avail, held, etxn, alive, stxn, starting, 
                            ended, version, panicked, stmu, created, 
                            registered, sclosed, calls, ok, mytxn, kind, t >>

u2(self) == /\ pc[self] = "u2"
            /\ IF ok[self]
                  THEN /\ \/ /\ stack' = [stack EXCEPT ![self] = << [ procedure |->  "Commit",
                                                                      pc        |->  "u3" ] >>
                                                                  \o stack[self]]
                             /\ pc' = [pc EXCEPT ![self] = "c1"]
                          \/ /\ TRUE
                             /\ pc' = [pc EXCEPT ![self] = "u3"]
                             /\ stack' = stack
                  ELSE /\ pc' = [pc EXCEPT ![self] = "loop"]
                       /\ stack' = stack
            /\ UNCHANGED << emu, smu, avail, held, etxn, alive, stxn, starting, 
                            ended, version, panicked, stmu, created, 
                            registered, sclosed, calls, withSess, nested, got, 
                            ok, mytxn, kind, t >>

u3(self) == /\ pc[self] = "u3"
            /\ stack' = [stack EXCEPT ![self] = << [ procedure |->  "Abort",
                                                     pc        |->  "loop" ] >>
                                                 \o stack[self]]
            /\ pc' = [pc EXCEPT ![self] = "a1"]
            /\ UNCHANGED << emu, smu, avail, held, etxn, alive, stxn, starting, 
                            ended, version, panicked, stmu, created, 
                            registered, sclosed, calls, withSess, nested, got, 
                            ok, mytxn, kind, t >>

u0(self) == /\ pc[self] = "u0"
            /\ t' = [t EXCEPT ![self] = stxn]
            /\ Assert(smu = self, 
                      "Failure of assertion at line 38, column 19 of macro called at line 105, column 20.")
            /\ smu' = NoProc
            /\ pc' = [pc EXCEPT ![self] = "u1"]
            /\ UNCHANGED << emu, avail, held, etxn, alive, stxn, starting, 
                            ended, version, panicked, stmu, created, 
                            registered, sclosed, calls, stack, withSess, 
                            nested, got, ok, mytxn, kind >>

s1(self) == /\ pc[self] = "s1"
            /\ IF ended \/ stxn # NoProc \/ starting
                  THEN /\ Assert(smu = self, 
                                 "Failure of assertion at line 38, column 19 of macro called at line 116, column 49.")
                       /\ smu' = NoProc
                       /\ pc' = [pc EXCEPT ![self] = "loop"]
                       /\ UNCHANGED starting
                  ELSE /\ starting' = TRUE
                       /\ Assert(smu = self, 
                                 "Failure of assertion at line 38, column 19 of macro called at line 118, column 27.")
                       /\ smu' = NoProc
                       /\ pc' = [pc EXCEPT ![self] = "s2"]
            /\ UNCHANGED << emu, avail, held, etxn, alive, stxn, ended, 
                            version, panicked, stmu, created, registered, 
                            sclosed, calls, stack, withSess, nested, got, ok, 
                            mytxn, kind, t >>

s2(self) == /\ pc[self] = "s2"
            /\ /\ stack' = [stack EXCEPT ![self] = << [ procedure |->  "Begin",
                                                        pc        |->  "s3",
                                                        nested    |->  nested[self],
                                                        got       |->  got[self],
                                                        withSess  |->  withSess[self] ] >>
                                                    \o stack[self]]
               /\ withSess' = [withSess EXCEPT ![self] = FALSE]
            /\ nested' = [nested EXCEPT ![self] = FALSE]
            /\ got' = [got EXCEPT ![self] = FALSE]
            /\ pc' = [pc EXCEPT ![self] = "b0"]
            /\ UNCHANGED << emu, smu, avail, held, etxn, alive, stxn, starting, 
                            ended, version, panicked, stmu, created, 
                            registered, sclosed, calls, ok, mytxn, kind, t >>

s3(self) == /\ pc[self] = "s3"
            /\ smu = NoProc
            /\ smu' = self
            /\ pc' = [pc EXCEPT ![self] = "s4"]
            /\ UNCHANGED << emu, avail, held, etxn, alive, stxn, starting, 
                            ended, version, panicked, stmu, created, 
                            registered, sclosed, calls, stack, withSess, 
                            nested, got, ok, mytxn, kind, t >>

s4(self) == /\ pc[self] = "s4"
            /\ starting' = FALSE
            /\ IF ~ok[self]
                  THEN /\ Assert(smu = self, 
                                 "Failure of assertion at line 38, column 19 of macro called at line 122, column 20.")
                       /\ smu' = NoProc
                       /\ pc' = [pc EXCEPT ![self] = "loop"]
                       /\ stxn' = stxn
                  ELSE /\ IF ended
                             THEN /\ pc' = [pc EXCEPT ![self] = "s5"]
                                  /\ UNCHANGED << smu, stxn >>
                             ELSE /\ stxn' = mytxn[self]
                                  /\ Assert(smu = self, 
                                            "Failure of assertion at line 38, column 19 of macro called at line 126, column 31.")
                                  /\ smu' = NoProc
                                  /\ pc' = [pc EXCEPT ![self] = "loop"]
            /\ UNCHANGED << emu, avail, held, etxn, alive, ended, version, 
                            panicked, stmu, created, registered, sclosed, 
                            calls, stack, withSess, nested, got, ok, mytxn, 
                            kind, t >>

s5(self) == /\ pc[self] = "s5"
            /\ stack' = [stack EXCEPT ![self] = << [ procedure |->  "Abort",
                                                     pc        |->  "s6" ] >>
                                                 \o stack[self]]
            /\ pc' = [pc EXCEPT ![self] = "a1"]
            /\ UNCHANGED << emu, smu, avail, held, etxn, alive, stxn, starting, 
                            ended, version, panicked, stmu, created, 
                            registered, sclosed, calls, withSess, nested, got, 
                            ok, mytxn, kind, t >>

s6(self) == /\ pc[self] = "s6"
            /\ Assert(smu = self, 
                      "Failure of assertion at line 38, column 19 of macro called at line 125, column 13.")
            /\ smu' = NoProc
            /\ pc' = [pc EXCEPT ![self] = "loop"]
            /\ UNCHANGED << emu, avail, held, etxn, alive, stxn, starting, 
                            ended, version, panicked, stmu, created, 
                            registered, sclosed, calls, stack, withSess, 
                            nested, got, ok, mytxn, kind, t >>

sc1(self) == /\ pc[self] = "sc1"
             /\ IF ended \/ stxn = NoProc
                   THEN /\ Assert(smu = self, 
                                  "Failure of assertion at line 38, column 19 of macro called at line 130, column 38.")
                        /\ smu' = NoProc
                        /\ pc' = [pc EXCEPT ![self] = "loop"]
                        /\ UNCHANGED << stxn, mytxn >>
                   ELSE /\ mytxn' = [mytxn EXCEPT ![self] = stxn]
                        /\ stxn' = NoProc
                        /\ pc' = [pc EXCEPT ![self] = "sc2"]
                        /\ smu' = smu
             /\ UNCHANGED << emu, avail, held, etxn, alive, starting, ended, 
                             version, panicked, stmu, created, registered, 
                             sclosed, calls, stack, withSess, nested, got, ok, 
                             kind, t >>

sc2(self) == /\ pc[self] = "sc2"
             /\ stack' = [stack EXCEPT ![self] = << [ procedure |->  "Commit",
                                                      pc        |->  "sc3" ] >>
                                                  \o stack[self]]
             /\ pc' = [pc EXCEPT ![self] = "c1"]
             /\ UNCHANGED << emu, smu, avail, held, etxn, alive, stxn, 
                             starting, ended, version, panicked, stmu, created, 
                             registered, sclosed, calls, withSess, nested, got, 
                             ok, mytxn, kind, t >>

sc3(self) == /\ pc[self] = "sc3"
             /\ Assert(smu = self, 
                       "Failure of assertion at line 38, column 19 of macro called at line 133, column 10.")
             /\ smu' = NoProc
             /\ pc' = [pc EXCEPT ![self] = "loop"]
             /\ UNCHANGED << emu, avail, held, etxn, alive, stxn, starting, 
                             ended, version, panicked, stmu, created, 
                             registered, sclosed, calls, stack, withSess, 
                             nested, got, ok, mytxn, kind, t >>

sa1(self) == /\ pc[self] = "sa1"
             /\ IF ended \/ stxn = NoProc
                   THEN /\ Assert(smu = self, 
                                  "Failure of assertion at line 38, column 19 of macro called at line 136, column 38.")
                        /\ smu' = NoProc
                        /\ pc' = [pc EXCEPT ![self] = "loop"]
                        /\ mytxn' = mytxn
                   ELSE /\ mytxn' = [mytxn EXCEPT ![self] = stxn]
                        /\ pc' = [pc EXCEPT ![self] = "sa2"]
                        /\ smu' = smu
             /\ UNCHANGED << emu, avail, held, etxn, alive, stxn, starting, 
                             ended, version, panicked, stmu, created, 
                             registered, sclosed, calls, stack, withSess, 
                             nested, got, ok, kind, t >>

sa2(self) == /\ pc[self] = "sa2"
             /\ stack' = [stack EXCEPT ![self] = << [ procedure |->  "Abort",
                                                      pc        |->  "sa3" ] >>
                                                  \o stack[self]]
             /\ pc' = [pc EXCEPT ![self] = "a1"]
             /\ UNCHANGED << emu, smu, avail, held, etxn, alive, stxn, 
                             starting, ended, version, panicked, stmu, created, 
                             registered, sclosed, calls, withSess, nested, got, 
                             ok, mytxn, kind, t >>

sa3(self) == /\ pc[self] = "sa3"
             /\ stxn' = NoProc
             /\ Assert(smu = self, 
                       "Failure of assertion at line 38, column 19 of macro called at line 139, column 26.")
             /\ smu' = NoProc
             /\ pc' = [pc EXCEPT ![self] = "loop"]
             /\ UNCHANGED << emu, avail, held, etxn, alive, starting, ended, 
                             version, panicked, stmu, created, registered, 
                             sclosed, calls, stack, withSess, nested, got, ok, 
                             mytxn, kind, t >>

se1(self) == /\ pc[self] = "se1"
             /\ IF ended
                   THEN /\ Assert(smu = self, 
                                  "Failure of assertion at line 38, column 19 of macro called at line 143, column 21.")
                        /\ smu' = NoProc
                        /\ pc' = [pc EXCEPT ![self] = "loop"]
                        /\ UNCHANGED << ended, mytxn >>
                   ELSE /\ IF stxn = NoProc
                              THEN /\ ended' = TRUE
                                   /\ Assert(smu = self, 
                                             "Failure of assertion at line 38, column 19 of macro called at line 144, column 49.")
                                   /\ smu' = NoProc
                                   /\ pc' = [pc EXCEPT ![self] = "loop"]
                                   /\ mytxn' = mytxn
                              ELSE /\ mytxn' = [mytxn EXCEPT ![self] = stxn]
                                   /\ pc' = [pc EXCEPT ![self] = "se2"]
                                   /\ UNCHANGED << smu, ended >>
             /\ UNCHANGED << emu, avail, held, etxn, alive, stxn, starting, 
                             version, panicked, stmu, created, registered, 
                             sclosed, calls, stack, withSess, nested, got, ok, 
                             kind, t >>

se2(self) == /\ pc[self] = "se2"
             /\ stack' = [stack EXCEPT ![self] = << [ procedure |->  "Abort",
                                                      pc        |->  "se3" ] >>
                                                  \o stack[self]]
             /\ pc' = [pc EXCEPT ![self] = "a1"]
             /\ UNCHANGED << emu, smu, avail, held, etxn, alive, stxn, 
                             starting, ended, version, panicked, stmu, created, 
                             registered, sclosed, calls, withSess, nested, got, 
                             ok, mytxn, kind, t >>

se3(self) == /\ pc[self] = "se3"
             /\ stxn' = NoProc
             /\ ended' = TRUE
             /\ Assert(smu = self, 
                       "Failure of assertion at line 38, column 19 of macro called at line 147, column 41.")
             /\ smu' = NoProc
             /\ pc' = [pc EXCEPT ![self] = "loop"]
             /\ UNCHANGED << emu, avail, held, etxn, alive, starting, version, 
                             panicked, stmu, created, registered, sclosed, 
                             calls, stack, withSess, nested, got, ok, mytxn, 
                             kind, t >>

w1(self) == /\ pc[self] = "w1"
            /\ IF alive /\ ~created
                  THEN /\ created' = TRUE
                       /\ registered' = TRUE
                  ELSE /\ TRUE
                       /\ UNCHANGED << created, registered >>
            /\ Assert(emu = self, 
                      "Failure of assertion at line 38, column 19 of macro called at line 152, column 7.")
            /\ emu' = NoProc
            /\ pc' = [pc EXCEPT ![self] = "loop"]
            /\ UNCHANGED << smu, avail, held, etxn, alive, stxn, starting, 
                            ended, version, panicked, stmu, sclosed, calls, 
                            stack, withSess, nested, got, ok, mytxn, kind, t >>

n1(self) == /\ pc[self] = "n1"
            /\ IF sclosed
                  THEN /\ Assert(stmu = self, 
                                 "Failure of assertion at line 38, column 19 of macro called at line 157, column 22.")
                       /\ stmu' = NoProc
                       /\ pc' = [pc EXCEPT ![self] = "loop"]
                       /\ emu' = emu
                  ELSE /\ emu = NoProc
                       /\ emu' = self
                       /\ pc' = [pc EXCEPT ![self] = "n2"]
                       /\ stmu' = stmu
            /\ UNCHANGED << smu, avail, held, etxn, alive, stxn, starting, 
                            ended, version, panicked, created, registered, 
                            sclosed, calls, stack, withSess, nested, got, ok, 
                            mytxn, kind, t >>

n2(self) == /\ pc[self] = "n2"
            /\ Assert(emu = self, 
                      "Failure of assertion at line 38, column 19 of macro called at line 160, column 9.")
            /\ emu' = NoProc
            /\ pc' = [pc EXCEPT ![self] = "n3"]
            /\ UNCHANGED << smu, avail, held, etxn, alive, stxn, starting, 
                            ended, version, panicked, stmu, created, 
                            registered, sclosed, calls, stack, withSess, 
                            nested, got, ok, mytxn, kind, t >>

n3(self) == /\ pc[self] = "n3"
            /\ Assert(stmu = self, 
                      "Failure of assertion at line 38, column 19 of macro called at line 161, column 9.")
            /\ stmu' = NoProc
            /\ pc' = [pc EXCEPT ![self] = "loop"]
            /\ UNCHANGED << emu, smu, avail, held, etxn, alive, stxn, starting, 
                            ended, version, panicked, created, registered, 
                            sclosed, calls, stack, withSess, nested, got, ok, 
                            mytxn, kind, t >>

cl1(self) == /\ pc[self] = "cl1"
             /\ IF ~alive
                   THEN /\ Assert(emu = self, 
                                  "Failure of assertion at line 38, column 19 of macro called at line 176, column 22.")
                        /\ emu' = NoProc
                        /\ pc' = [pc EXCEPT ![self] = "loop"]
                        /\ UNCHANGED << alive, t >>
                   ELSE /\ alive' = FALSE
                        /\ t' = [t EXCEPT ![self] = IF registered THEN self ELSE NoProc]
                        /\ Assert(emu = self, 
                                  "Failure of assertion at line 38, column 19 of macro called at line 178, column 68.")
                        /\ emu' = NoProc
                        /\ pc' = [pc EXCEPT ![self] = "cl2"]
             /\ UNCHANGED << smu, avail, held, etxn, stxn, starting, ended, 
                             version, panicked, stmu, created, registered, 
                             sclosed, calls, stack, withSess, nested, got, ok, 
                             mytxn, kind >>

cl2(self) == /\ pc[self] = "cl2"
             /\ IF t[self] # NoProc
                   THEN /\ stmu = NoProc
                        /\ stmu' = self
                        /\ pc' = [pc EXCEPT ![self] = "cl3"]
                   ELSE /\ pc' = [pc EXCEPT ![self] = "loop"]
                        /\ stmu' = stmu
             /\ UNCHANGED << emu, smu, avail, held, etxn, alive, stxn, 
                             starting, ended, version, panicked, created, 
                             registered, sclosed, calls, stack, withSess, 
                             nested, got, ok, mytxn, kind, t >>

cl3(self) == /\ pc[self] = "cl3"
             /\ sclosed' = TRUE
             /\ Assert(stmu = self, 
                       "Failure of assertion at line 38, column 19 of macro called at line 181, column 29.")
             /\ stmu' = NoProc
             /\ pc' = [pc EXCEPT ![self] = "loop"]
             /\ UNCHANGED << emu, smu, avail, held, etxn, alive, stxn, 
                             starting, ended, version, panicked, created, 
                             registered, calls, stack, withSess, nested, got, 
                             ok, mytxn, kind, t >>

k1(self) == /\ pc[self] = "k1"
            /\ IF sclosed
                  THEN /\ Assert(stmu = self, 
                                 "Failure of assertion at line 38, column 19 of macro called at line 167, column 22.")
                       /\ stmu' = NoProc
                       /\ pc' = [pc EXCEPT ![self] = "loop"]
                       /\ emu' = emu
                  ELSE /\ emu = NoProc
                       /\ emu' = self
                       /\ pc' = [pc EXCEPT ![self] = "k2"]
                       /\ stmu' = stmu
            /\ UNCHANGED << smu, avail, held, etxn, alive, stxn, starting, 
                            ended, version, panicked, created, registered, 
                            sclosed, calls, stack, withSess, nested, got, ok, 
                            mytxn, kind, t >>

k2(self) == /\ pc[self] = "k2"
            /\ registered' = FALSE
            /\ Assert(emu = self, 
                      "Failure of assertion at line 38, column 19 of macro called at line 170, column 30.")
            /\ emu' = NoProc
            /\ pc' = [pc EXCEPT ![self] = "k3"]
            /\ UNCHANGED << smu, avail, held, etxn, alive, stxn, starting, 
                            ended, version, panicked, stmu, created, sclosed, 
                            calls, stack, withSess, nested, got, ok, mytxn, 
                            kind, t >>

k3(self) == /\ pc[self] = "k3"
            /\ sclosed' = TRUE
            /\ Assert(stmu = self, 
                      "Failure of assertion at line 38, column 19 of macro called at line 171, column 26.")
            /\ stmu' = NoProc
            /\ pc' = [pc EXCEPT ![self] = "loop"]
            /\ UNCHANGED << emu, smu, avail, held, etxn, alive, stxn, starting, 
                            ended, version, panicked, created, registered, 
                            calls, stack, withSess, nested, got, ok, mytxn, 
                            kind, t >>

P(self) == loop(self) \/ disp(self) \/ d1(self) \/ d2(self) \/ u1(self)
              \/ u2(self) \/ u3(self) \/ u0(self) \/ s1(self) \/ s2(self)
              \/ s3(self) \/ s4(self) \/ s5(self) \/ s6(self) \/ sc1(self)
              \/ sc2(self) \/ sc3(self) \/ sa1(self) \/ sa2(self)
              \/ sa3(self) \/ se1(self) \/ se2(self) \/ se3(self)
              \/ w1(self) \/ n1(self) \/ n2(self) \/ n3(self) \/ cl1(self)
              \/ cl2(self) \/ cl3(self) \/ k1(self) \/ k2(self) \/ k3(self)

(* Allow infinite stuttering to prevent deadlock on termination. *)
Terminating == /\ \A self \in ProcSet: pc[self] = "Done"
               /\ UNCHANGED vars

Next == (\E self \in ProcSet: Begin(self) \/ Commit(self) \/ Abort(self))
           \/ (\E self \in Procs: P(self))
           \/ Terminating

Spec == Init /\ [][Next]_vars

Termination == <>(\A self \in ProcSet: pc[self] = "Done")

\* END TRANSLATION

(* when every call has returned the writer slot is free, unless a session still holds its open transaction *)
DoneFree == (\A p \in Procs : pc[p] = "Done") => (~alive \/ avail = 1 \/ (stxn # NoProc /\ ~ended))

=============================================================================
