------------------------------- MODULE GridFS -------------------------------
(***************************************************************************)
(* GridFS upload and download streams (property C18, bucket.go), over      *)
(* lengths only: B is the size of the upload buffer, C the chunk size.     *)
(*   upload state  [buf (bytes buffered), lens (lengths of the chunks      *)
(*                 written so far, in order), flushed (bytes in chunks)]   *)
(*   Write(n)      fills the buffer; a full buffer flushes its full chunks *)
(*                 and carries the remainder                               *)
(*   Close         flushes everything incl. a final partial chunk          *)
(*   Suspend       flushes full chunks, drops the partial remainder and    *)
(*                 reports the flushed length; Resume continues there      *)
(* The property on the stored chunks: numbered 0..n-1, all but the last    *)
(* full, their concatenation is the content.                               *)
(***************************************************************************)
EXTENDS Integers, Sequences

Min(a, b) == IF a < b THEN a ELSE b
Rep(n, x) == [i \in 1..n |-> x]
Sum(s) == LET F[i \in 0..Len(s)] == IF i = 0 THEN 0 ELSE F[i - 1] + s[i] IN F[Len(s)]

NewUpload == [buf |-> 0, lens |-> <<>>, flushed |-> 0]

(* upload(final): cut full chunks (and the final partial one), carry the rest *)
Flush(st, C, final) ==
  LET full == st.buf \div C
      rest == st.buf % C
      cut == Rep(full, C) \o (IF final /\ rest > 0 THEN <<rest>> ELSE <<>>)
      done == Sum(cut)
  IN [buf |-> st.buf - done, lens |-> st.lens \o cut, flushed |-> st.flushed + done]

RECURSIVE WriteN(_, _, _, _)
WriteN(st, n, B, C) ==
  IF n = 0 THEN st
  ELSE LET k == Min(B - st.buf, n)
           s1 == [st EXCEPT !.buf = @ + k]
           s2 == IF s1.buf = B THEN Flush(s1, C, FALSE) ELSE s1
       IN WriteN(s2, n - k, B, C)

RECURSIVE WriteAll(_, _, _, _, _)
WriteAll(st, writes, i, B, C) == IF i > Len(writes) THEN st ELSE WriteAll(WriteN(st, writes[i], B, C), writes, i + 1, B, C)

CloseUpload(st, C) == Flush(st, C, TRUE)
SuspendUpload(st, C) == [Flush(st, C, FALSE) EXCEPT !.buf = 0]

(* the well-formedness the property demands of a finished upload of `total` bytes *)
ChunksOK(lens, total, C) ==
  /\ Sum(lens) = total
  /\ \A i \in 1..(Len(lens) - 1) : lens[i] = C
  /\ (Len(lens) > 0 => (lens[Len(lens)] >= 1 /\ lens[Len(lens)] <= C))
  /\ Len(lens) = (total + C - 1) \div C

(* ---- download: the reference reader over a content of length L ---- *)
\* op: <<"read", n>> | <<"seek", whence (0 start, 1 current, 2 end), offset>> | <<"skip", n>>
\* result: [n (bytes read / new position for seeks), pos (position afterwards), code ("ok" | "eof" | "neg")]
Step(pos, L, op) ==
  IF op[1] = "read" THEN
     IF op[2] = 0 THEN [n |-> 0, pos |-> pos, code |-> IF pos >= L THEN "eof" ELSE "ok"]
     ELSE IF pos >= L THEN [n |-> 0, pos |-> pos, code |-> "eof"]
     ELSE LET k == Min(op[2], L - pos) IN [n |-> k, pos |-> pos + k, code |-> "ok"]
  ELSE LET target == IF op[1] = "skip" THEN pos + op[2]
                     ELSE IF op[2] = 0 THEN op[3] ELSE IF op[2] = 1 THEN pos + op[3] ELSE L + op[3]
       IN IF target < 0 THEN [n |-> 0, pos |-> pos, code |-> "neg"] ELSE [n |-> target, pos |-> target, code |-> "ok"]

RECURSIVE RunScript(_, _, _, _)
RunScript(pos, L, script, i) ==
  IF i > Len(script) THEN <<>>
  ELSE LET r == Step(pos, L, script[i]) IN <<r>> \o RunScript(r.pos, L, script, i + 1)

(***************************************************************************)
(* The file catalog of an (untracked) bucket.  files: the file records in  *)
(* upload order [id, name, len]; upload dates are distinct, so a revision  *)
(* of a name is a position among the files of that name: 0, 1, 2 ... from  *)
(* the oldest, -1, -2 ... from the newest.  Chunks exist exactly for the   *)
(* files of the catalog: ceil(len / C) of them per file.                   *)
(***************************************************************************)
NotFound == [id |-> 0, name |-> "", len |-> 0]
WithName(files, name) == SelectSeq(files, LAMBDA f : f.name = name)
ByName(files, name, rev) ==
  LET same == WithName(files, name) IN
  IF rev >= 0 THEN (IF rev < Len(same) THEN same[rev + 1] ELSE NotFound)
  ELSE IF -rev <= Len(same) THEN same[Len(same) + rev + 1] ELSE NotFound
ById(files, id) == LET hit == SelectSeq(files, LAMBDA f : f.id = id) IN IF hit = <<>> THEN NotFound ELSE hit[1]
NChunks(len, C) == (len + C - 1) \div C
ChunkOwners(files, C) == {<<files[i].id, NChunks(files[i].len, C)>> : i \in {j \in 1..Len(files) : files[j].len > 0}}

CatRes(err, id, len, files) == [err |-> err, id |-> id, len |-> len, files |-> files]
CatStep(files, op, a, C) ==
  CASE op = "upload" ->
         IF ById(files, a.id) # NotFound THEN CatRes(TRUE, 0, -1, files)
         ELSE CatRes(FALSE, 0, -1, Append(files, [id |-> a.id, name |-> a.name, len |-> a.len]))
    [] op = "byname" -> LET f == ByName(files, a.name, a.rev) IN
         IF f = NotFound THEN CatRes(TRUE, 0, -1, files) ELSE CatRes(FALSE, f.id, f.len, files)
    [] op = "byid" -> LET f == ById(files, a.id) IN
         IF f = NotFound THEN CatRes(TRUE, 0, -1, files) ELSE CatRes(FALSE, f.id, f.len, files)
    [] op = "rename" ->
         IF ById(files, a.id) = NotFound THEN CatRes(TRUE, 0, -1, files)
         ELSE CatRes(FALSE, 0, -1, [i \in 1..Len(files) |-> IF files[i].id = a.id THEN [files[i] EXCEPT !.name = a.name] ELSE files[i]])
    [] op = "delete" ->
         IF ById(files, a.id) = NotFound THEN CatRes(TRUE, 0, -1, files)
         ELSE CatRes(FALSE, 0, -1, SelectSeq(files, LAMBDA f : f.id # a.id))
    [] op = "drop" -> CatRes(FALSE, 0, -1, <<>>)
=============================================================================
