------------------------------- MODULE Schema -------------------------------
(***************************************************************************)
(* $jsonSchema (bsonkit/schema.go, draft 4 as MongoDB uses it), stated     *)
(* declaratively: a value is valid iff every keyword of the schema holds.  *)
(* The keyword subset: type, bsonType, enum, allOf / anyOf / oneOf / not,  *)
(* minimum / maximum (+ exclusive), minLength / maxLength, required,       *)
(* min/maxProperties, properties, additionalProperties, dependencies,      *)
(* items (one schema or a list) + additionalItems, min/maxItems,           *)
(* uniqueItems, patternProperties for patterns of the shape ^literal$ (both *)
(* anchors optional).  pattern, other regular expressions and multipleOf   *)
(* are outside the subset.                                                 *)
(*                                                                         *)
(* SchemaWF says when a schema document is well-formed (independently of   *)
(* the value it is applied to); Valid is defined for well-formed schemas.  *)
(* For ill-formed schemas lungo answers "rejected" or a verdict depending  *)
(* on which keyword it reaches first; that is C20's business, not C10's.   *)
(***************************************************************************)
EXTENDS Path

(* ---- numbers as integers (int64 domain restricted to what TLC can hold) ---- *)
(* truncation toward zero of a finite number with |value| < 10^9; ok = FALSE otherwise *)
TruncInt(v) ==
  IF v.t # "num" \/ v.sp # "fin" THEN [ok |-> FALSE, n |-> 0]
  ELSE IF v.d = <<>> \/ v.e <= 0 THEN [ok |-> TRUE, n |-> 0]
  ELSE IF v.e > 9 THEN [ok |-> FALSE, n |-> 0]
  ELSE LET m == IF Len(v.d) >= v.e THEN DigitsVal(SubSeq(v.d, 1, v.e))
                ELSE DigitsVal(v.d) * Pow10(v.e - Len(v.d))
       IN [ok |-> TRUE, n |-> IF v.neg THEN -m ELSE m]
IsIntegral(v) == v.t = "num" /\ v.sp = "fin" /\ (v.d = <<>> \/ Len(v.d) <= v.e)
InModelRange(v) == v.t = "num" /\ v.sp = "fin" /\ v.e <= 9

TypeCode(v) ==
  CASE v.t = "num" /\ v.k = "f64" -> 1
    [] v.t = "str"   -> 2
    [] v.t = "doc"   -> 3
    [] v.t = "arr"   -> 4
    [] v.t = "bin"   -> 5
    [] v.t = "oid"   -> 7
    [] v.t = "bool"  -> 8
    [] v.t = "date"  -> 9
    [] v.t = "null"  -> 10
    [] v.t = "missing" -> 10
    [] v.t = "regex" -> 11
    [] v.t = "num" /\ v.k = "i32" -> 16
    [] v.t = "ts"    -> 17
    [] v.t = "num" /\ v.k = "i64" -> 18
    [] v.t = "num" /\ v.k = "dec" -> 19
AliasCode ==
  [double |-> 1, string |-> 2, object |-> 3, array |-> 4, binData |-> 5, undefined |-> 6, objectId |-> 7, bool |-> 8,
   date |-> 9, null |-> 10, regex |-> 11, dbPointer |-> 12, javascript |-> 13, symbol |-> 14, javascriptWithScope |-> 15,
   int |-> 16, timestamp |-> 17, long |-> 18, decimal |-> 19, minKey |-> 255, maxKey |-> 127]
KnownCodes == {AliasCode[a] : a \in DOMAIN AliasCode}

SB(b) == IF b THEN "T" ELSE "F"

JsonClass == [null |-> "null", boolean |-> "bool", number |-> "num", string |-> "str", object |-> "doc", array |-> "arr"]

IsCount(v) == v.t = "num" /\ v.k \in {"i32", "i64"} /\ TruncInt(v).ok /\ TruncInt(v).n >= 0
NameList(v, names) ==       \* one name or a non-empty list of names
  \/ (v.t = "str" /\ v.s \in names)
  \/ (v.t = "arr" /\ v.a # <<>> /\ \A i \in 1..Len(v.a) : v.a[i].t = "str" /\ v.a[i].s \in names)
Names(v) == IF v.t = "str" THEN {v.s} ELSE {v.a[i].s : i \in 1..Len(v.a)}
PathList(v) == v.t = "arr" /\ v.a # <<>> /\ \A i \in 1..Len(v.a) : v.a[i].t = "str" /\ v.a[i].s # ""
DistinctKeys(f) == \A i, j \in 1..Len(f) : i # j => f[i][1] # f[j][1]

(* patternProperties: the modelled patterns are a literal of letters, digits and '_' with an optional ^ in front *)
(* and an optional $ behind (prefix, suffix, exact and substring tests on the UTF-8 bytes of the member name).   *)
WordByte(b) == (b >= 48 /\ b <= 57) \/ (b >= 65 /\ b <= 90) \/ (b >= 97 /\ b <= 122) \/ b = 95
PatParts(p) == LET c == Str[p].c
                   st == Len(c) >= 1 /\ c[1] = 94
                   en == Len(c) >= (IF st THEN 2 ELSE 1) /\ c[Len(c)] = 36
               IN [st |-> st, en |-> en, core |-> SubSeq(c, IF st THEN 2 ELSE 1, IF en THEN Len(c) - 1 ELSE Len(c))]
PatWF(p) == \A i \in 1..Len(PatParts(p).core) : WordByte(PatParts(p).core[i])
PatMatch(p, name) ==
  LET pp == PatParts(p)  n == Str[name].c  k == Len(pp.core) IN
  \E o \in 0..(Len(n) - k) : (pp.st => o = 0) /\ (pp.en => o + k = Len(n)) /\ (\A i \in 1..k : n[o + i] = pp.core[i])

RECURSIVE SchemaWF(_)
KeywordWF(s, k, v) ==
  CASE k = "type" -> NameList(v, DOMAIN JsonClass)
    [] k = "bsonType" -> NameList(v, DOMAIN AliasCode \cup {"number"})
    [] k = "enum" -> v.t = "arr" /\ v.a # <<>>
    [] k \in {"allOf", "anyOf", "oneOf"} -> v.t = "arr" /\ v.a # <<>> /\ \A i \in 1..Len(v.a) : v.a[i].t = "doc" /\ SchemaWF(v.a[i])
    [] k = "not" -> v.t = "doc" /\ SchemaWF(v)
    [] k \in {"minimum", "maximum"} -> v.t = "num"
    [] k = "exclusiveMinimum" -> v.t = "bool" /\ HasField(s, "minimum")
    [] k = "exclusiveMaximum" -> v.t = "bool" /\ HasField(s, "maximum")
    [] k \in {"minLength", "maxLength", "minProperties", "maxProperties", "minItems", "maxItems"} -> IsCount(v)
    [] k = "required" -> PathList(v)
    [] k = "properties" -> v.t = "doc" /\ DistinctKeys(v.f) /\ \A i \in 1..Len(v.f) : v.f[i][2].t = "doc" /\ SchemaWF(v.f[i][2])
    [] k \in {"additionalProperties", "additionalItems"} -> v.t = "bool" \/ (v.t = "doc" /\ SchemaWF(v))
    [] k = "items" -> \/ (v.t = "doc" /\ SchemaWF(v))
                      \/ (v.t = "arr" /\ \A i \in 1..Len(v.a) : v.a[i].t = "doc" /\ SchemaWF(v.a[i]))
    [] k = "uniqueItems" -> v.t = "bool"
    [] k = "dependencies" -> v.t = "doc" /\ \A i \in 1..Len(v.f) :
                                /\ v.f[i][1] # ""
                                /\ (v.f[i][2].t = "doc" /\ SchemaWF(v.f[i][2])) \/ PathList(v.f[i][2])
    [] k = "patternProperties" -> v.t = "doc" /\ DistinctKeys(v.f) /\ \A i \in 1..Len(v.f) :
                                     PatWF(v.f[i][1]) /\ v.f[i][2].t = "doc" /\ SchemaWF(v.f[i][2])
    [] k \in {"multipleOf", "pattern"} -> FALSE                          \* outside the modelled subset
    [] OTHER -> TRUE                                                      \* annotations (title, description ...) are ignored
SchemaWF(s) ==
  /\ s.t = "doc"
  /\ DistinctKeys(s.f)
  /\ ~(HasField(s, "type") /\ HasField(s, "bsonType"))
  /\ \A i \in 1..Len(s.f) : KeywordWF(s, s.f[i][1], s.f[i][2])

(* a member that "properties" names or a pattern of "patternProperties" matches is not an additional one *)
Covered(s, name) ==
  \/ (HasField(s, "properties") /\ HasField(Field(s, "properties"), name))
  \/ (HasField(s, "patternProperties") /\ \E j \in 1..Len(Field(s, "patternProperties").f) :
         PatMatch(Field(s, "patternProperties").f[j][1], name))
Flag(s, k) == HasField(s, k) /\ Field(s, k).b
Present(doc, name) == Get(doc, PathOf(name)) # Missing

(* ValidX(s, v, kf): kf = FALSE is the JSON-schema semantics.  kf = TRUE describes known finding KF-C10-2 (lungo     *)
(* demands the properties listed by an array-form dependency whether or not the depending property is present); *)
(* it is used only to recognise that finding in a trace, never as the expectation.                              *)
RECURSIVE ValidX(_, _, _)
Valid(s, v) == ValidX(s, v, FALSE)
(* one keyword; keywords that speak about another class of value hold trivially *)
KeywordOK(s, k, kv, v, kf) ==
  CASE k = "type" -> \E n \in Names(kv) : JsonClass[n] = v.t
    [] k = "bsonType" -> \E n \in Names(kv) : IF n = "number" THEN v.t = "num" ELSE AliasCode[n] = TypeCode(v)
    [] k = "enum" -> \E i \in 1..Len(kv.a) : Cmp(kv.a[i], v) = 0
    [] k = "allOf" -> \A i \in 1..Len(kv.a) : ValidX(kv.a[i], v, kf)
    [] k = "anyOf" -> \E i \in 1..Len(kv.a) : ValidX(kv.a[i], v, kf)
    [] k = "oneOf" -> Cardinality({i \in 1..Len(kv.a) : ValidX(kv.a[i], v, kf)}) = 1
    [] k = "not" -> ~ValidX(kv, v, kf)
    [] k = "minimum" -> v.t = "num" => IF Flag(s, "exclusiveMinimum") THEN Cmp(v, kv) > 0 ELSE Cmp(v, kv) >= 0
    [] k = "maximum" -> v.t = "num" => IF Flag(s, "exclusiveMaximum") THEN Cmp(v, kv) < 0 ELSE Cmp(v, kv) <= 0
    [] k = "minLength" -> v.t = "str" => Str[v.s].n >= TruncInt(kv).n
    [] k = "maxLength" -> v.t = "str" => Str[v.s].n <= TruncInt(kv).n
    [] k = "required" -> v.t = "doc" => \A i \in 1..Len(kv.a) : Present(v, kv.a[i].s)
    [] k = "minProperties" -> v.t = "doc" => Len(v.f) >= TruncInt(kv).n
    [] k = "maxProperties" -> v.t = "doc" => Len(v.f) <= TruncInt(kv).n
    [] k = "dependencies" -> v.t = "doc" => \A i \in 1..Len(kv.f) :
          IF kv.f[i][2].t = "doc" THEN Present(v, kv.f[i][1]) => ValidX(kv.f[i][2], v, kf)
          ELSE (kf \/ Present(v, kv.f[i][1])) => \A j \in 1..Len(kv.f[i][2].a) : Present(v, kv.f[i][2].a[j].s)
    [] k = "properties" -> v.t = "doc" => \A i \in 1..Len(v.f) : HasField(kv, v.f[i][1]) => ValidX(Field(kv, v.f[i][1]), v.f[i][2], kf)
    [] k = "patternProperties" -> v.t = "doc" => \A i \in 1..Len(v.f) : \A j \in 1..Len(kv.f) :
          PatMatch(kv.f[j][1], v.f[i][1]) => ValidX(kv.f[j][2], v.f[i][2], kf)
    [] k = "additionalProperties" -> v.t = "doc" => \A i \in 1..Len(v.f) :
          ~Covered(s, v.f[i][1]) =>
             IF kv.t = "bool" THEN kv.b ELSE ValidX(kv, v.f[i][2], kf)
    [] k = "items" -> v.t = "arr" =>
          IF kv.t = "doc" THEN \A i \in 1..Len(v.a) : ValidX(kv, v.a[i], kf)
          ELSE \A i \in 1..Len(v.a) :
                 IF i <= Len(kv.a) THEN ValidX(kv.a[i], v.a[i], kf)
                 ELSE IF ~HasField(s, "additionalItems") THEN TRUE
                 ELSE LET ai == Field(s, "additionalItems") IN IF ai.t = "bool" THEN ai.b ELSE ValidX(ai, v.a[i], kf)
    [] k = "minItems" -> v.t = "arr" => Len(v.a) >= TruncInt(kv).n
    [] k = "maxItems" -> v.t = "arr" => Len(v.a) <= TruncInt(kv).n
    [] k = "uniqueItems" -> (v.t = "arr" /\ kv.b) => \A i, j \in 1..Len(v.a) : i < j => Cmp(v.a[i], v.a[j]) # 0
    [] OTHER -> TRUE
ValidX(s, v, kf) == \A i \in 1..Len(s.f) : KeywordOK(s, s.f[i][1], s.f[i][2], v, kf)

(* {$jsonSchema: s} at the root of a filter applies the schema to the whole document *)
(* MatchImpl side: lungo's behaviour, known finding KF-C10-2 included *)
MatchSchema(doc, s) == IF s.t # "doc" THEN "E" ELSE IF SchemaWF(s) THEN SB(ValidX(s, doc, TRUE)) ELSE "E"
=============================================================================
