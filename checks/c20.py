"""C20 - well-formed input never panics the library.

spec -> code: spec/gen/Robust.tla is the grammar of oddly shaped but well-typed input:
TLC enumerates every cell (call family and operator: 25 query operators, 22 update
forms, 4 projection forms, sort / distinct / index key / partial filter / skip-limit /
array filters / insert / odd _id) x 40 argument classes (all types incl. NaN, infinities,
decimal NaN/Inf, int64 extremes, fractions below one, tiny and negative-zero doubles, empty / dollar / dotted strings, operator documents,
mixed documents, nested and empty containers, deep nesting) x 15 path shapes (empty,
trailing dot, double dot, numeric, huge index, positional forms, through arrays) x
document shapes (document-, binary-, array-like _id, numeric keys, nested arrays).
The harness instantiates every cell and runs it under recover() against bsonkit /
mongokit and, for a deterministic sample, through the driver API (with a probe
write every 400 driver cases and a 10 s watchdog per call).  The asserted outcome is
only "returns a result or an error; the next call is served".  Panics observed by the
generators of the other checks (random histories, sort/projection cases) are
collected too.  Documented panics ("lungo: ...") are excluded."""
import json
import os
import re

import vcheck as V
import concrun


def run(tier, replay):
    c = V.Check("C20", tier, "exploration")
    work = V.scratch()
    bins = V.build(["c20", "dbt", "rd"], work)
    d = os.path.join(work, "grid")
    os.makedirs(d)
    V.stage_spec(d, ["Robust.tla", "Robust.cfg"])
    json.dump({"big": tier == "thorough"}, open(os.path.join(d, "mcparams.json"), "w"))
    r = V.tlc(d, "Robust.tla", cfg="Robust.cfg", timeout=1800)
    c.add_tlc(r)
    if r.violated:
        raise V.Inconclusive("Robust.tla stopped: %s" % r.violated)
    n = 0
    with open(os.path.join(d, "cases.ndjson"), "w") as f:
        for line in r.output.splitlines():
            if line.startswith('<<"CASE", "'):
                f.write(line[len('<<"CASE", "'):-3].replace('\\"', '"') + "\n")
                n += 1
    if n == 0:
        raise V.Inconclusive("Robust.tla produced no cases")
    c.cov["grid_cells"] = n
    summary, recs = concrun.record(c, bins["c20"], ["grid", os.path.join(d, "cases.ndjson"), c.seed, 97 if tier == "quick" else 11], timeout=3000)
    if summary.get("aborted"):
        pass
    c.cov["evaluations"] = summary["cases"]
    c.cov["driver_level_cases"] = summary.get("driver_calls", 0)
    c.cov["distinct_nontrivial"] = summary.get("distinct_cells", 0)
    # panics seen by the other generators
    extra = [("dbt", ["hist", None, c.seed + 7, 40 if tier == "quick" else 200, 30]), ("rd", ["sort", None, c.seed + 7, 150]), ("rd", ["proj", None, c.seed + 7, 600])]
    for b, args in extra:
        dd = os.path.join(work, "x-%s-%s" % (b, args[0]))
        os.makedirs(dd)
        args[1] = dd
        s2, r2 = concrun.record(c, bins[b], args)
        c.add("other_generator_cases", s2.get("cases", 0))
        recs += [x for x in r2 if x.get("kind") == "panic"]
    for rec in recs:
        kind = rec.get("kind")
        if kind == "panic":
            msg = re.sub(r"-?\d{3,}", "N", str(rec.get("panic") or rec.get("what")))
            where = rec.get("where") or rec.get("op") or rec.get("what", "")
            key = "panic:%s:%s" % (where, msg[:80])
            c.violation(key, "panic in %s: %s; input cell %s" % (where, rec.get("panic") or rec.get("what"), json.dumps(rec.get("cell") or {k: v for k, v in rec.items() if k in ("op", "ns")})), rec)
        elif kind in ("hang", "wedge"):
            c.violation("%s:%s" % (kind, str(rec.get("where"))[:60]), "%s: %s" % (kind, json.dumps(rec)[:600]), rec)
    c.sample({"cell": {"fam": "update", "op": "$push-slice", "arg": "nan", "path": "pos-all", "doc": "arrdocs"},
              "instantiated_as": "Apply({_id:1,a:[{b:1,c:[1]},{b:{c:2}},5]}, {$push:{'a.$[]':{$each:[9],$slice:NaN}}})"})
    c.cov["rule"] = ("every cell of the Robust.tla grid (family/operator x argument class x path shape x document shape), instantiated deterministically; each cell runs 1-4 "
                     "concrete calls at the mongokit/bsonkit level and every n-th cell through the driver API; distinct_nontrivial = distinct (family, operator, argument class) triples")
    c.assumptions += ["the specification contributes the exhaustive grid, not an oracle (claimed level: exploration)", "panics whose message starts with 'lungo: ' are the documented ones"]
    return c.finish()
