"""C11 - update operators transform documents as MongoDB's update semantics define.

code -> spec: grammar-random (document, update, arrayFilters, upsert) cases plus a
fixed grid of numeric-promotion boundaries are applied by the real mongokit.Apply;
TLC evaluates Update!Apply (spec/Update.tla over BigDec!Arith = MongoDB's promotion
table) on every case and reports every difference in rejection, resulting document
and recorded change set.  Idempotence of $set/$unset/$min/$max/$addToSet/$pull/
$pullAll is checked on the real code by applying the update twice.
spec: MCUpdate checks idempotence, untouched-fields and "recorded changes describe
the result" on Update!Apply exhaustively over a bounded universe."""
import json
import os

import vcheck as V
from c10 import show


def ops_of_update(u):
    ops = []
    for k, x in u.get("f", []):
        ops.append(k)
        if x.get("t") == "doc":
            for p, v in x["f"]:
                if "$[" in p:
                    ops.append("$[]")
    return ",".join(sorted(set(ops)))


def run(tier, replay):
    c = V.Check("C11", tier, "model_checking")
    work = V.scratch()
    bins = V.build(["c11", "strtab"], work)
    seeds = [c.seed * 1000 + i for i in range(2 if tier == "quick" else 12)]
    ncases = 1500 if tier == "quick" else 5000
    nontrivial = set()
    for s in seeds:
        d = os.path.join(work, "s%d" % s)
        os.makedirs(d)
        res = V.run([bins["c11"], "gen", d, str(s), str(ncases)], timeout=900)
        summary = None
        for line in res.stdout.splitlines():
            rec = json.loads(line)
            if rec["kind"] == "summary":
                summary = rec
            elif rec["kind"] == "idempotence":
                key = "idempotence:" + ops_of_update(rec["upd"])
                c.violation(key, "applying %s twice to %s changes the result again: once=%s twice=%s" % (
                    show(rec["upd"]), show(rec["doc"]), show(rec["once"]),
                    rec["twice"] if isinstance(rec["twice"], str) else show(rec["twice"])), rec)
            elif rec["kind"] == "panic":
                c.violation("panic", "mongokit.Apply panics: doc=%s update=%s: %s" % (show(rec["doc"]), show(rec["upd"]), rec["panic"]), rec)
            elif rec["kind"] == "driver":
                c.violation("driver:" + ops_of_update(rec["upd"]), "%s: doc=%s update=%s" % (rec["what"], show(rec["doc"]), show(rec["upd"])), rec)
            elif rec["kind"] == "modified":
                c.violation("modified:" + ops_of_update(rec["upd"]), "UpdateOne reported modified=%s but the stored document %s: doc=%s update=%s" % (
                    rec["modified"], "did not change" if rec["modified"] else "changed", show(rec["doc"]), show(rec["upd"])), rec)
        if summary is None:
            raise V.Inconclusive("c11 gen produced no summary")
        c.add("idempotence_checks_on_impl", summary["idempotence_checks"])
        c.add("modified_checks_on_impl", summary.get("modified_checks", 0))
        c.add("rejected_cases", summary["rejected"])
        V.stage_spec(d, V.PURE_SPECS + ["TracePure.tla", "TracePure.cfg"])
        r = V.tlc(d, "TracePure.tla", cfg="TracePure.cfg", timeout=2400)
        c.add_tlc(r)
        if r.violated:
            raise V.Inconclusive("TracePure stopped: %s\n%s" % (r.violated, V.tail(r.output, 30)))
        c.add("traces_validated_against_impl", summary["cases"])
        bads = V.tlc_prints(r.output, "BAD")
        lines = open(os.path.join(d, "trace.ndjson")).read().splitlines()
        for b in bads:
            if b["what"] == "apply-changes":
                # the granularity of the recorded changes is lungo's own business here; what the change stream must
                # say about an update is C08's, judged there on the real events by replay (DescriptionsOK)
                c.add("recorded_change_differences_not_judged")
                continue
            e = json.loads(lines[b["l"] - 1])
            key = "%s:%s" % (b["what"], ops_of_update(e["upd"]))
            got = e["res"]
            what = "mongokit.Apply(%s, %s%s%s): %s: specification expects %s, real code gives %s" % (
                show(e["doc"]), show(e["upd"]), ", arrayFilters=[%s]" % ", ".join(show(a) for a in e["afs"]) if e["afs"] else "",
                ", upsert" if e["upsert"] else "", b["what"],
                ("rejected" if b["exp"] is True else "accepted" if b["exp"] is False else (show(b["exp"]) if isinstance(b["exp"], dict) else json.dumps(b["exp"])[:300])),
                ("rejected" if got["err"] else show(got["doc"])))
            c.violation(key, what, {"case": e, "spec": b})
        for i, line in enumerate(lines):
            if i % 5 == 0:
                e = json.loads(line)
                nontrivial.add((ops_of_update(e["upd"]), e["res"]["err"]))
                if len(c.cov["samples"]) < 4 and i % 500 == 0:
                    c.sample({"doc": show(e["doc"]), "update": show(e["upd"]),
                              "result": "rejected" if e["res"]["err"] else show(e["res"]["doc"])})
    # bounded exhaustive theorems on the specification
    mc = os.path.join(work, "mc")
    os.makedirs(mc)
    V.run([bins["strtab"], mc, "a", "b", "c", "x", "z", "a.b", "a.0", "a.1.b", "a.$[].b", "a.$[]"])
    V.stage_spec(mc, V.PURE_SPECS + ["MCUpdate.tla", "MCUpdate.cfg"])
    json.dump({"big": tier == "thorough"}, open(os.path.join(mc, "mcparams.json"), "w"))
    r = V.tlc(mc, "MCUpdate.tla", cfg="MCUpdate.cfg", timeout=2400)
    c.add_tlc(r)
    c.cov["mc_update_states"] = r.distinct
    if r.violated:
        raise V.Inconclusive("MCUpdate: the specification itself violates %s; reproduce on mongokit.Apply before a verdict:\n%s" % (r.violated, V.tail(r.output, 40)))
    c.cov["distinct_nontrivial"] = len(nontrivial)
    c.cov["evaluations"] = c.cov.get("traces_validated_against_impl", 0)
    c.cov["rule"] = ("grammar-random documents x updates (1-3 operators of all 15, dotted/indexed/$[]/$[id] paths, all numeric kind pairs) plus a fixed "
                     "numeric-boundary grid; every case is applied by real mongokit.Apply and evaluated by TLC; distinct_nontrivial counts distinct "
                     "(operator set, accepted/rejected) pairs in a 1/5 sample")
    c.assumptions += ["doubles take part in $inc/$mul only where the exact result is representable (generator restriction, DESIGN 8.3)",
                      "$bit operands stay below 2^30 (TLC integers)", "$currentDate values are opaque now-tokens (type checked only)"]
    return c.finish()
