"""C17 - caller-owned values and database state never alias each other.

code -> spec: every call kind of the driver API (InsertOne with bson.D and bson.M,
InsertMany, Find, FindOne, Distinct, UpdateOne, UpdateMany with array filters, upserts
through UpdateOne / ReplaceOne / BulkWrite, ReplaceOne, FindOneAnd*, BulkWrite,
CreateIndex + List, DeleteOne) is made with arguments built from nested bson.D /
bson.M / bson.A / binary values and document-, array-valued _ids.  After the call the
arguments must equal a deep copy taken before (calls never modify their arguments);
then every container position of every argument, and afterwards of every value handed
back (decoded documents, raw bytes, InsertedID(s), UpsertedID(s), distinct values,
index names and specifications), is overwritten in place.  The complete engine state
(BSON bytes of every document of every namespace incl. the change log, index
definitions and listings) is recorded before and after each overwrite as a Mutate
event; in the specification Mutate is a stuttering step (UNCHANGED), and TLC requires
the two dumps to be identical."""
import vcheck as V
import dbtrace


def run(tier, replay):
    c = V.Check("C17", tier, "model_checking")
    work = V.scratch()
    bins = V.build(["dbt"], work)
    nontrivial = set()
    modes = [("alias", c.seed, [6, 25])] if tier == "quick" else [("alias", c.seed * 100 + i, [40, 40]) for i in range(6)]
    dbtrace.CLASSES["C17"] = ("alias:", "alias")
    dbtrace.run_modes(c, "C17", bins, work, modes, nontrivial)
    c.cov["rule"] = ("18 call kinds x (arguments, results) overwritten in place at every nested container position; each overwrite is one Mutate event judged on the complete "
                     "state dump; distinct_nontrivial counts distinct (call kind, arguments/results) pairs")
    c.assumptions += ["ListSpecifications is documented as not implemented and is not called",
                      "lower-level exported functions (mongokit.Project etc.) return values that share structure with their inputs by design; the property is about the driver-level API"]
    return c.finish()
