"""C18 - GridFS returns the bytes that were uploaded, at any offset.

code -> spec: position-coded content is uploaded through the real bucket with 11 small
chunk sizes (lengths 0, 1, C-1, C, C+1, 2C-1 ... 7C-1 and random), random write
partitions incl. empty writes, chunk size from the bucket or from the upload options,
untracked and tracked mode (suspend / resume at a random point, claim), aborts, deletes
(tracked: cleanup), and - in every run - around the 16 MiB upload buffer (chunk sizes B,
B-1, B+1, B/2+1, 1000003, 4 MiB, 5000000 with lengths B-1 ... 2B+3).  The harness
compares the bytes (stored chunks concatenated, every read against a bytes.Reader);
the recorded Write/Suspend steps, the stored chunk table (numbers and lengths), the
file record, leftovers after abort/delete and every step of the Read/Skip/Seek scripts
(count, position, end-of-file / negative-position behaviour) are judged by TLC with
GridFS.tla instantiated at the real buffer and chunk sizes.
spec: MCGridFS proves for all B in 3..6, C <= B and all write partitions up to 2B+2
with suspends that a closed upload is well formed."""
import json
import os

import vcheck as V
import concrun


def run(tier, replay):
    c = V.Check("C18", tier, "model_checking")
    work = V.scratch()
    bins = V.build(["gfs"], work)
    nontrivial = set()
    jobs = [[c.seed * 10 + i, 150 if tier == "quick" else 500, 1] for i in range(1 if tier == "quick" else 4)]
    for seed, small, big in jobs:
        d = os.path.join(work, "g-%d" % seed)
        os.makedirs(d)
        summary, recs = concrun.record(c, bins["gfs"], ["run", d, seed, small, big], timeout=1500)
        concrun.findings(c, recs, ("gridfs", "hang", "panic"), "C18")
        V.stage_spec(d, ["GridFS.tla", "TraceGridFS.tla", "TraceGridFS.cfg"])
        r = V.tlc(d, "TraceGridFS.tla", cfg="TraceGridFS.cfg", timeout=1500)
        c.add_tlc(r)
        if r.violated:
            raise V.Inconclusive("TraceGridFS stopped: %s\n%s" % (r.violated, V.tail(r.output, 30)))
        lines = open(os.path.join(d, "trace.ndjson")).read().splitlines()
        for b in V.tlc_prints(r.output, "BAD"):
            e = json.loads(lines[b["l"] - 1])
            if e["fn"] == "catalog":
                txt = "%s: %s(name=%r, id=%s, rev=%s, len=%s) on the bucket with files %s: result %s, files afterwards %s, chunks per file id %s; expected %s" % (
                    b["what"], e["op"], e["name"], e["id"], e["rev"], e["len"], [(f["id"], f["name"], f["len"]) for f in e["pre"]], e["res"],
                    [(f["id"], f["name"], f["len"]) for f in e["post"]], e["postchunks"], b["exp"])
            elif e["fn"] == "upload":
                txt = "%s: upload of %d bytes with chunk size %d (%s, %s): steps %s; stored chunks (n, len) %s; file record length=%s chunkSize=%s; expected %s" % (
                    b["what"], e["L"], e["C"], "tracked" if e["tracked"] else "untracked", e["how"], e["steps"][:12], e["chunks"][:6] + (["..."] if len(e["chunks"]) > 6 else []),
                    e["flen"], e["fchunk"], b["exp"])
            else:
                i = b["exp"][0] if isinstance(b["exp"], list) else 0
                txt = "%s: download of a %d byte file (chunk size %d): script %s; step %s expected %s, stream returned %s" % (
                    b["what"], e["L"], e["C"], e["script"], i, b["exp"], b["got"])
            c.violation(b["what"], txt[:1500], {"event": e, "spec": b})
        c.add("traces_validated_against_impl", summary["cases"])
        c.add("store_fault_upload_cases", summary.get("store_fault_cases", 0))
        for i, line in enumerate(lines):
            e = json.loads(line)
            if e["fn"] == "catalog":
                nontrivial.add(("catalog", e["op"], e["res"]["err"]))
                continue
            if e["fn"] == "upload":
                nontrivial.add(("upload", e["C"], e["L"] % max(e["C"], 1), e["tracked"], e["how"]))
            else:
                nontrivial.add(("download", e["C"], e["L"] % max(e["C"], 1), len(e["script"])))
            if len(c.cov["samples"]) < 4 and i % 97 == 0:
                c.sample({k: v for k, v in e.items() if k in ("fn", "C", "L", "how", "tracked", "steps", "script", "res")})
    d = os.path.join(work, "mc")
    os.makedirs(d)
    V.stage_spec(d, ["GridFS.tla", "MCGridFS.tla", "MCGridFS.cfg"])
    r = V.tlc(d, "MCGridFS.tla", cfg="MCGridFS.cfg", timeout=900)
    c.add_tlc(r)
    if r.violated:
        raise V.Inconclusive("MCGridFS: %s violated on the model" % r.violated)
    c.cov["distinct_nontrivial"] = len(nontrivial)
    c.cov["evaluations"] = c.cov.get("traces_validated_against_impl", 0)
    c.cov["rule"] = ("uploads (chunk size x length class x mode x lifecycle) and download scripts of 8-10 steps; distinct_nontrivial counts distinct (kind, chunk size, length mod "
                     "chunk size, mode/lifecycle or script length) tuples")
    c.assumptions += ["byte equality is observed in the harness with position-coded content; counts, positions, chunk tables and records are judged by TLC",
                      "the upload buffer is the driver constant gridfs.UploadBufferSize (16 MiB), or the chunk size when that is larger"]
    return c.finish()
