"""C16 - the engine never wedges: the writer slot is always freed, shutdown completes.

spec: EngineProto.tla (PlusCal; engine mutex, session mutex, writer token, engine
transaction, session start reservation, Begin/Commit/Abort/Close and the session
calls, store failures, cancelled waits) is model checked exhaustively for 2 actors x 2
calls: token conservation, never "semaphore full", the engine transaction implies a
held token, and deadlock freedom.  Its counterexample for the lock order that lungo
had (Begin asked the session for its transaction while holding the engine mutex) is
kept as a forced interleaving that is replayed on the real code.
code -> spec: fault scenarios (cancelled and very short contexts around writes, failing
stores, commits/aborts/ends of session transactions, panicking WithTransaction
callbacks, sessions ended by another goroutine while StartTransaction waits,
collection-level operations with a session context racing AbortTransaction, streams
opened/closed, Close at random points) run under the hooks with seeded yields.  The
hook events (recorded under the engine mutex) are validated by TLC against the
writer-slot protocol (TraceDB!CheckProto: acquire only when free, only the holder
publishes/releases, released exactly once, free at quiescence); after every scenario
a probe write with a 3 s deadline must succeed (or return the closed error promptly
after Close) and the goroutine count must return to its baseline after Close."""
import os

import vcheck as V
import dbtrace
import concrun


def run(tier, replay):
    c = V.Check("C16", tier, "model_checking")
    work = V.scratch()
    bins = V.build(["conc"], work)
    nontrivial = set()
    dbtrace.CLASSES["C16"] = ("protocol:",)
    modes = [["faults", c.seed * 10 + i, 40 if tier == "quick" else 150] for i in range(1 if tier == "quick" else 6)]
    modes += [["guided", c.seed], ["stress", c.seed * 10 + 5, 3, 8, 30]]
    # controlled scheduler over twelve small fault scenarios (shutdown, cancelled and short contexts, abandoned sessions,
    # streams): schedules enumerated depth-first within a budget, then sampled at random
    modes += [["sysfaults", c.seed, 25, 35] if tier == "quick" else ["sysfaults", c.seed, 1500, 400]]
    for m in modes:
        d = os.path.join(work, "%s-%s" % (m[0], m[1]))
        os.makedirs(d)
        summary, recs = concrun.record(c, bins["conc"], [m[0], d] + m[1:])
        concrun.findings(c, recs, ("wedge", "panic"), "C16")
        for rec in recs:
            if rec.get("kind") == "schedules":
                c.add("controlled_schedules", rec["n"])
        bads, lines = dbtrace.validate(c, d)
        dbtrace.judge(c, "C16", bads, lines, [])
        c.add("traces_validated_against_impl", sum(1 for l in lines if '"fn":"proto"' in l))
        import json
        for l in lines:
            if '"fn":"proto"' in l:
                e = json.loads(l)
                c.add("hook_events", len(e["events"]))
                pts = tuple(sorted(set(x["p"] for x in e["events"])))
                nontrivial.add((m[0], pts))
                if len(c.cov["samples"]) < 3:
                    c.sample({"scenario": m[0], "hook_events": [(x["g"], x["p"], x["t"]) for x in e["events"][:25]]})
    r = concrun.engine_proto(c, work, True)
    if r.violated:
        raise V.Inconclusive("EngineProto (lock order of the current code) violates %s on the model; reproduce as a forced interleaving before a verdict" % r.violated)
    if tier == "thorough":
        rb = concrun.engine_proto(c, work, False)
        c.cov["model_distinguishes_old_lock_order"] = (rb.violated == "Deadlock")
    c.cov["distinct_nontrivial"] = len(nontrivial)
    c.cov["evaluations"] = c.cov.get("hook_events", 0)
    c.cov["rule"] = ("fault scenarios with 2-4 actors x 6 steps over 10 step kinds, seeded yields at every hook; distinct_nontrivial counts distinct sets of hook points "
                     "reached per run; evaluations counts validated hook events")
    c.assumptions += ["liveness on real code is a bounded-wait observation (probe deadline 15 s, closed error within 5 s, run deadlines 20-30 s)", "interleavings are explored at hook granularity"]
    return c.finish()
