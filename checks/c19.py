"""C19 - TTL expiry deletes exactly the expired documents and nothing else.

code -> spec: states are built through the driver API (collections with 0-2 TTL
indexes incl. expireAfterSeconds 0 and a partial TTL index, next to plain, unique and
compound indexes; the indexed field holds dates on both sides of the cutoff with
margins >= 30 min, numbers, strings, booleans, timestamps, null, arrays with and
without dates, embedded documents, or is missing; further TTL collections with
nothing to expire); then the real Transaction.Expire runs on a locked transaction and
is committed, twice (every second round on a file store after a close/reopen), and once through the
engine's background loop.  TLC computes
Database!ExpireDb on the observed pre-state (cutoff = now - expiry by exact decimal
arithmetic) and compares the post-state, the delete events per namespace, index
listings, and requires a pass that removes nothing to change nothing."""
import vcheck as V
import dbtrace


def run(tier, replay):
    c = V.Check("C19", tier, "model_checking")
    work = V.scratch()
    bins = V.build(["dbt"], work)
    nontrivial = set()
    modes = [("ttl", c.seed, [6])] if tier == "quick" else [("ttl", c.seed * 100 + i, [60]) for i in range(4)]     # the argument: seeded random variations
    # "state:": the calls that build the scenarios must leave the TTL definitions as they were created (a definition that
    # silently loses its interval makes every later pass look right)
    dbtrace.CLASSES["C19"] = ("expire:", "expire", "reload:", "state:")
    dbtrace.run_modes(c, "C19", bins, work, modes, nontrivial)
    c.cov["rule"] = ("5 index sets x 2 rounds x 2 namespaces with a pool of 20 value shapes per TTL field, plus 4 TTL collections with nothing to expire, 2 passes each, and one "
                     "run of the background loop; distinct_nontrivial counts distinct (call kind, failed?, state changed?, events?) tuples incl. the expire passes")
    c.assumptions += ["dates keep >= 30 min from every cutoff, so the few ms between the recorded time and lungo's own clock reading cannot matter",
                      "TTL fields are top-level fields (no fan-out through arrays of documents)"]
    return c.finish()
