"""C02 - a write that reports an error leaves the database exactly as it was.

code -> spec: (1) the k-th-of-n grid: for n in 1..4 matched documents and every k the
state is built so that the failure (unique collision, $inc on a string, $push to a
non-array, _id rewrite, conflicting paths, unknown operator) strikes at the k-th
document of UpdateMany / UpdateOne / FindOneAndUpdate / ordered and unordered
BulkWrite, at the k-th item of InsertMany (ordered/unordered), at Replace /
FindOneAnd* / failing upserts / index creation and drops; probe writes follow that
expose index residue.  (2) seeded random histories.  Every call is recorded with the
full state before and after (documents, index definitions, index listings, change
log) and judged by TLC: a failed single write must leave pre = post and no event;
multi-item calls must equal Database!Exec's per-item fold (a prefix when ordered,
every valid item when unordered)."""
import vcheck as V
import dbtrace


def run(tier, replay):
    c = V.Check("C02", tier, "model_checking")
    work = V.scratch()
    bins = V.build(["dbt"], work)
    nontrivial = set()
    modes = [("kth", c.seed, []), ("txnfail", c.seed, [])]     # txnfail: failing calls as later writes of a session transaction
    for i in range(1 if tier == "quick" else 6):
        modes.append(("hist", c.seed * 1000 + i, [60, 30] if tier == "quick" else [250, 40]))
    # C02 is decided by the direct observation (failed call => nothing changed) and, for multi-item
    # calls, by the state/result/events comparison with the per-item fold of the specification
    dbtrace.CLASSES["C02"] = ("failed-write-changed-state:", "state:insertMany", "state:bulkWrite", "result:insertMany", "result:bulkWrite",
                              "events:insertMany", "events:bulkWrite", "index-content:", "structure:")
    dbtrace.run_modes(c, "C02", bins, work, modes, nontrivial)
    c.cov["rule"] = ("k-th-of-n failure grid (n<=4, every k, 6 failure kinds, 5 entry points, ordered/unordered batches, replace/find-and-modify/upsert/index failures, "
                     "each followed by probe writes) plus seeded random histories; distinct_nontrivial counts distinct (call kind, failed?, state changed?, events?) tuples")
    c.assumptions += ["index content is observed through Index.List() of every index after every call"]
    return c.finish()
