"""C13 - sort, skip, limit and distinct return the right documents in the right order.

code -> spec: every case builds a collection through the driver API (0-6 or 13-20
tie-rich documents) and runs Find / FindOne / FindOneAnd{Delete,Update,Replace} with
sort, skip, limit, a second Find with a different sort, an unsorted Find and Distinct;
TLC evaluates SortDistinct!FindImpl (pipeline shaped like lungo), the declarative
SortDistinct!FindRef (window of the stable sort of the matching documents),
non-decreasing order and DistinctOK on every recorded result.
spec: MCRead proves on a bounded universe that SortDocs is the stable non-decreasing
permutation and that the pipeline equals the window for all skip/limit."""
import json
import os

import vcheck as V
import pure
from c10 import show


def run(tier, replay):
    c = V.Check("C13", tier, "model_checking")
    work = V.scratch()
    bins = V.build(["rd", "strtab"], work)
    seeds = [c.seed * 1000 + i for i in range(2 if tier == "quick" else 10)]
    n = 300 if tier == "quick" else 900
    nontrivial = set()
    for s in seeds:
        d = os.path.join(work, "s%d" % s)
        os.makedirs(d)
        summary, recs = pure.drive(c, bins["rd"], ["sort", d, str(s), str(n)], d)
        for rec in recs:
            key = "%s:%s" % (rec["kind"], rec["what"].split()[0])
            c.violation(key, "%s (real code): %s" % (rec["what"], json.dumps({k: rec[k] for k in rec if k in ("panic", "skip", "limit")})), rec)
        bads, lines, indom, outdom = pure.validate(c, d)
        c.add("traces_validated_against_impl", summary["cases"])
        c.add("in_sort_domain", indom)
        c.add("outside_sort_domain_skipped", outdom)
        for b in bads:
            e = json.loads(lines[b["l"] - 1])
            via = e.get("via", e["fn"])
            key = "%s:%s" % (b["what"], via)
            if e["fn"] == "find":
                what = "%s(filter=%s, sort=%s, skip=%d, limit=%d) over [%s]: %s: expected %s, real code returned %s" % (
                    via, show(e["q"]), show(e["sort"]), e["skip"], e["limit"], ", ".join(show(x) for x in e["docs"]), b["what"],
                    "error" if b["exp"] is True else ([show(x) for x in b["exp"]] if isinstance(b["exp"], list) else b["exp"]),
                    "error" if e["res"]["err"] else [show(x) for x in e["res"]["docs"]])
            else:
                what = "Distinct(%s, filter=%s) over [%s]: values occurring %s, real code returned %s" % (
                    e["path"], show(e["q"]), ", ".join(show(x) for x in e["docs"]),
                    [show(x) for x in b["exp"]] if isinstance(b["exp"], list) else b["exp"],
                    "error" if e["res"]["err"] else [show(x) for x in e["res"]["vals"]])
            c.violation(key, what, {"case": e, "spec": b})
        for i, line in enumerate(lines):
            if i % 3 == 0:
                e = json.loads(line)
                if e["fn"] == "find":
                    nontrivial.add(("find", e.get("via"), len(e["sort"]["f"]), min(e["skip"], 2), min(e["limit"], 2), len(e["res"].get("docs", [])) if not e["res"]["err"] else -1))
                else:
                    nontrivial.add(("distinct", e["path"], len(e["res"].get("vals", []))))
                if len(c.cov["samples"]) < 4 and i % 600 == 0 and e["fn"] == "find":
                    c.sample({"call": e.get("via"), "filter": show(e["q"]), "sort": show(e["sort"]), "skip": e["skip"], "limit": e["limit"],
                              "collection": [show(x) for x in e["docs"]][:8], "result_ids": [show(x["f"][0][1]) for x in e["res"].get("docs", [])]})
    pure.mc(c, work, bins, "MCRead", ["a", "b", "c", "z", "a.b", "a.c", "a.b.c", "k", "d"], tier == "thorough")
    c.cov["distinct_nontrivial"] = len(nontrivial)
    c.cov["evaluations"] = c.cov.get("traces_validated_against_impl", 0)
    c.cov["rule"] = ("seeded collections of tie-rich documents (equal numbers of different kinds, arrays, embedded documents, missing fields) x filters x "
                     "1-3 sort keys x skip/limit in 0..4; distinct_nontrivial counts distinct (call, #sort keys, skip, limit, result size) tuples in a 1/3 sample")
    c.assumptions += ["sort keys that are empty arrays or fan out through arrays of sub-documents are outside the domain (DESIGN 8.3): such cases are counted, not judged",
                      "a find on a collection that does not exist returns nothing and validates nothing"]
    return c.finish()
