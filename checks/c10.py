"""C10 - query filters select exactly the documents MongoDB's semantics select.

code -> spec: grammar-random (document, filter) cases are evaluated by the real
mongokit.Match; TLC evaluates Query!MatchImpl on every case and, on the core
domain (QueryRef!InCore, DESIGN.md section 8), QueryRef!MatchRef, and reports
every difference.  The logical laws L1-L7 are evaluated on the real code over the
whole law domain (nested arrays included) by the driver.
spec: MCQuery checks MatchImpl = MatchRef exhaustively on a bounded core domain."""
import json
import os

import vcheck as V


def show(v):
    t = v.get("t")
    if t == "num":
        if v["sp"] != "fin":
            return v["sp"] + ":" + v["k"]
        d = "".join(map(str, v["d"])) or "0"
        e = v["e"]
        if d == "0":
            s = "0"
        elif e >= len(d):
            s = d + "0" * (e - len(d))
        elif e > 0:
            s = d[:e] + "." + d[e:]
        else:
            s = "0." + "0" * (-e) + d
        return ("-" if v["neg"] else "") + s + {"i32": "", "i64": "L", "f64": "f", "dec": "m"}[v["k"]]
    if t == "str":
        return json.dumps(v["s"])
    if t == "doc":
        return "{" + ", ".join(k + ": " + show(x) for k, x in v["f"]) + "}"
    if t == "arr":
        return "[" + ", ".join(show(x) for x in v["a"]) + "]"
    if t == "null":
        return "null"
    if t == "bool":
        return str(v["b"]).lower()
    if t == "oid":
        return "oid(" + v["s"][-4:] + ")"
    if t == "date":
        return "date"
    if t == "ts":
        return "ts(%d,%d)" % (v["T"], v["I"])
    if t == "bin":
        return "bin(%d,%s)" % (v["st"], v["d"])
    if t == "regex":
        return "/%s/%s" % (v["p"], v["o"])
    return t or "?"


def ops_of(q, acc):
    """operator names used in a filter (finding class)"""
    if q.get("t") == "doc":
        for k, x in q["f"]:
            if k.startswith("$"):
                acc.add(k)
            ops_of(x, acc)
    elif q.get("t") == "arr":
        for x in q["a"]:
            ops_of(x, acc)
    return acc


def get_path(v, segs):
    """values reached by a dotted path prefix on a tagged value (first array met ends the walk)"""
    for i, seg in enumerate(segs):
        if v.get("t") == "arr":
            return "arr"
        if v.get("t") != "doc":
            return None
        nxt = None
        for k, x in v["f"]:
            if k == seg:
                nxt = x
                break
        if nxt is None:
            return None
        v = nxt
    return "arr" if v.get("t") == "arr" else "other"


def type_array_fanout(doc, q, prefix=""):
    """does the filter contain {$type: 'array'|4} on a path with a proper prefix that is an array in doc"""
    if q.get("t") == "arr":
        return any(type_array_fanout(doc, x, prefix) for x in q["a"])
    if q.get("t") != "doc":
        return False
    for k, x in q["f"]:
        if k == "$type":
            ops = x["a"] if x.get("t") == "arr" else [x]
            isarr = any((o.get("t") == "str" and o.get("s") == "array") or (o.get("t") == "num" and o.get("d") == [4] and o.get("e") == 1) for o in ops)
            segs = prefix.split(".") if prefix else []
            if isarr and any(get_path(doc, segs[:n]) == "arr" for n in range(1, len(segs))):
                return True
        elif k.startswith("$"):
            if type_array_fanout(doc, x, prefix):
                return True
        else:
            if type_array_fanout(doc, x, (prefix + "." + k) if prefix else k):
                return True
    return False


def arrays_crossed(v, segs):
    """largest number of arrays a walk along segs passes *through* (with segments left over) in the encoded value v"""
    if not segs:
        return 0
    t = v.get("t")
    if t == "doc":
        for k, x in v["f"]:
            if k == segs[0]:
                return arrays_crossed(x, segs[1:])
        return 0
    if t == "arr":
        best = 0
        if segs[0].isdigit() and int(segs[0]) < len(v["a"]):
            best = arrays_crossed(v["a"][int(segs[0])], segs[1:])
        for x in v["a"]:
            if x.get("t") == "doc":
                best = max(best, arrays_crossed(x, segs))
            elif x.get("t") == "arr":
                best = max(best, 1)
        return 1 + best
    return 0


def size_double_fanout(doc, q, prefix=""):
    """does the filter contain $size on a path that passes through two or more arrays of doc (KF-C10-3)"""
    if q.get("t") == "arr":
        return any(size_double_fanout(doc, x, prefix) for x in q["a"])
    if q.get("t") != "doc":
        return False
    for k, x in q["f"]:
        if k == "$size":
            if prefix and arrays_crossed(doc, prefix.split(".")) >= 2:
                return True
        elif k.startswith("$"):
            if size_double_fanout(doc, x, prefix):
                return True
        elif size_double_fanout(doc, x, (prefix + "." + k) if prefix else k):
            return True
    return False


def run(tier, replay):
    c = V.Check("C10", tier, "model_checking")
    work = V.scratch()
    bins = V.build(["c10"], work)
    seeds = [c.seed * 1000 + i for i in range(2 if tier == "quick" else 12)]
    ncases = 1200 if tier == "quick" else 4000
    nontrivial = set()
    for s in seeds:
        d = os.path.join(work, "s%d" % s)
        os.makedirs(d)
        res = V.run([bins["c10"], "gen", d, str(s), str(ncases)], timeout=600)
        summary = None
        for line in res.stdout.splitlines():
            rec = json.loads(line)
            if rec["kind"] == "summary":
                summary = rec
            elif rec["kind"] == "law":
                key = "law:" + rec["law"].split()[0] + ":" + ",".join(sorted(ops_of(rec["q"], set())))
                c.violation(key, "%s fails on real mongokit.Match: doc=%s filter=%s got %s, law requires %s" % (
                    rec["law"], show(rec["doc"]), show(rec["q"]), rec["got"], rec["expect"]), rec)
            elif rec["kind"] == "panic":
                c.violation("panic", "mongokit.Match panics: doc=%s filter=%s: %s" % (show(rec["doc"]), show(rec["q"]), rec["panic"]), rec)
        if summary is None:
            raise V.Inconclusive("c10 gen produced no summary")
        c.add("law_checks_on_impl", summary["law_checks"])
        V.stage_spec(d, V.PURE_SPECS + ["TracePure.tla", "TracePure.cfg"])
        r = V.tlc(d, "TracePure.tla", cfg="TracePure.cfg", timeout=1500)
        c.add_tlc(r)
        if r.violated:
            raise V.Inconclusive("TracePure stopped: %s\n%s" % (r.violated, V.tail(r.output, 30)))
        lines = None
        core = sum(1 for l in r.output.splitlines() if l.startswith('<<"CORE"'))
        c.add("core_domain_cases", core)
        c.add("schema_evaluations_in_keyword_subset", sum(1 for l in r.output.splitlines() if l.startswith('<<"INDOM"')))
        c.add("schema_evaluations_outside_subset_skipped", sum(1 for l in r.output.splitlines() if l.startswith('<<"OUTDOM"')))
        c.add("traces_validated_against_impl", summary["cases"])
        bads = V.tlc_prints(r.output, "BAD")
        if bads:
            lines = open(os.path.join(d, "trace.ndjson")).read().splitlines()
        for b in bads:
            if b["what"] == "impl-vs-ref":
                continue  # reported through "ref" against the real result
            if b["what"] == "impl":
                # MatchImpl mirrors lungo outside the core domain too; there the property leaves the result open
                # (only the laws, checked on the real code above, are demanded), so a difference is drift of the
                # specification, not a violation.  Inside the core domain the same case is judged through "ref".
                c.add("spec_drift_outside_core_not_judged")
                continue
            e = json.loads(lines[b["l"] - 1])
            if e.get("fn") == "schema":
                kws = ",".join(sorted(x[0] for x in e["schema"].get("f", [])))
                c.violation("%s:%s" % (b["what"], kws), "bsonkit.Schema(%s).Evaluate(%s) = %s but the JSON-schema semantics (Schema.tla, Valid) say %s" % (
                    show(e["schema"]), show(e["value"]), e["res"], b["exp"]), {"case": e, "spec": b})
                continue
            ops = ",".join(sorted(ops_of(e["q"], set()))) or "eq"
            key = "match:%s:%s" % (b["what"], ops)
            if b["what"] == "ref-kf-deps":
                key = "match:ref-kf-deps:jsonSchema"
            if b["what"] == "ref" and type_array_fanout(e["doc"], e["q"]):
                key += ":type-array-fanout"
            elif b["what"] == "ref" and size_double_fanout(e["doc"], e["q"]):
                key += ":size-double-fanout"
            what = "mongokit.Match(%s, %s) = %s but %s says %s" % (
                show(e["doc"]), show(e["q"]), e["res"],
                "the reference semantics (MatchRef, core domain)" if b["what"].startswith("ref") else "the specification (MatchImpl)", b["exp"])
            c.violation(key, what, {"case": e, "spec": b})
        # distinct non-trivial: distinct (operator set, result) over cases
        for i, line in enumerate(open(os.path.join(d, "trace.ndjson"))):
            if i % 7 == 0:
                e = json.loads(line)
                if e.get("fn") == "schema":
                    nontrivial.add(("schema:" + ",".join(sorted(x[0] for x in e["schema"].get("f", []))), e["res"]))
                    continue
                nontrivial.add((",".join(sorted(ops_of(e["q"], set()))), e["res"]))
                if len(c.cov["samples"]) < 4 and i % 700 == 0:
                    c.sample({"doc": show(e["doc"]), "filter": show(e["q"]), "impl": e["res"]})
    # bounded exhaustive agreement MatchImpl = MatchRef on the specification
    mc = os.path.join(work, "mc")
    os.makedirs(mc)
    V.run([bins["c10"], "strings", mc])
    V.stage_spec(mc, ["BSON.tla", "Path.tla", "Schema.tla", "Query.tla", "QueryRef.tla", "MCQuery.tla", "MCQuery.cfg"])
    json.dump({"big": tier == "thorough"}, open(os.path.join(mc, "mcparams.json"), "w"))
    r = V.tlc(mc, "MCQuery.tla", cfg="MCQuery.cfg", timeout=2400)
    c.add_tlc(r)
    c.cov["mc_agreement_states"] = r.distinct
    dis = V.tlc_prints(r.output, "DISAGREE")
    c.cov["mc_core_cases"] = sum(1 for l in r.output.splitlines() if l.startswith('<<"CORE"'))
    if dis:
        raise V.Inconclusive("MCQuery: MatchImpl and MatchRef disagree on %d bounded core-domain cases, e.g. doc=%s path=%s op=%s operand=%s impl=%s ref=%s; "
                             "reproduce on mongokit.Match before a verdict" % (len(dis), show(dis[0]["d"]), ".".join(dis[0]["p"]), dis[0]["op"], show(dis[0]["v"]), dis[0]["impl"], dis[0]["ref"]))
    if r.violated:
        # model-level only: the two definitions disagree inside the core domain. Reproduce on real code.
        raise V.Inconclusive("MCQuery: MatchImpl and MatchRef disagree on the bounded core domain (%s); "
                             "reproduce on mongokit.Match before a verdict:\n%s" % (r.violated, V.tail(r.output, 40)))
    c.cov["distinct_nontrivial"] = len(nontrivial)
    c.cov["evaluations"] = c.cov.get("traces_validated_against_impl", 0)
    c.cov["rule"] = ("grammar-random documents (depth<=2, arrays of scalars/documents/arrays) x filters over all supported operators; "
                     "every case is evaluated on real mongokit.Match and by TLC; distinct_nontrivial counts distinct (operator set, result) pairs in a 1/7 sample")
    c.assumptions += ["numbers in $mod/$bits/$size operands stay below 10^9 (TLC integers)",
                      "$jsonSchema is checked separately (schema keyword subset)"]
    return c.finish()
