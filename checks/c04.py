"""C04 - concurrent operations are strictly serializable; no update is lost.

code -> spec: 6-8 goroutines issue $inc read-modify-writes (UpdateOne, FindOneAndUpdate
with the post-image), multi-document WithTransaction transfers (some aborted by the
callback), inserts, deletes, UpdateMany, racing unique-key updates, failing writes and
reads on shared collections.  The verif hooks record, while the engine mutex is held,
the linearization point of every call: for a read the catalog it was given at Begin,
for a write the catalog that is current when its commit is published and the
catalog it publishes; seeded yields are injected at the hand-over windows (after
unlock / after acquire in Begin, before store / before publish in Commit, in Abort).
TLC then validates every call with Database!Exec on the catalog at its linearization
point (result, published catalog, change events) - i.e. the committed writes replayed
one at a time in publication order reproduce every returned result - and validates
session transactions as a fold over their calls.  The harness checks that the
published catalogs form one chain ending in the current catalog and that no writer
published on a catalog other than the base of its transaction; the hook events are
validated against the writer-slot protocol.  A forced interleaving holds a writer in
the window between releasing the engine lock and acquiring the slot while another
transaction commits.
spec: EngineProto (PlusCal) is model checked for mutual exclusion, token conservation
and deadlock freedom."""
import os

import vcheck as V
import dbtrace
import concrun


def run(tier, replay):
    c = V.Check("C04", tier, "model_checking")
    work = V.scratch()
    bins = V.build(["conc"], work)
    nontrivial = set()
    runs = [(c.seed * 10 + i, 6, 6, 40) for i in range(1 if tier == "quick" else 6)]
    if tier == "thorough":
        runs += [(c.seed * 10 + 7, 6, 8, 40)]     # more workers; kept moderate: every event carries the whole state and the log collection grows
    dbtrace.CLASSES["C04"] = ("result:", "state:", "events:", "visibility:", "protocol:", "index-content:", "unique:", "structure:")
    for seed, nruns, workers, ops in runs:
        d = os.path.join(work, "stress-%d" % seed)
        os.makedirs(d)
        summary, recs = concrun.record(c, bins["conc"], ["stress", d, seed, nruns, workers, ops])
        concrun.findings(c, recs, ("serial", "wedge", "panic"), "C04")
        bads, lines = dbtrace.validate(c, d, timeout=6000)
        dbtrace.judge(c, "C04", bads, lines, [])
        c.add("traces_validated_against_impl", nruns)
        c.add("calls_validated", summary["cases"])
        dbtrace.cover(c, lines, nontrivial)
    d = os.path.join(work, "guided")
    os.makedirs(d)
    summary, recs = concrun.record(c, bins["conc"], ["guided", d, c.seed])
    concrun.findings(c, recs, ("serial", "wedge", "panic"), "C04")
    bads, lines = dbtrace.validate(c, d)
    dbtrace.judge(c, "C04", bads, lines, [])
    c.add("forced_interleavings", summary["cases"])
    # controlled scheduling: 12 small scenarios, their interleavings at the scheduling points enumerated depth-first
    # (budget per scenario) and then sampled at random
    d = os.path.join(work, "systematic")
    os.makedirs(d)
    dfs, rnd = (25, 35) if tier == "quick" else (1500, 400)
    summary, recs = concrun.record(c, bins["conc"], ["systematic", d, c.seed, dfs, rnd], timeout=3000)
    concrun.findings(c, recs, ("serial", "wedge", "panic"), "C04")
    for rec in recs:
        if rec.get("kind") == "schedules":
            c.add("controlled_schedules", rec["n"])
    bads, lines = dbtrace.validate(c, d, timeout=6000)
    dbtrace.judge(c, "C04", bads, lines, [])
    c.add("calls_validated", summary["cases"])
    dbtrace.cover(c, lines, nontrivial)
    r = concrun.engine_proto(c, work, True)
    if r.violated:
        raise V.Inconclusive("EngineProto (fixed lock order) violates %s on the model; reproduce as a forced interleaving before a verdict" % r.violated)
    c.cov["distinct_nontrivial"] = len(nontrivial)
    c.cov["evaluations"] = c.cov.get("calls_validated", 0)
    c.cov["rule"] = ("seeded concurrent runs (workers x ops, yields at hook windows with probability 35%); every call validated at its hook-recorded linearization point; "
                     "distinct_nontrivial counts distinct (call kind, failed?, state changed?, events?, actor) tuples")
    c.assumptions += ["interleavings are explored at hook granularity (critical-section hand-over points); data races inside a critical section are outside the model",
                      "the linearization points are the hook sites: begin.read / begin.write / commit.publish under the engine mutex"]
    return c.finish()
