"""C14 - projections return exactly the requested part of each document, unchanged.

code -> spec: every generated (document, projection) is evaluated by the real
mongokit.Project and through Find / FindOne / FindOneAndUpdate with SetProjection;
the stored document is re-read after every projected read (byte comparison on real
code), the projected read is repeated, and a returned document is mutated before
re-reading.  TLC evaluates Projection!Project on every recorded case inside the
domain of the property (InProjDomain) and checks the sub-document relation on the
real result.
spec: MCRead proves ProjSubDocument / ProjExact / ProjMixRejected on a bounded universe."""
import json
import os

import vcheck as V
import pure
from c10 import show


def proj_ops(p):
    ops = set()
    for k, v in p.get("f", []):
        if v.get("t") == "doc" and v["f"] and v["f"][0][0].startswith("$"):
            ops.add(v["f"][0][0])
        else:
            ops.add("flag")
    return ",".join(sorted(ops))


def run(tier, replay):
    c = V.Check("C14", tier, "model_checking")
    work = V.scratch()
    bins = V.build(["rd", "strtab"], work)
    seeds = [c.seed * 1000 + i for i in range(2 if tier == "quick" else 10)]
    n = 1500 if tier == "quick" else 5000
    nontrivial = set()
    for s in seeds:
        d = os.path.join(work, "s%d" % s)
        os.makedirs(d)
        summary, recs = pure.drive(c, bins["rd"], ["proj", d, str(s), str(n)], d)
        for rec in recs:
            key = "%s:%s" % (rec["kind"], proj_ops(rec.get("proj", {})))
            c.violation(key, "%s (real code): doc=%s projection=%s%s" % (rec["what"], show(rec["doc"]) if "doc" in rec else "[%s] -> got [%s] want [%s]" % tuple(
                            "; ".join(show(x) for x in rec.get(k, [])) for k in ("docs", "got", "want")), show(rec["proj"]),
                        (" panic=" + rec["panic"]) if "panic" in rec else ""), rec)
        bads, lines, indom, outdom = pure.validate(c, d)
        c.add("traces_validated_against_impl", summary["cases"])
        c.add("in_projection_domain", indom)
        c.add("outside_projection_domain_skipped", outdom)
        for b in bads:
            e = json.loads(lines[b["l"] - 1])
            key = "%s:%s" % (b["what"], proj_ops(e["proj"]))
            what = "mongokit.Project(%s, %s): %s: specification expects %s, real code gives %s" % (
                show(e["doc"]), show(e["proj"]), b["what"],
                "rejected" if b["exp"] is True else "accepted" if b["exp"] is False else show(b["exp"]),
                "rejected" if e["res"]["err"] else show(e["res"]["doc"]))
            c.violation(key, what, {"case": e, "spec": b})
        for i, line in enumerate(lines):
            if i % 3 == 0:
                e = json.loads(line)
                nontrivial.add((proj_ops(e["proj"]), len(e["proj"]["f"]), e["res"]["err"]))
                if len(c.cov["samples"]) < 4 and i % 900 == 0:
                    c.sample({"doc": show(e["doc"]), "projection": show(e["proj"]), "result": "rejected" if e["res"]["err"] else show(e["res"]["doc"])})
    pure.mc(c, work, bins, "MCRead", ["a", "b", "c", "z", "a.b", "a.c", "a.b.c", "k", "d"], tier == "thorough")
    c.cov["distinct_nontrivial"] = len(nontrivial)
    c.cov["evaluations"] = c.cov.get("traces_validated_against_impl", 0)
    c.cov["rule"] = ("seeded documents (embedded documents up to depth 3, arrays of scalars and sub-documents, document-valued _id) x projections of 1-3 entries "
                     "(flags of all numeric kinds and booleans, $slice count and [skip,limit] incl. negative, $elemMatch, ill-formed arguments); "
                     "distinct_nontrivial counts distinct (operator set, #entries, accepted/rejected) tuples in a 1/3 sample")
    c.assumptions += ["paths with numeric components, paths through arrays and nested overlay paths are outside the domain (property text / DESIGN 8.3): counted, not judged",
                      "non-mutation is observed through the driver API and on the document handed to mongokit.Project"]
    return c.finish()
