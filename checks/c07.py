"""C07 - unique indexes (and _id) never admit two documents with the same key.

code -> spec: after every recorded call of the collision scenarios (pairs of values that
are equal across numeric kinds, missing vs null, arrays sharing elements, empty arrays,
compound keys; key swaps and rotations in one multi-update; documents moving into and
out of a partial filter; multikey arity changes; nested paths; upserts and bulk writes)
and of seeded random histories TLC evaluates Database!UniqueOK on the observed state
with the specification's own key extractor (IndexKeys), and compares the call's
outcome with Database!Exec in both directions: a write that would create a duplicate
must fail, a write that would not must not fail with a uniqueness error."""
import vcheck as V
import dbtrace


def run(tier, replay):
    c = V.Check("C07", tier, "model_checking")
    work = V.scratch()
    bins = V.build(["dbt"], work)
    nontrivial = set()
    modes = [("uniq", c.seed, []), ("kth", c.seed, [])]
    for i in range(1 if tier == "quick" else 6):
        modes.append(("hist", c.seed * 1000 + 100 + i, [60, 30] if tier == "quick" else [250, 40]))
    dbtrace.CLASSES["C07"] = ("unique:", "spurious-uniqueness-error:", "result:", "state:insert", "state:update", "state:replace", "state:bulk", "state:createIndex", "state:findOneAnd")
    dbtrace.run_modes(c, "C07", bins, work, modes, nontrivial)
    c.cov["rule"] = ("collision scenarios over a pool of values that are equal under BSON comparison but differ in kind or shape, plus the k-th-of-n grid and random histories; "
                     "UniqueOK is evaluated on every observed state; distinct_nontrivial counts distinct (call kind, failed?, state changed?, events?) tuples")
    c.assumptions += ["the partial filters used are well-formed", "IsUniquenessError is logged per failing call and must coincide with a duplicate predicted by the specification"]
    return c.finish()
