"""C15 - every index always holds exactly the documents of its collection.

code -> spec: after every recorded call (index scenarios: every write path next to
partial, multikey, compound, nested-path and TTL indexes created before and after the
data; the k-th-of-n failure grid; random histories) the listing of every index
(Index.List) is judged by TLC with Database!IndexListingOK: exactly the documents of
the collection that fall under the partial filter, each once, in key order; the
_id_ index is always present; index definitions equal Database!Exec's (re-creating an
equal definition is a no-op, a conflicting one fails, drops spare _id_).  The
harness also checks the position index of every document set."""
import vcheck as V
import dbtrace


def run(tier, replay):
    c = V.Check("C15", tier, "model_checking")
    work = V.scratch()
    bins = V.build(["dbt"], work)
    nontrivial = set()
    modes = [("index", c.seed, []), ("kth", c.seed, []), ("uniq", c.seed, [])]
    for i in range(1 if tier == "quick" else 6):
        modes.append(("hist", c.seed * 1000 + 200 + i, [60, 30] if tier == "quick" else [250, 40]))
    dbtrace.CLASSES["C15"] = ("index-content:", "id-index-missing:", "structure:", "state:createIndex", "state:dropIndex", "state:dropAllIndexes",
                              "result:createIndex", "result:dropIndex", "result:dropAllIndexes", "result:listIndexes")
    dbtrace.run_modes(c, "C15", bins, work, modes, nontrivial)
    c.cov["rule"] = ("index scenarios (6 index shapes x 15 write paths, before and after the data), k-th-of-n failure grid, collision scenarios and random histories; every index "
                     "listing of every observed state is judged; distinct_nontrivial counts distinct (call kind, failed?, state changed?, events?) tuples")
    c.assumptions += ["index entries are the document objects of the collection (lungo's design): an entry whose object is not in the document set is reported as a stale copy",
                      "Index.List() de-duplicates entries per document: a duplicate entry of the same document under two keys is not visible (see DESIGN)",
                      "reopening the file is covered by C06"]
    return c.finish()
