"""C05 - committed data survives crashes: the store file is always old or new, never torn.

Power loss (model + recorded program): a helper process performs real commits through
Engine + FileStore under strace; the recorded system-call sequence of every commit on
<path>, <path>.tmp and the parent directory becomes the program parameter of
CrashFS.tla (POSIX-style volatile/durable file system) and TLC explores every crash
point x every permitted loss (unsynced file data, un-fsynced directory operations) and
every kill point: Load must be old or new, and new once the commit returned.  Any
crash-safe ordering is accepted.  A model counterexample is materialised (prefix of
the real file / missing file) and given to the real FileStore.Load before it counts.
Kill enumeration (real process): for every commit of the history and every relevant
system call of that commit the writer is killed on entry of that call
(strace -e inject=...:signal=KILL:when=k); then the real Load must return exactly the
last committed or the in-flight state (the committed one if the commit had already
returned), a follow-up commit must succeed and reload identically.
Fault enumeration: every such call is made to fail (EIO): the commit must report the
error, engine.Catalog() must stay at the last persisted state, later commits must work
and the file must load as the last visible state; plus the engine-level grid with a
failing Store (before / after the inner write; session and auto-commit mode)."""
import json
import os
import re
import shutil
import subprocess

import vcheck as V

SYSCALLS = "unlinkat,unlink,openat,write,pwrite64,fsync,fdatasync,close,renameat,renameat2,rename,ftruncate"


def parse_strace(path, dirname):
    """-> (thread id, list of relevant syscall instances in order)
    instance: dict(name, idx (1-based count of that syscall name in that thread), op (model op), commit)"""
    tmp = dirname + "/db.bson.tmp"
    dst = dirname + "/db.bson"
    lines = open(path).read().splitlines()
    # the thread that opens the temporary file
    tid = None
    for l in lines:
        if "openat(" in l and tmp in l:
            tid = l.split()[0]
            break
    if tid is None:
        return None, []
    counts = {}
    fds = {}
    out = []
    for l in lines:
        parts = l.split(None, 1)
        if len(parts) < 2 or parts[0] != tid:
            continue
        m = re.match(r"(\w+)\((.*)", parts[1])
        if not m or "resumed>" in parts[1]:
            continue
        name, rest = m.group(1), m.group(2)
        counts[name] = counts.get(name, 0) + 1
        idx = counts[name]
        ret = re.search(r"=\s*(-?\d+)", l.rsplit(")", 1)[-1])
        retv = int(ret.group(1)) if ret else None
        op = None
        if name in ("unlinkat", "unlink") and tmp in rest:
            op = "unlinkT"
        elif name == "openat" and tmp in rest:
            op = "openT"
            if retv is not None and retv >= 0:
                fds[retv] = "T"
        elif name == "openat" and ('"%s"' % dirname) in rest and "O_WRONLY" not in rest:
            op = "openD"
            if retv is not None and retv >= 0:
                fds[retv] = "D"
        elif name in ("renameat", "renameat2", "rename") and tmp in rest and dst in rest:
            op = "rename"
        elif name in ("write", "pwrite64", "fsync", "fdatasync", "close", "ftruncate"):
            fdm = re.match(r"(\d+)", rest)
            if fdm and int(fdm.group(1)) in fds:
                kind = fds[int(fdm.group(1))]
                if name in ("write", "pwrite64"):
                    op = "write" if kind == "T" else None
                elif name in ("fsync", "fdatasync"):
                    op = "fsync" + kind
                elif name == "close":
                    op = "close" + kind
                    del fds[int(fdm.group(1))]
        if op:
            out.append({"name": name, "idx": idx, "op": op, "ok": retv is not None and retv >= 0})
    # split into commits: a commit starts with the unlinkT that precedes an openT
    commit = 0
    for i, x in enumerate(out):
        if x["op"] == "openT":
            commit += 1
            # the unlinks directly before belong to this commit
            j = i - 1
            while j >= 0 and out[j]["op"] == "unlinkT" and out[j].get("commit") == commit - 1:
                out[j]["commit"] = commit
                j -= 1
        x["commit"] = commit
    return tid, out


def writer_markers(stdout):
    begun, done, failed, visible = [], [], [], {}
    for l in stdout.splitlines():
        p = l.split()
        if not p:
            continue
        if p[0] == "BEGIN":
            begun.append(int(p[1]))
        elif p[0] == "DONE":
            done.append(int(p[1]))
        elif p[0] == "FAIL":
            failed.append(int(p[1]))
        elif p[0] == "VISIBLE":
            visible[int(p[1])] = p[2]
    return begun, done, failed, visible, "END" in stdout.split()


def expected_sha(d, k, binary):
    return json.load(open(os.path.join(d, "expected-%d.json" % k)))["sha"]


def run(tier, replay):
    c = V.Check("C05", tier, "fault_enumeration")
    if not shutil.which("strace"):
        raise V.Inconclusive("strace is not available")
    work = V.scratch()
    bins = V.build(["c05"], work)
    exe = bins["c05"]
    ncommits = 3 if tier == "quick" else 6
    seed = c.seed
    # ---- dry run under strace: the real system call sequence -------------------------------------------
    dry = os.path.join(work, "dry")
    os.makedirs(dry)
    p = subprocess.run(["strace", "-f", "-o", os.path.join(dry, "strace.txt"), "-e", "trace=" + SYSCALLS, exe, "writer", dry, str(ncommits), str(seed)],
                       capture_output=True, text=True, timeout=300)
    begun, done, failed, visible, ended = writer_markers(p.stdout)
    if not ended or len(done) != ncommits:
        raise V.Inconclusive("the writer did not complete its history under strace: %s" % p.stdout[-500:])
    tid, inst = parse_strace(os.path.join(dry, "strace.txt"), dry)
    if not inst:
        raise V.Inconclusive("could not find the store's system calls in the strace output")
    exp = {}
    for k in range(ncommits + 1):
        exp[k] = json.load(open(os.path.join(dry, "expected-%d.json" % k)))["sha"]
    c.cov["recorded_syscalls"] = len(inst)
    programs = {}
    for x in inst:
        programs.setdefault(x["commit"], []).append(x["op"])
    c.sample({"commit_1_program_recorded_from_the_binary": programs.get(1)})
    # ---- power loss: TLC on CrashFS with the recorded programs ----------------------------------------
    seen = set()
    for k in sorted(programs):
        if k == 0:
            continue
        key = (tuple(programs[k]), k > 1)
        if key in seen:
            continue
        seen.add(key)
        d = os.path.join(work, "mc-%d" % k)
        os.makedirs(d)
        V.stage_spec(d, ["CrashFS.tla", "MCCrashFS.tla", "MCCrashFS.cfg"])
        json.dump({"ops": programs[k], "hasold": k > 1}, open(os.path.join(d, "program.json"), "w"))
        r = V.tlc(d, "MCCrashFS.tla", cfg="MCCrashFS.cfg", timeout=600, workers=4)
        c.add_tlc(r)
        if r.violated:
            # materialise the surviving state the model found and ask the real loader
            m = re.findall(r"result = \"(\w+)\"", r.output)
            kind = m[-1] if m else "torn"
            md = os.path.join(work, "mat-%d" % k)
            os.makedirs(md)
            data = open(os.path.join(dry, "db.bson"), "rb").read()
            if kind == "torn":
                open(os.path.join(md, "db.bson"), "wb").write(data[: max(1, len(data) // 2)])
            lp = subprocess.run([exe, "load", md], capture_output=True, text=True, timeout=60)
            rep = json.loads(lp.stdout.strip().splitlines()[-1]) if lp.stdout.strip() else {"load": "error"}
            if r.violated == "DurableOnceReturned" and kind in ("old", "lost"):
                # nothing to reproduce on the loader: the surviving file is a well-formed earlier state.  The evidence is the
                # order of system calls recorded from the real binary: the commit returns before the rename is durable.
                c.violation("powerloss:acknowledged-commit-not-durable:%s" % kind,
                            "commit %d returned success, but with the system call order recorded from the real binary (%s) the rename of the new store file is not durable at that "
                            "point: after a power loss the store file is the %s one (CrashFS.tla, invariant DurableOnceReturned); FileStore.Load on that file: %s" % (
                                k, " ".join(programs[k]), "previous" if kind == "old" else "missing", rep.get("load")), {"program": programs[k], "kind": kind, "load": rep})
            elif rep.get("load") != "ok" or (k > 1 and kind == "lost"):
                c.violation("powerloss:%s:%s" % (kind, r.violated),
                            "with the system call order recorded from the real binary (%s) a power loss can leave a %s store file (CrashFS.tla, invariant %s); the real FileStore.Load on the "
                            "materialised state: %s %s" % (" ".join(programs[k]), kind, r.violated, rep.get("load"), rep.get("error", "")), {"program": programs[k], "kind": kind, "load": rep})
            else:
                raise V.Inconclusive("CrashFS counterexample (%s) did not reproduce on the real loader" % kind)
    # ---- kill enumeration on the real process ----------------------------------------------------------
    points = [x for x in inst if x["commit"] >= 1]
    if tier == "quick":
        points = [x for x in points if x["commit"] <= ncommits]
    kills = 0
    kinds = set()
    for n, x in enumerate(points):
        d = os.path.join(work, "kill-%d" % n)
        os.makedirs(d)
        p = subprocess.run(["strace", "-f", "-o", "/dev/null", "-e", "trace=" + x["name"], "-e", "inject=%s:signal=KILL:when=%d" % (x["name"], x["idx"]),
                            exe, "writer", d, str(ncommits), str(seed)], capture_output=True, text=True, timeout=300)
        begun, done, failed, visible, ended = writer_markers(p.stdout)
        if ended:
            # the injection did not hit (thread numbering differs): not a verdict
            c.add("kill_points_not_hit", 1)
            continue
        kills += 1
        j = begun[-1] if begun else 0
        lp = subprocess.run([exe, "load", d], capture_output=True, text=True, timeout=120)
        try:
            rep = json.loads(lp.stdout.strip().splitlines()[-1])
        except (ValueError, IndexError):
            raise V.Inconclusive("c05 load produced no report: %s %s" % (lp.stdout[-300:], lp.stderr[-300:]))
        # the expectations of this very run (ids and timestamps differ between runs)
        own = {}
        for k in range(0, j + 1):
            f = os.path.join(d, "expected-%d.json" % k)
            if os.path.exists(f):
                own[k] = json.load(open(f))["sha"]
        if j not in own or (j > 0 and j - 1 not in own):
            raise V.Inconclusive("the killed writer left no expectation file for commit %d" % j)
        allowed = {own[j]} if (j in done or j == 0) else {own[j - 1], own[j]}
        kinds.add((x["op"], rep.get("load"), "new" if rep.get("sha") == own.get(j) else "old"))
        where = "killed on entry of %s #%d (%s of commit %d%s)" % (x["name"], x["idx"], x["op"], x["commit"], ", which had already returned" if j in done else "")
        if rep.get("load") != "ok":
            c.violation("kill:load-%s:%s" % (rep.get("load"), x["op"]), "%s: the store file does not load: %s" % (where, rep.get("error")), {"point": x, "report": {k: v for k, v in rep.items() if k != "dump"}})
        elif rep.get("sha") not in allowed:
            c.violation("kill:state:%s" % x["op"], "%s: the file loads as neither the last committed nor the in-flight state" % where, {"point": x, "sha": rep.get("sha"), "allowed": sorted(allowed)})
        elif rep.get("followup") != "ok" or rep.get("reload") != "ok":
            c.violation("kill:followup:%s" % x["op"], "%s: after the restart a commit %s / its reload %s (%s)" % (where, rep.get("followup"), rep.get("reload"), rep.get("followup_error", rep.get("FollowE", ""))),
                        {"point": x, "report": {k: v for k, v in rep.items() if k != "dump"}})
    c.cov["kill_points"] = kills
    # ---- fault enumeration: every call fails once ------------------------------------------------------
    faults = 0
    for n, x in enumerate(points):
        if x["op"] in ("closeD",) or not x["ok"]:
            continue
        d = os.path.join(work, "err-%d" % n)
        os.makedirs(d)
        p = subprocess.run(["strace", "-f", "-o", "/dev/null", "-e", "trace=" + x["name"], "-e", "inject=%s:error=EIO:when=%d" % (x["name"], x["idx"]),
                            exe, "writer", d, str(ncommits), str(seed)], capture_output=True, text=True, timeout=300)
        begun, done, failed, visible, ended = writer_markers(p.stdout)
        faults += 1
        where = "EIO injected into %s #%d (%s of commit %d)" % (x["name"], x["idx"], x["op"], x["commit"])
        if not ended:
            c.violation("fault:not-finished:%s" % x["op"], "%s: the writer did not finish its history: %s" % (where, p.stdout[-300:].replace("\n", " | ")), {"point": x, "stdout": p.stdout[-2000:]})
            continue
        kinds.add((x["op"], "fault", tuple(failed)))
        prev = json.load(open(os.path.join(d, "expected-0.json")))["sha"]
        ok = True
        for k in range(1, ncommits + 1):
            if k not in visible:
                continue
            want = json.load(open(os.path.join(d, "expected-%d.json" % k)))["sha"] if k in done else prev
            if visible[k] != want:
                ok = False
                c.violation("fault:visible:%s" % x["op"], "%s: commit %d %s but the state visible to clients is %s" % (
                    where, k, "reported success" if k in done else "reported the error", "not the committed one" if k in done else "not the last persisted one"), {"point": x, "stdout": p.stdout[-2000:]})
                break
            prev = visible[k]
        if ok and failed and max(failed) < ncommits and not [k for k in done if k > max(failed)]:
            c.violation("fault:later-commits:%s" % x["op"], "%s: no later commit succeeded" % where, {"point": x, "stdout": p.stdout[-2000:]})
        lp = subprocess.run([exe, "load", d], capture_output=True, text=True, timeout=120)
        try:
            rep = json.loads(lp.stdout.strip().splitlines()[-1])
        except (ValueError, IndexError):
            raise V.Inconclusive("c05 load produced no report")
        last_failed_state = None
        if failed and max(failed) == ncommits:
            last_failed_state = json.load(open(os.path.join(d, "expected-%d.json" % ncommits)))["sha"]
        if rep.get("load") != "ok" or rep.get("sha") not in (prev, last_failed_state):
            c.violation("fault:file:%s" % x["op"], "%s: afterwards the store file %s" % (where, "does not load: %s" % rep.get("error") if rep.get("load") != "ok" else "is neither the last visible state nor the state whose commit failed last"),
                        {"point": x, "report": {k: v for k, v in rep.items() if k != "dump"}})
    c.cov["fault_points"] = faults
    # ---- engine level: a Store that fails ---------------------------------------------------------------
    d = os.path.join(work, "failstore")
    os.makedirs(d)
    res = V.run([exe, "failstore", d, str(ncommits + 1), str(seed)], timeout=600)
    cases = 0
    for line in res.stdout.splitlines():
        if not line.startswith("{"):
            continue
        fc = json.loads(line)
        if fc.get("kind") != "case":
            continue
        cases += 1
        kinds.add(("failstore", fc["mode"], fc["after"], fc["commit"]))
        bad = []
        if not fc["reported"]:
            bad.append("the commit did not report the store's error")
        if not fc["catalog_ok"]:
            bad.append("engine.Catalog() is not the last persisted state")
        if not (fc["reload_ok"] or (fc["after"] and fc["reload_new"])):
            bad.append("the file is neither the last persisted state nor the failed one")
        if fc["probe"] != "ok":
            bad.append("a write after the failed commit does not succeed: %s" % fc["probe_error"])
        if not fc["later_ok"]:
            bad.append("later commits do not work: %s" % fc["detail"])
        if bad:
            c.violation("failstore:%s" % bad[0][:50], "Store call #%d fails (%s the inner write, %s mode): %s" % (fc["k"], "after" if fc["after"] else "before", fc["mode"], "; ".join(bad)), fc)
    c.cov["failstore_cases"] = cases
    c.cov["evaluations"] = kills + faults + cases
    c.cov["distinct_nontrivial"] = len(kinds)
    c.cov["traces_validated_against_impl"] = len(seen)
    c.cov["rule"] = ("every relevant system call (unlink/open/write/fsync/close of the temporary file, rename, open/fsync/close of the directory) of every commit of a %d-commit "
                     "history is once a kill point and once a failing call; the engine-level grid fails every Store call before/after the inner write in session and auto-commit mode; "
                     "distinct_nontrivial counts distinct (call, outcome) classes" % ncommits)
    c.cov["exhaustive"] = True
    c.assumptions += ["power loss is decided on CrashFS.tla's stated model of POSIX (unsynced file data and un-fsynced directory operations may be lost, in any subset), instantiated with the "
                      "system call sequence recorded from the real binary; kill and failing calls are decided on the real process",
                      "strace counts injected calls per thread; the writer pins the committing goroutine to the main thread"]
    return c.finish()
