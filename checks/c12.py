"""C12 - BSON comparison is a total order consistent with the MongoDB type order.

spec -> code: TLC evaluates BSON!Cmp on every ordered pair of the order pool
(sign matrix) after checking on the specification that Cmp is a total preorder
consistent with the class order on all pairs x K triples; the Go side compares
bsonkit.Compare with the matrix on every pair and checks antisymmetry and
transitivity/congruence on every triple of real results."""
import json
import os

import vcheck as V


def classify(r):
    """finding class of one disagreement (used for known-finding matching)"""
    if r["kind"] == "panic":
        return "panic:%s~%s" % (r["l"]["t"], r["r"]["t"])
    l, rr = r["l"], r["r"]
    if l["t"] == "num" and rr["t"] == "num":
        kinds = "~".join(sorted([l["k"], rr["k"]]))
        special = "nonfinite" if (l["sp"] != "fin" or rr["sp"] != "fin") else "finite"
        return "cmp:num:%s:%s" % (kinds, special)
    return "cmp:%s~%s" % (l["t"], rr["t"])


def run(tier, replay):
    c = V.Check("C12", tier, "model_checking")
    work = V.scratch()
    bins = V.build(["c12"], work)
    d = os.path.join(work, "d")
    os.makedirs(d)
    out = V.run([bins["c12"], "gen", d])
    n = json.loads(out.stdout.strip().splitlines()[-1])["pool"]
    # K: the third index of the triples checked on the specification
    if tier == "quick":
        step = 16
        ksel = list(range(1 + c.seed % step, n + 1, step))
    else:
        ksel = list(range(1, n + 1))
    json.dump(ksel, open(os.path.join(d, "ksel.json"), "w"))
    V.stage_spec(d, ["BSON.tla", "MC12.tla", "MC12.cfg"])
    r = V.tlc(d, "MC12.tla", cfg="MC12.cfg", timeout=1500)
    c.add_tlc(r)
    if r.violated:
        # the reference order itself is inconsistent: a defect of the spec, not a verdict on lungo
        raise V.Inconclusive("reference order violates %s on the pool:\n%s" % (r.violated, V.tail(r.output, 40)))
    res = V.run([bins["c12"], "check", d])
    summary = None
    for line in res.stdout.splitlines():
        rec = json.loads(line)
        if rec["kind"] == "summary":
            summary = rec
        elif rec["kind"] in ("disagree", "panic"):
            key = classify(rec)
            what = "Compare(%s, %s) = %s, reference order says %s" % (rec.get("lgo"), rec.get("rgo"), rec.get("impl"), rec.get("spec"))
            c.violation(key, what, rec)
        elif rec["kind"] in ("antisymmetry", "transitivity"):
            c.notes.append(rec)
    if summary is None:
        raise V.Inconclusive("c12 check produced no summary")
    # law violations on the real function that are not explained by a listed disagreement class
    if (summary["antisymmetry"] or summary["transitivity"] or summary["congruence"]) and not (c.violations or c.known_hits):
        c.violation("laws", "order laws fail on real results although every pair agrees with the reference", c.notes[:5])
    # ---- random pairs and triples (nested values, near-equal neighbours): BSON!Cmp on every recorded pair --------
    import pure
    from c10 import show
    nrand = 4000 if tier == "quick" else 40000
    rd = os.path.join(work, "rand")
    os.makedirs(rd)
    rsum, rrecs = pure.drive(c, bins["c12"], ["rand", rd, str(c.seed), str(nrand)], rd)
    for rec in rrecs:
        if rec.get("kind") == "law":
            c.violation("law:%s" % rec["law"], "bsonkit.Compare breaks %s on %s , %s%s: %s" % (
                rec["law"], rec.get("lgo"), rec.get("rgo"), (" , " + rec["mgo"]) if "mgo" in rec else "", {k: rec[k] for k in ("lr", "rl", "rm", "lm") if k in rec}), rec)
        elif rec.get("kind") == "panic":
            c.violation("panic:random", "bsonkit.Compare panics: %s on %s , %s" % (rec.get("panic"), show(rec["l"]), show(rec["r"])), rec)
    bads, lines, _, _ = pure.validate(c, rd)
    for b in bads:
        e = json.loads(lines[b["l"] - 1])
        c.violation("cmp:random:%s~%s" % (e["l"]["t"], e["r"]["t"]), "Compare(%s, %s) = %s, reference order (BSON!Cmp) says %s" % (show(e["l"]), show(e["r"]), e["res"], b["exp"]),
                    {"case": e, "spec": b})
    c.cov["random_pairs_validated"] = rsum["cases"]
    c.cov["random_law_checks_on_impl"] = rsum["law_checks"]
    c.cov["evaluations"] = summary["pairs"] + rsum["cases"]
    c.cov["distinct_nontrivial"] = len({(json.loads(l)["l"]["t"], json.loads(l)["r"]["t"], json.loads(l)["res"]) for l in lines[::5]})
    c.cov["traces_validated_against_impl"] = summary["pairs"] + rsum["cases"]
    c.cov["pairs_compared_on_impl"] = summary["pairs"]
    c.cov["triples_checked_on_impl"] = summary["triples"]
    c.cov["triples_checked_on_spec"] = n * n * len(ksel)
    c.cov["pool_values"] = n
    c.cov["disagreements"] = summary["disagree"]
    c.cov["law_failures_on_impl"] = {k: summary[k] for k in ("antisymmetry", "transitivity", "congruence")}
    c.cov["exhaustive"] = tier == "thorough"
    c.cov["rule"] = ("ordered pairs of the fixed order pool (all classes; numbers of all four kinds around 0, 2^24, 2^31, 2^53, 2^63, "
                     "non-finite, decimal representations); a pair counts once; triples i,j,k with k in the K selection on the spec, all triples on the implementation")
    pool = json.load(open(os.path.join(d, "pool.json")))
    c.sample({"pair": [pool[40], pool[120]], "note": "sign compared: bsonkit.Compare vs BSON!Cmp"})
    c.sample({"pair": [pool[n - 5], pool[3]]})
    c.assumptions += [
        "the exact decimal expansion of each pool number is computed by math/big in the harness (TLC cannot do 64-bit/decimal128 arithmetic)",
        "agreement with a total preorder on all pairs of the pool implies the order laws on every triple of the pool",
    ]
    return c.finish()
