"""C09 - change streams deliver each matching event once, in order, without stalls.

code -> spec (sequential): seeded histories of writes, drops and drop-database on three
namespaces with streams opened at random points on client / database / collection scope
from the start positions now, resumeAfter and startAfter (tokens of events an earlier
stream delivered) and startAt (timestamps of retained events); every TryNext call is
recorded with the complete history of the change log, the retention boundary, the
stream's start position and the number of events it has delivered; TLC judges each
call with Streams!NextOK (the next event of the scope, exactly; invalidate after a
drop of the scope; the lost-position error when an undelivered event was discarded;
nothing otherwise).  A retention scenario trims the log under a slow consumer; a
scenario with a rejecting store and engine-level aborts checks that uncommitted
writes reach no stream.
code -> spec (concurrent): writers commit in bursts while five consumers block in Next
under the verif hooks (yields in the window between the consumer's check and its wait
and around the commit's broadcast); after every burst a watchdog requires every
consumer to have caught up within 3 s although no further commit comes; blocked
consumers must be woken by Close and by context cancellation within 1 s; the
delivered sequences are judged by TLC with Streams!DeliveredOK.
spec: StreamProto (PlusCal) model checks the wake-up protocol: with the buffered signal
channel every committed event is eventually delivered under weak fairness and a close
releases the consumer (the unbuffered variant exhibits the lost wake-up); MCStreams model checks that a consumer following the specification never skips,
duplicates or reorders while commits and retention interleave."""
import json
import os

import vcheck as V
import concrun


def validate(c, d):
    V.stage_spec(d, ["Streams.tla", "TraceStreams.tla", "TraceStreams.cfg"])
    r = V.tlc(d, "TraceStreams.tla", cfg="TraceStreams.cfg", timeout=1800)
    c.add_tlc(r)
    if r.violated:
        raise V.Inconclusive("TraceStreams stopped: %s\n%s" % (r.violated, V.tail(r.output, 30)))
    lines = open(os.path.join(d, "trace.ndjson")).read().splitlines()
    return V.tlc_prints(r.output, "BAD"), lines


def run(tier, replay):
    c = V.Check("C09", tier, "model_checking")
    work = V.scratch()
    bins = V.build(["strm"], work)
    nontrivial = set()
    jobs = [["seq", c.seed * 10 + i, 40 if tier == "quick" else 150] for i in range(1 if tier == "quick" else 4)]
    jobs += [["conc", c.seed * 10 + i, 4 if tier == "quick" else 12] for i in range(1 if tier == "quick" else 4)]
    jobs += [["retain", c.seed * 10 + i, 4 if tier == "quick" else 12] for i in range(1 if tier == "quick" else 3)]     # consumers of different speed under retention
    for mode, seed, n in jobs:
        d = os.path.join(work, "%s-%d" % (mode, seed))
        os.makedirs(d)
        summary, recs = concrun.record(c, bins["strm"], [mode, d, seed, n])
        concrun.findings(c, recs, ("stall", "stream", "panic"), "C09")
        if summary.get("aborted"):
            continue          # the driver stopped at a wedged engine (reported above); its trace is incomplete
        bads, lines = validate(c, d)
        for b in bads:
            e = json.loads(lines[b["l"] - 1])
            if e["fn"] == "sprefix":
                txt = "%s: a consumer on scope %s received %d events %s%s while the engine trimmed its change log; the scope's events are %d: %s ... (a consumer may stop early only with the lost-position error, and never skips)" % (
                    b["what"], e["scope"], len(e["delivered"]), e["delivered"][:8], " and then the lost-position error" if e["lost"] else "", len(b["exp"]), b["exp"][:8])
            elif e["fn"] == "snext":
                txt = "%s: TryNext on a %s stream (scope %s, start position %d, %d delivered) returned %s; change-log history %s (retained from #%d); the scope's deliveries are events %s" % (
                    b["what"], e["kind"], e["scope"], e["start"], e["k"], e["res"], [(x["db"], x["coll"], x["op"]) for x in e["log"]], e["first"], b["exp"])
            else:
                txt = "%s: a consumer blocked in Next on scope %s received %s; the scope's events are %s of history %s" % (
                    b["what"], e["scope"], e["delivered"], b["exp"], [(x["db"], x["coll"], x["op"], x["id"]) for x in e["log"]])
            c.violation(b["what"], txt[:1500], {"event": e, "spec": b})
        c.add("traces_validated_against_impl", n)
        c.add("stream_calls_validated", summary["cases"])
        for i, line in enumerate(lines):
            e = json.loads(line)
            if e["fn"] == "sprefix":
                nontrivial.add(("sprefix", tuple(e["scope"]), e["lost"], len(e["delivered"]) > 0))
                continue
            if e["fn"] == "snext":
                nontrivial.add((e["kind"], tuple(bool(x) for x in e["scope"]), e["res"]["ok"], e["res"]["op"] if e["res"]["op"] in ("invalidate", "drop", "dropDatabase") else "", e["res"]["err"]))
                if len(c.cov["samples"]) < 3 and e["res"]["ok"] and i % 50 == 0:
                    c.sample({"stream": e["kind"], "scope": e["scope"], "start": e["start"], "delivered_before": e["k"], "returned": e["res"], "log": [(x["db"], x["coll"], x["op"]) for x in e["log"]]})
            else:
                nontrivial.add(("sdeliv", tuple(e["scope"]), len(e["delivered"]) > 0))
    d = os.path.join(work, "mc")
    os.makedirs(d)
    V.stage_spec(d, ["Streams.tla", "MCStreams.tla", "MCStreams.cfg"])
    r = V.tlc(d, "MCStreams.tla", cfg="MCStreams.cfg", timeout=900)
    c.add_tlc(r)
    if r.violated:
        raise V.Inconclusive("MCStreams: %s violated on the model" % r.violated)
    # the wake-up protocol (PlusCal): liveness under weak fairness with lungo's buffered signal channel
    for cfg in ["MCStreamProto.cfg", "MCStreamProtoClose.cfg"] + (["MCStreamProtoUnbuffered.cfg"] if tier == "thorough" else []):
        d = os.path.join(work, "sp-" + cfg)
        os.makedirs(d)
        V.stage_spec(d, ["StreamProto.tla", cfg])
        r = V.tlc(d, "StreamProto.tla", cfg=cfg, timeout=600, workers=2)
        c.add_tlc(r)
        if cfg.endswith("Unbuffered.cfg"):
            c.cov["model_exhibits_lost_wakeup_without_buffer"] = bool(r.violated)
        elif r.violated:
            raise V.Inconclusive("StreamProto (%s): %s violated on the model" % (cfg, r.violated))
    c.cov["distinct_nontrivial"] = len(nontrivial)
    c.cov["evaluations"] = c.cov.get("stream_calls_validated", 0)
    c.cov["rule"] = ("sequential histories (14 steps, up to 6 streams, 6 scopes x 4 start kinds) with every TryNext judged; concurrent runs (3 writers x 12 bursts, 5 blocked "
                     "consumers, yields at hook windows); distinct_nontrivial counts distinct (start kind, scope shape, outcome) tuples")
    c.assumptions += ["liveness on real code is a bounded-wait observation: 15 s after the writers went quiet, 5 s for close/cancel wake-ups",
                      "startAt uses timestamps of retained events; pipelines are unsupported by lungo (documented panic) and not used"]
    return c.finish()
