"""C03 - transactions are all-or-nothing and readers see immutable snapshots.

code -> spec: seeded histories interleave, one call at a time, a session with explicit
transactions (start, CRUD calls, commit against a store that accepts or rejects, abort,
end of session), a plain second client (reads; writes with a 50 ms context while the
transaction is open) and a snapshot taker (read-only transactions, catalogs obtained
earlier, partially consumed cursors).  TLC judges every recorded step:
 - a call inside the transaction is validated by Database!Exec on the transaction's
   working catalog (reads see the transaction's own writes) and must leave the
   committed catalog byte-identical (documents, change log, index definitions);
 - plain reads are validated on the committed catalog; plain writes while the
   transaction is open must fail and change nothing;
 - a successful commit makes the committed catalog equal to the working catalog, all
   at once; a commit whose store rejects, an abort and the end of the session leave the
   committed catalog unchanged;
 - every retained snapshot is re-dumped after every later step (BSON bytes of every
   document of every namespace incl. the change log, index definitions and listings)
   and must be identical; cursors must return what was there when they were opened.
spec: MCTxn checks SnapshotsImmutable, AllOrNothing and NoDirtyRead on Txn.tla."""
import os

import vcheck as V
import dbtrace


def run(tier, replay):
    c = V.Check("C03", tier, "model_checking")
    work = V.scratch()
    bins = V.build(["dbt"], work)
    nontrivial = set()
    modes = [("txn", c.seed * 1000 + i, [25, 40] if tier == "quick" else [30, 50]) for i in range(1 if tier == "quick" else 8)]   # snapshot re-dumps make a run quadratic in its length: many medium runs
    dbtrace.CLASSES["C03"] = ("snapshot:", "visibility:", "txn-result:", "txn-state:", "result:", "state:", "events:", "failed-write-changed-state:", "index-content:", "structure:")
    dbtrace.run_modes(c, "C03", bins, work, modes, nontrivial)
    # ---- spec -> code: every behaviour of Txn.tla up to a depth bound, replayed on real engines -------------------
    import json
    d = os.path.join(work, "gentxn")
    os.makedirs(d)
    V.stage_spec(d, ["Txn.tla", "GenTxn.tla", "GenTxn.cfg"])
    json.dump({"depth": 6 if tier == "quick" else 7}, open(os.path.join(d, "mcparams.json"), "w"))
    r = V.tlc(d, "GenTxn.tla", cfg="GenTxn.cfg", timeout=1800, heap="16g")
    c.add_tlc(r)
    if r.violated:
        raise V.Inconclusive("GenTxn stopped: %s" % r.violated)
    npaths = 0
    with open(os.path.join(d, "paths.ndjson"), "w") as f:
        for line in r.output.splitlines():
            if line.startswith('<<"PATH", "'):
                f.write(line[len('<<"PATH", "'):-3].replace('\\"', '"') + "\n")
                npaths += 1
    if npaths == 0:
        raise V.Inconclusive("GenTxn emitted no behaviours")
    summary, recs = dbtrace.record(c, bins["dbt"], "txnreplay", d, c.seed, [os.path.join(d, "paths.ndjson")])
    if summary.get("cases") != npaths:
        raise V.Inconclusive("the replayer read %s of %d behaviours" % (summary.get("cases"), npaths))
    for rec in recs:
        if rec.get("kind") == "txnreplay":
            c.violation("txn-replay:%s" % rec["what"].split(":", 1)[-1][:60], "behaviour %s of the transaction model replayed on the real engine: %s" % (
                " ".join(rec["path"]), rec["what"]), rec)
    c.cov["model_behaviours_replayed_on_impl"] = npaths
    d = os.path.join(work, "mc")
    os.makedirs(d)
    V.stage_spec(d, ["Txn.tla", "MCTxn.tla", "MCTxn.cfg"])
    r = V.tlc(d, "MCTxn.tla", cfg="MCTxn.cfg", timeout=600)
    c.add_tlc(r)
    if r.violated:
        raise V.Inconclusive("MCTxn: %s violated on the model" % r.violated)
    c.cov["rule"] = ("interleaved histories of one transactional session, a plain client and a snapshot taker; every step judged, every retained snapshot re-dumped after every "
                     "later step; distinct_nontrivial counts distinct (event kind, actor/decision, outcome) tuples")
    c.assumptions += ["calls are interleaved one at a time (property text); concurrent schedules are C04's", "index management and drops are refused inside a transaction and are not issued there"]
    return c.finish()
