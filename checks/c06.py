"""C06 - persist-and-reload returns the identical database.

code -> spec: seeded random histories run on a FileStore; at random points (and at the
end) the engine is closed and a new one opened on the same file.  The state before
and after (documents in natural order, index definitions incl. unique / partial /
expiry / name, index listings, the complete change log, and the BSON bytes of every
document as opaque canonical tokens) is recorded as a reload event and judged by TLC
(TraceDB!CheckReload: Store!Reload is the identity).  The history then continues on the
reopened engine and every later call is validated against Database!Exec like in C01, so
constraints must be enforced, not just listed.  A typed-pool scenario stores every
supported type at its edges (all four numeric kinds incl. NaN, -0, infinities, extreme
exponents, decimal128 representations of one value, binary subtypes, timestamps,
regexes, null, dates at the int64 edges, empty and nested containers) as field values,
array elements, embedded values and _id, with unique+partial, TTL(0), TTL(3600) and
nested-path indexes; a retention scenario closes right after a commit that trimmed the
change log."""
import vcheck as V
import dbtrace


def run(tier, replay):
    c = V.Check("C06", tier, "model_checking")
    work = V.scratch()
    bins = V.build(["dbt"], work)
    nontrivial = set()
    modes = [("reload", c.seed * 1000 + i, [12, 25] if tier == "quick" else [40, 40]) for i in range(1 if tier == "quick" else 5)]
    dbtrace.CLASSES["C06"] = ("reload:", "result:", "state:", "events:", "index-content:", "unique:", "id-index-missing:", "structure:")
    dbtrace.run_modes(c, "C06", bins, work, modes, nontrivial)
    c.cov["rule"] = ("random histories on a file store with a reopen at ~12% of the steps and at the end, the typed-pool fidelity scenario (66 values x 4 positions, 5 index "
                     "configurations, 4 reopens, constraint probes) and a retention scenario; distinct_nontrivial counts distinct (call kind, failed?, changed?, events?) tuples "
                     "plus reload events by (documents?, indexes?, log length)")
    c.assumptions += ["BSON bytes are opaque tokens: TLA+ decides that reload is the identity on tokens and on behaviour, not that the codec is right outside the typed pool",
                      "timestamps in pools stay below 2^31 (TLC integers)"]
    return c.finish()
