"""C08 - the change log is a faithful, gap-free, ordered record of committed changes.

code -> spec: for every recorded call (change-log scenarios: multi-document updates
whose events are document dependent for 17 operator shapes, no-op writes, failed
writes, drops and drop-database; the failure grid; random histories) TLC checks on the
observation itself that (a) the new events are exactly Database!Exec's events, in
order, none for failed / no-op calls, (b) replaying the new events onto the contents
before the call gives the contents after it (Database!Replay), (c) for update events
the recorded updated/removed fields applied to the previous version give the new
version up to field order (Database!ApplyDescription), (d) event ids strictly
increase over the whole log.  Retention: the real Transaction.Clean is called on
18,900 crafted change logs (every configuration of the grid) and a real engine with
small limits is run across a 2.2 s pause; TLC judges every observed removal with
Oplog!CleanRef / EnvelopeOK.
spec: MCOplog proves that the loop of Clean removes exactly what the property demands."""
import os

import vcheck as V
import dbtrace


def run(tier, replay):
    c = V.Check("C08", tier, "model_checking")
    work = V.scratch()
    bins = V.build(["dbt"], work)
    nontrivial = set()
    modes = [("oplog", c.seed, []), ("clean", c.seed, []), ("kth", c.seed, []), ("ttl", c.seed, []), ("parked", c.seed, [])]   # ttl: the delete events of real expiry passes
    dbtrace.CLASSES["C08"] = dbtrace.CLASSES["C08"] + ("expire:events", "expire:foreign-event", "expire:event-ids", "expire:abandoned-pass",
                                                     "visibility:writer-queued")
    for i in range(1 if tier == "quick" else 6):
        modes.append(("hist", c.seed * 1000 + 300 + i, [60, 30] if tier == "quick" else [250, 40]))
    dbtrace.run_modes(c, "C08", bins, work, modes, nontrivial)
    d = os.path.join(work, "mc")
    os.makedirs(d)
    V.stage_spec(d, ["Oplog.tla", "MCOplog.tla", "MCOplog.cfg"])
    r = V.tlc(d, "MCOplog.tla", cfg="MCOplog.cfg", timeout=600)
    c.add_tlc(r)
    if r.violated:
        raise V.Inconclusive("MCOplog: the specification's Clean loop deviates from the property on the model (%s)" % r.violated)
    c.cov["retention_configurations"] = c.cov.get("calls_clean", 0)
    c.cov["rule"] = ("change-log scenarios, failure grid and random histories (every call judged on its own pre/post observation) plus the exhaustive retention grid "
                     "(log length 0..6, ages {5,50,500}s, min/max size 0..4, min age {0,10,100}s, max age {10,100,1000}s); distinct_nontrivial counts distinct "
                     "(call kind, failed?, state changed?, events?) tuples")
    c.assumptions += ["ages keep >= 5 s from every cutoff in the grid (timestamps have second granularity)", "maxAge = 0 is not in the domain",
                      "aborted transactions are covered by C03"]
    return c.finish()
