"""C01 - CRUD through the driver API matches a sequential MongoDB reference model.

code -> spec: seeded random histories of driver calls (every call kind of the
property: insert one/many, find, count, distinct, update one/many, replace, delete,
find-one-and-*, bulk write, upsert, index calls, drops) run on a fresh real engine
each; every call is recorded with the full observed state before and after and the
new change events.  TLC evaluates Database!Exec (spec/Database.tla over Query, Update,
SortDistinct, Projection) on the observed pre-state of every call and compares the
result (counts, ids, documents, error-or-success), the complete post-state of every
collection (documents in natural order, index definitions) and the change events.
spec -> code: TLC enumerates every transition (reachable state, call) of the bounded
model MCDatabase (GenDatabase.tla: depth 2 quick / 3 thorough over 13 documents, 4
filters, 4 updates, a unique index, drops) with the expected result and post-state;
each is replayed on a fresh real engine (pre-state installed through the API) and
compared.  MCDatabase itself checks Unique, IdIndexAlways, FailedUnchanged, ReplayHolds
and NaturalOrder in every reachable state of the model."""
import os

import vcheck as V
import dbtrace


def run(tier, replay):
    c = V.Check("C01", tier, "model_checking")
    work = V.scratch()
    bins = V.build(["dbt", "strtab"], work)
    nontrivial = set()
    modes = [("kth", c.seed, []), ("uniq", c.seed, []), ("oplog", c.seed, []), ("index", c.seed, []), ("nested", c.seed, []), ("options", c.seed, [])]
    for i in range(1 if tier == "quick" else 8):
        modes.append(("hist", c.seed * 1000 + i, [120, 30] if tier == "quick" else [300, 40]))
    nc = 30 if tier == "quick" else 40
    dbtrace.run_modes(c, "C01", bins, work, modes, nontrivial)
    # ---- spec -> code: every transition of the bounded model replayed on a fresh real engine -------------
    import json
    d = os.path.join(work, "gen")
    os.makedirs(d)
    V.run([bins["strtab"], d, "d.c1", "a", "a_1", "d", "c1", "b", "b_1", "_id", "_id_"])
    V.stage_spec(d, V.PURE_SPECS + ["Database.tla", "MCDatabase.tla", "MCDatabase.cfg", "GenDatabase.tla", "GenDatabase.cfg"])
    json.dump({"big": tier == "thorough", "depth": 2 if tier == "quick" else 3}, open(os.path.join(d, "mcparams.json"), "w"))
    r = V.tlc(d, "GenDatabase.tla", cfg="GenDatabase.cfg", timeout=3000)
    c.add_tlc(r)
    if r.violated:
        raise V.Inconclusive("GenDatabase stopped: %s" % r.violated)
    nsteps = 0
    with open(os.path.join(d, "steps.ndjson"), "w") as f:
        for line in r.output.splitlines():
            if line.startswith('<<"STEP", "'):
                f.write(line[len('<<"STEP", "'):-3].replace('\\"', '"') + "\n")
                nsteps += 1
    if nsteps == 0:
        raise V.Inconclusive("GenDatabase emitted no transitions")
    summary, recs = dbtrace.record(c, bins["dbt"], "replay", d, c.seed, [os.path.join(d, "steps.ndjson")])
    for rec in recs:
        if rec.get("kind") == "harness":
            raise V.Inconclusive("replayer: %s" % rec.get("what"))
        if rec.get("kind") == "replay":
            c.violation("replay:%s:%s" % (rec.get("op"), rec["what"][:50]), "specification behaviour replayed on the real engine: %s; call %s %s on the state %s" % (
                rec["what"], rec.get("op"), json.dumps(rec.get("a"))[:400], json.dumps(rec.get("pre"))[:600]), rec)
    c.cov["model_transitions_replayed_on_impl"] = nsteps
    # ---- the bounded model itself ------------------------------------------------------------------------
    r = V.tlc(d, "MCDatabase.tla", cfg="MCDatabase.cfg", timeout=3000)
    c.add_tlc(r)
    if r.violated:
        raise V.Inconclusive("MCDatabase: %s violated on the model" % r.violated)
    c.cov["distinct_nontrivial"] = len(nontrivial)
    c.cov["evaluations"] = c.cov.get("calls_validated", 0)
    c.cov["rule"] = ("seeded histories of %d calls over 3 namespaces with collision-rich pools (ids and values equal across numeric kinds, arrays sharing elements, "
                     "missing vs null, ill-formed filters/updates/indexes); distinct_nontrivial counts distinct (call kind, failed?, state changed?, events logged?) "
                     "tuples in a 1/3 sample") % nc
    c.assumptions += ["error classes are compared as error-or-success (property text); generated _ids are bound from the observation and must be fresh ObjectIDs",
                      "$currentDate is excluded from engine-level histories (C11 covers it)"]
    return c.finish()
