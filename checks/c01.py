"""C01 - CRUD through the driver API matches a sequential MongoDB reference model.

code -> spec: seeded random histories of driver calls (every call kind of the
property: insert one/many, find, count, distinct, update one/many, replace, delete,
find-one-and-*, bulk write, upsert, index calls, drops) run on a fresh real engine
each; every call is recorded with the full observed state before and after and the
new change events.  TLC evaluates Database!Exec (spec/Database.tla over Query, Update,
SortDistinct, Projection) on the observed pre-state of every call and compares the
result (counts, ids, documents, error-or-success), the complete post-state of every
collection (documents in natural order, index definitions) and the change events."""
import os

import vcheck as V
import dbtrace


def run(tier, replay):
    c = V.Check("C01", tier, "model_checking")
    work = V.scratch()
    bins = V.build(["dbt"], work)
    nontrivial = set()
    modes = [("kth", c.seed, []), ("uniq", c.seed, []), ("oplog", c.seed, []), ("index", c.seed, [])]
    for i in range(1 if tier == "quick" else 8):
        modes.append(("hist", c.seed * 1000 + i, [120, 30] if tier == "quick" else [300, 40]))
    nc = 30 if tier == "quick" else 40
    dbtrace.run_modes(c, "C01", bins, work, modes, nontrivial)
    c.cov["distinct_nontrivial"] = len(nontrivial)
    c.cov["evaluations"] = c.cov.get("calls_validated", 0)
    c.cov["rule"] = ("seeded histories of %d calls over 3 namespaces with collision-rich pools (ids and values equal across numeric kinds, arrays sharing elements, "
                     "missing vs null, ill-formed filters/updates/indexes); distinct_nontrivial counts distinct (call kind, failed?, state changed?, events logged?) "
                     "tuples in a 1/3 sample") % nc
    c.assumptions += ["error classes are compared as error-or-success (property text); generated _ids are bound from the observation and must be fresh ObjectIDs",
                      "$currentDate is excluded from engine-level histories (C11 covers it)"]
    return c.finish()
