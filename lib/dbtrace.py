"""Shared steps of the engine-level checks: record histories of driver calls on the
real engine (harness cmd/dbt), validate them with TLC against Database.tla
(TraceDB.tla) and hand the BAD lines, classified, to the property checks."""
import json
import os
import shutil

import vcheck as V
from c10 import show

DB_SPECS = V.PURE_SPECS + ["Database.tla", "Oplog.tla", "TraceDB.tla", "TraceDB.cfg"]

# which observation classes decide which property
CLASSES = {
    "C01": ("result:", "state:", "events:", "generated-id:"),
    "C02": ("failed-write-changed-state:", "state-after-failure:", "batch-items:"),
    "C07": ("unique:", "spurious-uniqueness-error:", "missed-uniqueness-error:"),
    "C08": ("events:", "replay:", "update-description:", "event-ids:", "retention:"),
    "C15": ("index-content:", "id-index-missing:", "structure:", "index-definition:"),
    "C06": ("reload:",),
    "C17": ("alias:",),
    "C19": ("expire:",),
    "C03": ("snapshot:", "visibility:", "txn-result:", "txn-state:"),
}


def brief_call(e):
    a = e.get("a", {})
    parts = []
    for k in ("q", "doc", "upd", "repl", "sort", "proj", "key"):
        if k in a and isinstance(a[k], dict) and a[k].get("t") not in (None, "missing"):
            parts.append("%s=%s" % (k, show(a[k])))
    for k in ("docs", "models"):
        if k in a:
            if k == "docs":
                parts.append("docs=[%s]" % ", ".join(show(x) for x in a[k]))
            else:
                parts.append("models=[%s]" % "; ".join("%s %s %s" % (m["kind"], show(m["q"]), show(m["doc"])) for m in a[k]))
    for k in ("upsert", "ordered", "after", "name", "unique", "skip", "limit", "path"):
        if k in a and a[k] not in (False, 0, ""):
            parts.append("%s=%s" % (k, a[k]))
    return "%s(%s) on %s" % (e["op"], ", ".join(parts), e["ns"])


def brief_state(st):
    out = []
    for ns in sorted(st):
        out.append("%s: [%s] idx=%s" % (ns, ", ".join(show(d) for d in st[ns]["docs"]), [i["name"] for i in st[ns]["idx"]]))
    return "; ".join(out)


def record(c, binary, mode, d, seed, extra, timeout=900):
    """Run the driver; returns (summary, findings)."""
    res = V.run([binary, mode, d, str(seed)] + [str(x) for x in extra], timeout=timeout)
    summary, recs = None, []
    for line in res.stdout.splitlines():
        line = line.strip()
        if not line.startswith("{"):
            continue
        rec = json.loads(line)
        if rec.get("kind") == "summary":
            summary = rec
        else:
            recs.append(rec)
    if summary is None:
        raise V.Inconclusive("dbt produced no summary (%s)" % mode)
    return summary, recs


MAX_BYTES = 40 << 20     # a trace is validated in parts of at most this size: TLC holds the whole parsed trace in memory
MAX_LINES = int(os.environ.get("VERIF_MAX_LINES", "12000"))


def validate(c, d, timeout=3000):
    """TLC (TraceDB) over d/trace.ndjson.  Every line is self-contained, so a large trace is cut into parts that are
    validated one after the other; the line numbers of the BAD records refer to the whole trace."""
    lines = open(os.path.join(d, "trace.ndjson")).read().splitlines()
    parts, cur, size = [], [], 0
    for l in lines:
        if cur and (size + len(l) > MAX_BYTES or len(cur) >= MAX_LINES):
            parts.append(cur)
            cur, size = [], 0
        cur.append(l)
        size += len(l) + 1
    parts.append(cur)
    bads, offset, indom, outdom = [], 0, 0, 0
    for i, part in enumerate(parts):
        pd = d
        if len(parts) > 1:
            pd = os.path.join(d, "part-%d" % i)
            os.makedirs(pd)
            with open(os.path.join(pd, "trace.ndjson"), "w") as f:
                f.write("\n".join(part) + "\n")
            shutil.copy(os.path.join(d, "strings.json"), os.path.join(pd, "strings.json"))
        V.stage_spec(pd, DB_SPECS)
        r = V.tlc(pd, "TraceDB.tla", cfg="TraceDB.cfg", timeout=timeout)
        c.add_tlc(r)
        if r.violated:
            raise V.Inconclusive("TraceDB stopped: %s\n%s" % (r.violated, V.tail(r.output, 30)))
        indom += sum(1 for l in r.output.splitlines() if l.startswith('<<"INDOM"'))
        outdom += sum(1 for l in r.output.splitlines() if l.startswith('<<"OUTDOM"'))
        for b in V.tlc_prints(r.output, "BAD"):
            b["l"] += offset
            bads.append(b)
        offset += len(part)
        if len(parts) > 1:
            shutil.rmtree(pd, ignore_errors=True)
    c.add("calls_in_query_and_sort_domain", indom)
    c.add("calls_outside_domain_selection_not_judged", outdom)
    return bads, lines


def judge(c, prop, bads, lines, recs):
    """Turn BAD lines / driver findings that belong to prop into violations."""
    prefixes = CLASSES[prop]
    for rec in recs:
        kind = rec.get("kind", "") + ":"
        if kind == "panic:":
            continue          # panics are C20's; the step itself is not recorded
        if kind.startswith(prefixes):
            c.violation("%s%s" % (kind, rec.get("what", "")[:60]), "%s (real code, history %s step %s) %s" % (
                rec.get("what"), rec.get("hist"), rec.get("step"), json.dumps({k: v for k, v in rec.items() if k in ("ns", "op")})), rec)
    for b in bads:
        what = b["what"]
        if not what.startswith(prefixes):
            continue
        e = json.loads(lines[b["l"] - 1])
        if e.get("fn") == "proto":
            evs = e["events"]
            i = next((k for k, x in enumerate(evs) if x["p"] == what.split(":", 1)[1]), 0)
            c.violation(what, "%s in run %s: hook events around the offending one: %s (expected holder/state %s)" % (
                what, e.get("hist"), [(x["g"], x["p"], x["t"]) for x in evs[max(0, len(evs) - 12):]] if "not-released" in what else [(x["g"], x["p"], x["t"]) for x in evs[max(0, i - 8):i + 3]],
                b["exp"]), {"spec": b, "tail": evs[-30:]})
            continue
        if e.get("fn") == "txnseq":
            c.violation(what, "%s: session transaction [%s] (committed=%s); catalog at its linearization point {%s}; published {%s}" % (
                what, "; ".join(brief_call(x) for x in e["calls"]), e["committed"], brief_state(e["pre"])[:500], brief_state(e["post"])[:500]), {"event": e, "spec": b})
            continue
        if e.get("fn") in ("txn", "blocked", "snapcheck"):
            if e["fn"] == "snapcheck":
                txt = "a %s taken earlier (snapshot %s) returned different contents after step %s of history %s" % (e["kind"], e["id"], e["step"], e["hist"])
            elif e["fn"] == "txn":
                txt = "%s of the session transaction (error=%s, store rejected=%s): %s; committed before {%s}; working copy {%s}; committed after {%s}" % (
                    e["what"], e["err"], e.get("storefail"), what, brief_state(e["cpre"]["state"])[:400], brief_state(e["wpre"]["state"])[:400], brief_state(e["cpost"]["state"])[:400])
            else:
                txt = "%s while a session transaction is open: %s; error=%s; committed before {%s} after {%s}" % (e["op"], what, e["err"], brief_state(e["cpre"]["state"])[:400], brief_state(e["cpost"]["state"])[:400])
            c.violation(what, txt, {"spec": b, "hist": e.get("hist"), "step": e.get("step")})
            continue
        if e.get("fn") == "mutate":
            c.violation(what, "after %s (%s): the database changed although this is a stuttering step: %s" % (e["op"], {"read": "a read-only call", "arguments": "the caller overwrote the arguments in place", "results": "the caller overwrote the returned values in place"}.get(e["what"], e["what"]),
                        "stored documents differ" if e["pre"]["tok"] != e["post"]["tok"] else "observed state differs"),
                        {"op": e["op"], "what": e["what"], "before": brief_state(e["pre"]["state"])[:1500], "after": brief_state(e["post"]["state"])[:1500]})
            continue
        if e.get("fn") == "reload":
            c.violation(what, "%s: closing and reopening the file-backed database (history %s step %s): before {%s} log=%d events; after {%s} log=%d events%s" % (
                what, e.get("hist"), e.get("step"), brief_state(e["pre"])[:500], len(e["preev"]), brief_state(e["post"])[:500], len(e["postev"]),
                (" load error: " + e["msg"]) if e.get("err") else ""), {"spec": b, "pre": e["pre"], "post": e["post"]})
            continue
        if e.get("fn") == "expire":
            c.violation(what, "%s: TTL pass (%s); state before: {%s}; state after: {%s}; events: %s" % (
                what, e.get("via"), brief_state(e["pre"])[:600], brief_state(e["post"])[:600], [(x["op"], x["ns"], show(x["key"])) for x in e["ev"]][:12]), {"event": e, "spec": b})
            continue
        if e.get("fn") == "clean":
            c.violation(what, "%s: %s removed %d of %d events (ages %s s, minSize=%d maxSize=%d minAge=%ds maxAge=%ds); the property demands %s" % (
                what, "the engine's commit" if e.get("engine") else "Transaction.Clean", e["dropped"], e["len"], e["ages"], e["minSize"], e["maxSize"],
                e["minAge"], e["maxAge"], b["exp"]), {"event": e, "spec": b})
            continue
        txt = "%s: %s; state before: {%s}; result: %s; state after: {%s}" % (
            what, brief_call(e), brief_state(e["pre"]),
            ("error (%s)" % e["res"].get("msg", "")) if e["res"]["err"] else json.dumps({k: v for k, v in e["res"].items() if k in ("n", "count") and v}),
            brief_state(e["post"]))
        c.violation(what, txt[:1500], {"event": e, "spec": b})


def cover(c, lines, nontrivial, stride=3):
    for i, line in enumerate(lines):
        if i % stride and '"fn":"call"' in line[:400]:
            continue
        e = json.loads(line)
        if e.get("fn") == "clean":
            if i % 50 == 0:
                nontrivial.add(("clean", e["len"], e["dropped"], e["minSize"], e["maxSize"]))
            continue
        if e.get("fn") == "txnseq":
            nontrivial.add(("txnseq", e["committed"], len(e["ev"])))
            continue
        if e.get("fn") == "proto":
            continue
        if e.get("fn") in ("txn", "blocked", "snapcheck"):
            nontrivial.add((e["fn"], e.get("what") or e.get("kind") or e.get("op"), e.get("err"), e.get("storefail")))
            continue
        if e.get("fn") == "mutate":
            nontrivial.add(("mutate", e["op"], e["what"]))
            continue
        if e.get("fn") == "reload":
            nontrivial.add(("reload", min(len(e["pre"]), 3), min(sum(len(n["idx"]) for n in e["pre"].values()), 6), min(len(e["preev"]), 10)))
            continue
        if e.get("fn") == "expire":
            nontrivial.add(("expire", e.get("via"), e["pre"] != e["post"], len(e["ev"]) > 0))
            continue
        if e.get("fn") != "call":
            continue
        changed = e["pre"] != e["post"]
        nontrivial.add((e["op"], e["res"]["err"], changed, len(e["ev"]) > 0, e.get("actor", "")))
        if len(c.cov["samples"]) < 4 and i % 997 == 0:
            c.sample({"call": brief_call(e), "before": brief_state(e["pre"])[:300], "error": e["res"]["err"], "after": brief_state(e["post"])[:300]})


def run_modes(c, prop, bins, work, modes, nontrivial):
    """modes: list of (mode, seed, extra args). Records, validates, judges."""
    for mode, seed, extra in modes:
        d = os.path.join(work, "%s-%s" % (mode, seed))
        os.makedirs(d)
        summary, recs = record(c, bins["dbt"], mode, d, seed, extra)
        bads, lines = validate(c, d)
        judge(c, prop, bads, lines, recs)
        c.add("traces_validated_against_impl", summary["histories"])
        c.add("calls_validated", summary["cases"])
        c.add("failing_calls", sum(summary["errors"].values()))
        c.add("calls_" + mode, summary["cases"])
        cover(c, lines, nontrivial)
    c.cov["distinct_nontrivial"] = len(nontrivial)
    c.cov["evaluations"] = c.cov.get("calls_validated", 0)
