"""Source of MANIFEST.json (bin/mkmanifest). One entry per claimed property."""

HOOK_COMMITS = []

NOT_APPLICABLE = {}

CHECKS = {
    "C10": {
        "level": "model_checking",
        "text": "Every generated (document, filter) case is evaluated by the real mongokit.Match and by TLC on Query!MatchImpl (all inputs) and, "
                "inside the core domain of DESIGN.md section 8, on the independent reference QueryRef!MatchRef; the logical laws are evaluated on real "
                "code over the whole law domain; TLC additionally proves MatchImpl = MatchRef and the laws on a bounded universe exhaustively.",
        "note": "Trusted: the tagged encoding of values (harness/enc) and the string table; numbers in $mod/$bits/$size operands stay below 10^9 "
                "(TLC integers); $jsonSchema keyword subset only.",
        "technique": "TLA+ specification of query semantics (impl-shaped + declarative reference) checked by TLC; code->spec validation of recorded mongokit.Match evaluations",
    },
    "C11": {
        "level": "model_checking",
        "text": "Every generated (document, update, arrayFilters, upsert) case is applied by the real mongokit.Apply (and a third of them through "
                "InsertOne/UpdateOne/FindOne) and evaluated by TLC on Update!Apply, whose numeric rules are MongoDB's promotion table over exact decimal "
                "arithmetic; rejection, resulting document and recorded changes must agree; idempotence and modified-count are checked on real results; "
                "TLC proves idempotence / untouched fields / change-record soundness of the specification on a bounded universe.",
        "note": "Trusted: tagged encoding; doubles take part in arithmetic only where the exact result is representable; $bit operands < 2^30; $currentDate is an opaque token.",
        "technique": "TLA+ specification of update operators checked by TLC; code->spec validation of recorded mongokit.Apply evaluations",
    },
    "C12": {
        "level": "model_checking",
        "text": "TLC checks on BSON.tla that the reference order Cmp is a total preorder consistent with the class order on all pairs and triples of a "
                "boundary-focused value pool and emits the full sign matrix; bsonkit.Compare is compared with it on every ordered pair (agreement with a "
                "total preorder on all pairs implies every law on every triple of the pool).",
        "note": "Trusted: exact decimal expansions of pool numbers computed with math/big in the harness; the pool is finite (boundary-focused), values outside it are not covered.",
        "technique": "TLA+ reference order checked by TLC; spec->code replay of the full sign matrix against bsonkit.Compare",
    },
}
