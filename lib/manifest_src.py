"""Source of MANIFEST.json (bin/mkmanifest). One entry per claimed property."""

HOOK_COMMITS = ["3ccfb0e", "8690cd2", "ca367a9", "6084310", "e583c88"]

NOT_APPLICABLE = {}

ENGINE_NOTE = ("Trusted: the tagged encoding of values and the observation of the engine state through the exported engine.Catalog() "
               "(documents, index configurations, Index.List()). Filters stay within what Query!MatchImpl models; $currentDate is excluded. "
               "Error classes are compared as error-or-success.")

CHECKS = {
    "C01": {
        "level": "model_checking",
        "text": "Every call of seeded random histories and of the targeted scenario families (failure grid, collision, change-log and index scenarios) is recorded "
                "from the real engine with the full state before and after; TLC evaluates the sequential reference model Database!Exec on the observed pre-state "
                "of every call and compares counts, ids, documents, error-or-success, the complete post-state of every collection and the change events "
                "(selection-dependent comparisons only inside the query / sort-key domains of DESIGN.md 8.2-8.3). In the other direction TLC enumerates every "
                "transition of the bounded model MCDatabase (GenDatabase.tla) and each one is replayed on a fresh real engine; MCDatabase's invariants are "
                "model checked.",
        "note": ENGINE_NOTE,
        "technique": "TLA+ reference model of the driver API (Database.tla): TLC evaluates it on traces recorded from the real engine (code->spec trace validation) and "
                     "enumerates the transitions of a bounded instance that are replayed on the real engine (spec->code); bounded model checking of the instance",
    },
    "C02": {
        "level": "model_checking",
        "text": "The k-th-of-n failure grid (n<=4, every k, six failure kinds, every entry point incl. ordered/unordered batches, replace, find-and-modify, upserts, "
                "index calls; each followed by probe writes) and random histories are recorded with full state dumps; TLC requires pre = post and no event for every "
                "failed single write and the per-item fold of Database!Exec for multi-item calls, and judges every index listing after every call.",
        "note": ENGINE_NOTE,
        "technique": "TLA+ reference model evaluated by TLC on recorded failure-grid traces (code->spec trace validation)",
    },
    "C03": {
        "level": "model_checking",
        "text": "Histories interleave a transactional session (start, CRUD, commit against an accepting or rejecting store, abort, end), a plain client and a snapshot "
                "taker one call at a time. TLC validates calls inside the transaction with Database!Exec on the working catalog and requires the committed catalog to stay "
                "byte-identical, requires a successful commit to publish exactly the working catalog and a failed commit / abort / end to publish nothing, requires plain "
                "writes to fail while the transaction is open, and requires every retained snapshot (read-only transaction, earlier catalog, cursor), re-dumped after every "
                "later step, to be identical. MCTxn checks SnapshotsImmutable, AllOrNothing and NoDirtyRead on Txn.tla. A second session runs whole transactions through WithTransaction (refused while the slot is held); writers parked behind a session transaction must start from what it published; snapshots are re-dumped across TTL passes.",
        "note": ENGINE_NOTE + " Calls are interleaved one at a time (property text); snapshots are re-dumped through the exported catalog structures.",
        "technique": "TLA+ transaction model (Txn.tla) checked by TLC; code->spec validation of recorded interleaved transaction histories with snapshot re-dumps",
    },
    "C04": {
        "level": "model_checking",
        "text": "Concurrent workers ($inc read-modify-writes, find-and-modify post-images, multi-document session transactions incl. aborted ones, inserts, deletes, "
                "racing unique updates, reads) run under the verif hooks with seeded yields at the lock hand-over windows; the hooks record under the engine mutex the "
                "linearization point of every call (catalog given to a read; catalog current at publish and catalog published for a write). TLC validates every call "
                "with Database!Exec at its linearization point and folds session transactions, i.e. replaying the committed writes in publication order reproduces "
                "every returned result and the final contents; the harness checks that publications form one chain and that no writer published on a catalog other "
                "than its base; a forced interleaving parks a writer between unlock and slot acquisition while another transaction commits; EngineProto is model "
                "checked for mutual exclusion, token conservation and deadlock freedom.",
        "note": ENGINE_NOTE + " Interleavings are explored at hook granularity (critical-section hand-over points); schedules are sampled (seeded yields) plus forced "
                "interleavings, not enumerated exhaustively on the real code. A controlled scheduler enumerates (depth-first, then at random) the interleavings of twelve small scenarios at the scheduling points (call starts and the hook points outside the engine mutex); every schedule is judged the same way.",
        "technique": "hook-recorded linearization points validated by TLC against the sequential TLA+ model; PlusCal engine protocol model checked by TLC; forced interleavings replayed on real goroutines",
    },
    "C05": {
        "level": "fault_enumeration",
        "text": "The system call sequence of every commit is recorded from the real binary with strace and becomes the program of CrashFS.tla, on which TLC explores every "
                "crash point x every permitted loss and every kill point (Load old or new; new once returned); a counterexample is materialised and given to the real "
                "FileStore.Load. On the real process every relevant system call of every commit is once a kill point (real Load must be the committed or in-flight state, "
                "a follow-up commit must succeed and reload) and once a failing call (commit reports the error, visible state stays, later commits work, file loads); the "
                "engine-level grid fails every Store call before/after the inner write in session and auto-commit mode.",
        "note": "Power loss is decided on CrashFS.tla's stated POSIX model instantiated with the recorded program, not on a disk; kill and failing calls are decided on the "
                "real process (strace injection, per-thread call counting; the writer pins its goroutine to the main thread).",
        "technique": "TLA+ crash model of the file system checked by TLC with the strace-recorded syscall program; kill/error injection at every recorded syscall of the real process",
    },
    "C06": {
        "level": "model_checking",
        "text": "Random histories run on a FileStore with close/reopen points; every reload is recorded (state, index definitions and listings, complete change log, "
                "BSON bytes of every document as opaque tokens) and judged by TLC as the identity; the history continues on the reopened engine and every later call "
                "is validated against Database!Exec, so constraints are enforced, not just listed. A typed-pool scenario covers every supported type at its edges in "
                "four positions with unique+partial, TTL(0), TTL(3600) and nested-path indexes; a retention scenario closes right after a trimming commit.",
        "note": ENGINE_NOTE + " BSON bytes are opaque tokens (codec fidelity is decided by token equality inside the trace validation, not by modelling BSON).",
        "technique": "TLA+ reference model with Reload as identity, evaluated by TLC on traces recorded across real close/reopen cycles",
    },
    "C07": {
        "level": "model_checking",
        "text": "Database!UniqueOK (the specification's own multikey/compound/partial key extractor) is evaluated by TLC on every observed state of collision "
                "scenarios, the failure grid and random histories, and each call's outcome is compared with Database!Exec in both directions (a duplicate must be "
                "rejected, a non-duplicate must not be rejected for uniqueness).",
        "note": ENGINE_NOTE,
        "technique": "TLA+ invariant UniqueOK and reference model evaluated by TLC on recorded traces (code->spec trace validation)",
    },
    "C08": {
        "level": "model_checking",
        "text": "On every recorded call TLC checks, on the observation itself, that the new events are exactly Database!Exec's (none for failed/no-op calls), that "
                "replaying them onto the contents before gives the contents after (Database!Replay), that update descriptions applied to the previous version give the "
                "new version (ApplyDescription) and that event ids strictly increase; the real Transaction.Clean is judged with Oplog!CleanRef/EnvelopeOK on all 18,900 "
                "configurations of the retention grid and on a real engine with small limits; TLC proves the Clean loop equals the property on the model.",
        "note": ENGINE_NOTE + " Retention ages keep >= 5 s from every cutoff; maxAge = 0 is outside the domain.",
        "technique": "TLA+ change-log and retention specification (Database.tla, Oplog.tla) evaluated by TLC on recorded traces and on the exhaustive retention grid",
    },
    "C15": {
        "level": "model_checking",
        "text": "After every recorded call the listing of every index is judged by TLC with Database!IndexListingOK (exactly the documents of the partial domain, "
                "once each, in key order), the _id_ index must be present, and index definitions must equal Database!Exec's (equal re-creation is a no-op, a "
                "conflicting one fails, drops spare _id_); the position index of every document set is checked by the harness.",
        "note": ENGINE_NOTE + " Index.List() hides duplicate entries of one document.",
        "technique": "TLA+ invariant IndexListingOK and reference model evaluated by TLC on recorded traces (code->spec trace validation)",
    },
    "C16": {
        "level": "model_checking",
        "text": "EngineProto.tla (PlusCal: engine mutex, session mutex, writer token, engine transaction, session start reservation, Begin/Commit/Abort/Close and the "
                "session calls with store failures and cancelled waits) is model checked exhaustively for 2 actors x 2 calls (1.34 M states with the stream and session-end actions): token conservation, never "
                "'semaphore full', transaction implies held token, deadlock freedom; its deadlock counterexample for lungo's former lock order is replayed on real "
                "goroutines as a forced interleaving. Fault scenarios (short contexts, failing stores, session commit/abort/end, panicking callbacks, sessions ended "
                "while StartTransaction waits, collection operations with a session context racing AbortTransaction, streams, Close at random points) run under the "
                "hooks with seeded yields; TLC validates the hook events (taken under the engine mutex, token hand-over events from the semaphore) against the writer-"
                "slot protocol; after every scenario a probe write with a deadline must succeed (closed error after Close) and goroutines must return to baseline. The model also covers EndSession, Watch, Stream.next, Stream.Close and the closing of streams by Engine.Close (stream mutex), with the invariants ClosedUnregistered and DoneFree; a forced interleaving closes the engine while writers are queued.",
        "note": "Trusted: hook placement (add-only one-liners at the lock hand-over sites, build tag verif). Liveness on real code is a bounded-wait observation.",
        "technique": "PlusCal/TLA+ engine protocol model checked by TLC; hook-event traces validated by TLC against the protocol; forced interleavings and fault injection on real goroutines",
    },
    "C17": {
        "level": "model_checking",
        "text": "Every call kind of the driver API is made with nested bson.D/M/A/binary arguments and document-valued _ids; arguments must equal a deep copy afterwards; "
                "then every container position of every argument and of every value handed back (decoded documents, raw bytes, ids, distinct values, index specs) is "
                "overwritten in place; reads, argument overwrites and result overwrites are recorded as events with the complete state dump (BSON bytes of every "
                "document incl. the change log, index definitions and listings) before and after, which TLC requires to be identical (stuttering steps of the spec).",
        "note": ENGINE_NOTE + " The grid of call kinds is enumerated in the harness; ListSpecifications (documented as unimplemented) is not called.",
        "technique": "caller mutations as stuttering steps of the TLA+ model; TLC checks dump equality on mutate-and-redump traces recorded from the real API",
    },
    "C18": {
        "level": "model_checking",
        "text": "Position-coded content is uploaded through the real bucket (11 small chunk sizes, lengths around multiples of the chunk size, chunk size from bucket or "
                "upload options, random write partitions incl. empty writes, tracked mode with suspend/resume/claim, aborts, deletes with cleanup) and, in every run, around "
                "the 16 MiB upload buffer (seven chunk sizes with different remainders, lengths B-1 ... 2B+3); the harness compares bytes; the recorded Write/Suspend steps, "
                "stored chunk table, file record, leftovers and every step of Read/Skip/Seek scripts are judged by TLC with GridFS.tla at the real sizes; MCGridFS proves "
                "well-formedness of closed uploads for all small (B, C) and write partitions with suspends. File-catalog steps (upload under recurring names, download by name and revision or by id, rename, delete, drop) are judged with GridFS!CatStep: result, catalog afterwards, chunks exactly for the catalogued files.",
        "note": "Byte equality is observed in the harness; counts, positions, tables and records are judged by TLC. B is gridfs.UploadBufferSize (or the chunk size if larger).",
        "technique": "TLA+ model of the upload buffer/chunk arithmetic and of the reference reader checked by TLC; code->spec validation of recorded uploads and download scripts",
    },
    "C19": {
        "level": "model_checking",
        "text": "States with 0-2 TTL indexes (incl. expireAfterSeconds 0, a partial TTL index) next to other indexes are built through the driver API over a pool of 20 "
                "value shapes per TTL field with >= 30 min margins; the real Transaction.Expire is run and committed twice and the background loop once; TLC computes "
                "Database!ExpireDb (cutoff by exact decimal arithmetic) on the observed pre-state and compares post-state, delete events per namespace and index listings, "
                "and requires that a pass which removes nothing changes nothing.",
        "note": ENGINE_NOTE + " TTL fields are top-level; clock skew between the recorded time and lungo's reading is far below the 30 min margins.",
        "technique": "TLA+ specification of TTL expiry evaluated by TLC on recorded real expiry passes (code->spec trace validation)",
    },
    "C09": {
        "level": "model_checking",
        "text": "Sequential histories with streams on client/database/collection scope from the start positions now, resumeAfter, startAfter and startAt: every TryNext "
                "call is recorded with the complete change-log history, the retention boundary, the start position and the number delivered, and judged by TLC with "
                "Streams!NextOK (exactly the next event of the scope; invalidate after a drop of the scope; lost-position error when an undelivered event was discarded); "
                "retention under a slow consumer and uncommitted writes (rejecting store, engine-level abort) are covered. Concurrently, writers commit in bursts while "
                "consumers block in Next under the hooks with yields in the check/wait and broadcast windows; a watchdog requires every consumer to catch up within 3 s "
                "after each burst and to be woken by Close / cancellation within 1 s; delivered sequences are judged with Streams!DeliveredOK; MCStreams model checks "
                "no-skip / no-duplicate / in-order under interleaved commits and retention.",
        "note": "Trusted: the change-log history as read from engine.Catalog() after every step; liveness on real code is a bounded-wait observation.",
        "technique": "TLA+ stream specification checked by TLC; code->spec validation of recorded TryNext calls and of delivery records from concurrent runs with hook-injected yields",
    },
    "C10": {
        "level": "model_checking",
        "text": "Every generated (document, filter) case is evaluated by the real mongokit.Match and by TLC on Query!MatchImpl (all inputs) and, "
                "inside the core domain of DESIGN.md section 8, on the independent reference QueryRef!MatchRef; the logical laws are evaluated on real "
                "code over the whole law domain; TLC additionally proves MatchImpl = MatchRef and the laws on a bounded universe exhaustively. $jsonSchema is specified declaratively in Schema.tla (Valid over the keyword subset) and bound to bsonkit.Schema.Evaluate on random (schema, value) pairs and to {$jsonSchema} filters.",
        "note": "Trusted: the tagged encoding of values (harness/enc) and the string table; numbers in $mod/$bits/$size operands stay below 10^9 "
                "(TLC integers); $jsonSchema keyword subset only.",
        "technique": "TLA+ specification of query semantics (impl-shaped + declarative reference) checked by TLC; code->spec validation of recorded mongokit.Match evaluations",
    },
    "C11": {
        "level": "model_checking",
        "text": "Every generated (document, update, arrayFilters, upsert) case is applied by the real mongokit.Apply (and a third of them through "
                "InsertOne/UpdateOne/FindOne) and evaluated by TLC on Update!Apply, whose numeric rules are MongoDB's promotion table over exact decimal "
                "arithmetic; rejection, resulting document and recorded changes must agree; idempotence and modified-count are checked on real results; "
                "TLC proves idempotence / untouched fields / change-record soundness of the specification on a bounded universe.",
        "note": "Trusted: tagged encoding; doubles take part in arithmetic only where the exact result is representable; $bit operands < 2^30; $currentDate is an opaque token.",
        "technique": "TLA+ specification of update operators checked by TLC; code->spec validation of recorded mongokit.Apply evaluations",
    },
    "C13": {
        "level": "model_checking",
        "text": "Every recorded Find / FindOne / FindOneAnd* / Distinct call (sort, skip, limit options; collections of 0-6 and 13-20 tie-rich documents; a second "
                "differently sorted read and an unsorted read on the same collection) is judged by TLC against SortDistinct.tla: the lungo-shaped pipeline FindImpl, "
                "the declarative window-of-the-stable-sort FindRef, non-decreasing order and DistinctOK; TLC proves on a bounded universe that SortDocs is the stable "
                "non-decreasing permutation and that the pipeline equals the window for all skip/limit.",
        "note": "Trusted: tagged encoding; BSON!Cmp as value order (checked against bsonkit.Compare by C12). Sort keys that are empty arrays or fan out through arrays of "
                "sub-documents are outside the domain and only counted.",
        "technique": "TLA+ specification of sort/window/distinct checked by TLC; code->spec validation of recorded driver calls",
    },
    "C14": {
        "level": "model_checking",
        "text": "Every generated (document, projection) is evaluated by mongokit.Project and through Find/FindOne/FindOneAndUpdate with SetProjection; TLC judges the "
                "recorded result against Projection!Project and the sub-document relation inside the property's domain; non-mutation is observed on real code "
                "(byte comparison of the stored document after every projected read, repeated reads, mutation of returned values); TLC proves ProjSubDocument, "
                "ProjExact and ProjMixRejected on a bounded universe.",
        "note": "Trusted: tagged encoding. Paths with numeric components, paths through arrays and nested overlay paths are outside the domain (property text) and only counted.",
        "technique": "TLA+ specification of projection checked by TLC; code->spec validation of recorded mongokit.Project evaluations plus real-code non-mutation observation",
    },
    "C12": {
        "level": "model_checking",
        "text": "TLC checks on BSON.tla that the reference order Cmp is a total preorder consistent with the class order on all pairs and triples of a "
                "boundary-focused value pool and emits the full sign matrix; bsonkit.Compare is compared with it on every ordered pair (agreement with a "
                "total preorder on all pairs implies every law on every triple of the pool). Random pairs and triples of nested values and near-equal neighbours are compared by TLC with BSON!Cmp and the order laws are checked on the real results.",
        "note": "Trusted: exact decimal expansions of pool numbers computed with math/big in the harness; the pool is finite (boundary-focused), values outside it are not covered.",
        "technique": "TLA+ reference order checked by TLC; spec->code replay of the full sign matrix against bsonkit.Compare",
    },
    "C20": {
        "level": "exploration",
        "text": "spec/gen/Robust.tla is the grammar of oddly shaped but well-typed input; TLC enumerates every cell (59 call forms x 40 argument classes x 15 path shapes x "
                "4 or 10 document shapes) and the harness instantiates each cell and runs it under recover() against bsonkit/mongokit and, for a deterministic sample, "
                "through the driver API with probe writes and a per-call watchdog; panics seen by the generators of the other checks are collected as well. The only "
                "asserted outcome is: returns a result or an error, and the next call is served. A second grid enumerated by TLC covers every combination of call x upsert x match x returned image x projection x sort x session transaction.",
        "note": "The specification contributes the exhaustive grid, not an oracle. Documented panics ('lungo: ...') are excluded.",
        "technique": "TLA+ grammar enumerated exhaustively by TLC (spec->code), every cell replayed on the real code under recover()",
    },
}
