"""Shared steps of the checks that validate recorded evaluations of pure lungo
functions (TracePure.tla): run a driver, run TLC on its trace, collect BAD lines."""
import json
import os

import vcheck as V


def drive(c, binary, args, d, timeout=900):
    """Run a driver that writes d/trace.ndjson + d/strings.json and prints JSON
    lines; returns (summary, other records)."""
    res = V.run([binary] + args, timeout=timeout)
    summary, recs = None, []
    for line in res.stdout.splitlines():
        line = line.strip()
        if not line.startswith("{"):
            continue
        rec = json.loads(line)
        if rec.get("kind") == "summary":
            summary = rec
        else:
            recs.append(rec)
    if summary is None:
        raise V.Inconclusive("driver produced no summary: " + " ".join(args))
    return summary, recs


def validate(c, d, timeout=2400):
    """TLC over d/trace.ndjson with TracePure; returns (bads, lines, indom, outdom)."""
    V.stage_spec(d, V.PURE_SPECS + ["TracePure.tla", "TracePure.cfg"])
    r = V.tlc(d, "TracePure.tla", cfg="TracePure.cfg", timeout=timeout)
    c.add_tlc(r)
    if r.violated:
        raise V.Inconclusive("TracePure stopped: %s\n%s" % (r.violated, V.tail(r.output, 30)))
    lines = open(os.path.join(d, "trace.ndjson")).read().splitlines()
    indom = sum(1 for l in r.output.splitlines() if l.startswith('<<"INDOM"'))
    outdom = sum(1 for l in r.output.splitlines() if l.startswith('<<"OUTDOM"'))
    return V.tlc_prints(r.output, "BAD"), lines, indom, outdom


def mc(c, work, bins, module, strings, big, timeout=2400):
    d = os.path.join(work, "mc-" + module)
    os.makedirs(d)
    V.run([bins["strtab"], d] + strings)
    V.stage_spec(d, V.PURE_SPECS + [module + ".tla", module + ".cfg"])
    json.dump({"big": big}, open(os.path.join(d, "mcparams.json"), "w"))
    r = V.tlc(d, module + ".tla", cfg=module + ".cfg", timeout=timeout)
    c.add_tlc(r)
    c.cov["mc_states_" + module] = r.distinct
    if r.violated:
        raise V.Inconclusive("%s: the specification itself violates %s (model-level only; reproduce on real code before a verdict):\n%s"
                             % (module, r.violated, V.tail(r.output, 40)))
    return r
