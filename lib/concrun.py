"""Shared steps of the concurrency checks (C04, C16, C09): run harness cmd/conc or cmd/strm
with the verif hooks, validate the recorded trace with TraceDB, run the EngineProto model."""
import json
import os

import vcheck as V
import dbtrace


def record(c, binary, args, timeout=900):
    res = V.run([binary] + [str(a) for a in args], timeout=timeout)
    summary, recs = None, []
    for line in res.stdout.splitlines():
        line = line.strip()
        if not line.startswith("{"):
            continue
        rec = json.loads(line)
        if rec.get("kind") == "summary":
            summary = rec
        else:
            recs.append(rec)
    if summary is None:
        raise V.Inconclusive("driver produced no summary: %s" % " ".join(map(str, args)))
    return summary, recs


def engine_proto(c, work, fixed=True):
    d = os.path.join(work, "ep-%s" % fixed)
    os.makedirs(d)
    cfg = "MCEngineProto.cfg" if fixed else "MCEngineProtoBug.cfg"
    V.stage_spec(d, ["EngineProto.tla", cfg])
    r = V.tlc(d, "EngineProto.tla", cfg=cfg, timeout=1800)
    c.add_tlc(r)
    return r


def findings(c, recs, kinds, prop):
    for rec in recs:
        if rec.get("kind") in kinds:
            key = "%s:%s" % (rec["kind"], rec["what"][:70])
            c.violation(key, "%s (real code)%s" % (rec["what"], (": " + json.dumps({k: v for k, v in rec.items() if k not in ("kind", "what", "stacks")})[:300])),
                        rec)
