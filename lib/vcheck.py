"""Shared machinery for the lungo verification checks (python3, stdlib only).

Verdict policy (DESIGN.md section 1):
  exit 0  property held on everything explored (KNOWN-FINDING lines allowed)
  exit 1  a violation reproduced on the real code; prints
          "VIOLATION property=<id> replay=<path>"
  exit 2  the machinery itself failed (build, TLC, timeout, model drift):
          inconclusive, never a verdict
"""
import glob
import json
import os
import re
import shutil
import subprocess
import sys
import tempfile
import time

ROOT = os.path.dirname(os.path.dirname(os.path.abspath(__file__)))
REPO = os.environ.get("VERIF_REPO", "/repo")
HARNESS = os.path.join(ROOT, "harness")
EVIDENCE = os.environ.get("VERIF_EVIDENCE_DIR", os.path.join(ROOT, "evidence"))
SPEC = os.path.join(ROOT, "spec")
TLA_CP = "/opt/veriftools/tla/tla2tools.jar:/opt/veriftools/tla/CommunityModules-deps.jar"
NCPU = os.cpu_count() or 4
PURE_SPECS = ["BSON.tla", "Path.tla", "Schema.tla", "Query.tla", "QueryRef.tla", "BigDec.tla", "Update.tla", "SortDistinct.tla", "Projection.tla"]


class Inconclusive(Exception):
    pass


def log(*a):
    print(*a, file=sys.stderr, flush=True)


def seed():
    try:
        return int(os.environ.get("VERIF_SEED", "1"))
    except ValueError:
        return 1


# ---------------------------------------------------------------------------
# scratch space

_scratch = []


def scratch(prefix="verif-"):
    d = tempfile.mkdtemp(prefix=prefix)
    _scratch.append(d)
    return d


def cleanup():
    if os.environ.get("VERIF_KEEP"):
        log("scratch kept:", _scratch)
        return
    for d in _scratch:
        shutil.rmtree(d, ignore_errors=True)


# ---------------------------------------------------------------------------
# Go

def go_env():
    env = dict(os.environ)
    # GOSUMDB=off / GOTOOLCHAIN=local break the automatic switch to the cached
    # go1.25 toolchain that /repo's go.mod asks for
    env.pop("GOSUMDB", None)
    env.pop("GOTOOLCHAIN", None)
    env["GOFLAGS"] = "-mod=mod"
    env["GOPROXY"] = "off"
    env.setdefault("GOCACHE", os.path.expanduser("~/.cache/go-build"))
    return env


_go = None


def go_cmd():
    """Pick a go command that can build a go 1.25 module offline."""
    global _go
    if _go:
        return _go
    for cand, extra in (("go", {}), ("go1.26", {"GOTOOLCHAIN": "local"}), ("go1.26.8", {"GOTOOLCHAIN": "local"})):
        env = go_env()
        env.update(extra)
        try:
            out = subprocess.run([cand, "version"], cwd=HARNESS, env=env, capture_output=True, text=True, timeout=120)
        except (OSError, subprocess.TimeoutExpired):
            continue
        m = re.search(r"go(\d+)\.(\d+)", out.stdout)
        if out.returncode == 0 and m and (int(m.group(1)), int(m.group(2))) >= (1, 25):
            _go = (cand, env)
            return _go
    raise Inconclusive("no usable go toolchain")


def sync_gosum():
    src = os.path.join(REPO, "go.sum")
    dst = os.path.join(HARNESS, "go.sum")
    try:
        have = set(open(dst).read().splitlines()) if os.path.exists(dst) else set()
        want = open(src).read().splitlines()
        missing = [l for l in want if l not in have]
        if missing:
            with open(dst, "a") as f:
                f.write("\n".join(missing) + "\n")
    except OSError:
        pass


def _harness_for_repo():
    """Seeded-change runs (bin/mutant) point VERIF_REPO at a scratch worktree: build a copy of the harness module
    whose replace directive names that tree, so that /repo is left alone."""
    global HARNESS
    if REPO != "/repo" and not HARNESS.startswith(tempfile.gettempdir()):
        d = os.path.join(scratch("harness-"), "harness")
        shutil.copytree(HARNESS, d)
        gm = os.path.join(d, "go.mod")
        txt = open(gm).read().replace("=> /repo", "=> " + REPO)
        open(gm, "w").write(txt)
        HARNESS = d


def build(cmds, outdir, tags="verif", race=False):
    """Build harness commands against /repo's current working tree."""
    _harness_for_repo()
    sync_gosum()
    go, env = go_cmd()
    bins = {}
    args = [go, "build", "-tags", tags]
    if race:
        args.append("-race")
    t0 = time.time()
    for c in cmds:
        out = os.path.join(outdir, c + ("-race" if race else ""))
        p = subprocess.run(args + ["-o", out, "./cmd/" + c], cwd=HARNESS, env=env, capture_output=True, text=True)
        if p.returncode != 0:
            raise Inconclusive("go build %s failed:\n%s" % (c, p.stdout + p.stderr))
        bins[c] = out
    log("built %s in %.1fs" % (",".join(cmds), time.time() - t0))
    return bins


def run(cmd, cwd=None, timeout=600, env=None, ok_codes=(0,), stdin=None):
    try:
        p = subprocess.run(cmd, cwd=cwd, capture_output=True, text=True, timeout=timeout, env=env, input=stdin)
    except subprocess.TimeoutExpired:
        raise Inconclusive("timeout after %ss: %s" % (timeout, " ".join(cmd[:4])))
    if p.returncode not in ok_codes:
        raise Inconclusive("command failed (%d): %s\n%s\n%s" % (p.returncode, " ".join(cmd[:6]), p.stdout[-3000:], p.stderr[-3000:]))
    return p


# ---------------------------------------------------------------------------
# TLC

class TLCResult:
    def __init__(self):
        self.generated = 0
        self.distinct = 0
        self.depth = 0
        self.ok = False
        self.violated = None      # name of violated invariant / property
        self.output = ""
        self.wall = 0.0
        self.coverage = {}


def stage_spec(dst, modules):
    """Copy the named spec modules (searching spec/**) into dst."""
    for m in modules:
        hits = glob.glob(os.path.join(SPEC, "**", m), recursive=True)
        if not hits:
            raise Inconclusive("spec file not found: " + m)
        shutil.copy(hits[0], os.path.join(dst, os.path.basename(m)))


def tlc(cwd, module, cfg=None, workers=None, timeout=900, simulate=None, depth=None, tlc_seed=None,
        heap="12g", dfs=False, coverage=False, extra=()):
    """Run TLC in cwd. Raises Inconclusive on tool failure/timeouts; an
    invariant violation is reported in the result (model-level only)."""
    workers = workers or NCPU
    java = ["java", "-Xss512m", "-Xmx" + heap, "-XX:+UseParallelGC", "-Dfile.encoding=UTF-8"]
    if dfs:
        java.append("-Dtlc2.tool.queue.IStateQueue=StateDeque")
    meta = tempfile.mkdtemp(prefix="meta-", dir=cwd)
    java.append("-Djava.io.tmpdir=" + meta)   # TLC's own scratch directory stays inside the run's directory
    cmd = java + ["-cp", TLA_CP, "tlc2.TLC", "-workers", str(workers), "-metadir", meta, "-noGenerateSpecTE"]
    if cfg:
        cmd += ["-config", cfg]
    if simulate:
        cmd += ["-simulate", simulate]
    if depth:
        cmd += ["-depth", str(depth)]
    if tlc_seed is not None:
        cmd += ["-seed", str(tlc_seed)]
    if coverage:
        cmd += ["-coverage", "1"]
    cmd += list(extra) + [module]
    r = TLCResult()
    t0 = time.time()
    try:
        p = subprocess.run(cmd, cwd=cwd, capture_output=True, text=True, timeout=timeout)
    except subprocess.TimeoutExpired:
        subprocess.run(["pkill", "-f", meta], capture_output=True)
        raise Inconclusive("TLC timeout after %ss on %s" % (timeout, module))
    finally:
        shutil.rmtree(meta, ignore_errors=True)
    r.wall = time.time() - t0
    r.output = p.stdout + p.stderr
    m = re.search(r"(\d+) states generated, (\d+) distinct states found", r.output)
    if m:
        r.generated, r.distinct = int(m.group(1)), int(m.group(2))
    m = re.search(r"depth of the complete state graph search is (\d+)", r.output)
    if m:
        r.depth = int(m.group(1))
    m = re.search(r"Invariant (\S+) is violated", r.output)
    if m:
        r.violated = m.group(1)
    m2 = re.search(r"(?:Action property|Temporal properties|Temporal property|property) (\S+)? ?(?:is|were|was) violated", r.output)
    if m2 and not r.violated:
        r.violated = m2.group(1) or "property"
    if "Deadlock reached" in r.output and not r.violated:
        r.violated = "Deadlock"
    r.ok = ("Model checking completed. No error has been found." in r.output) or \
           (simulate is not None and p.returncode == 0 and "Error:" not in r.output)
    if not r.ok and not r.violated:
        errs = [l for l in r.output.splitlines() if ("Error" in l or "Exception" in l or "error:" in l) and not l.startswith('<<"')]
        raise Inconclusive("TLC failed on %s:\n%s\n%s" % (module, "\n".join(errs[:15]), tail(r.output, 12)))
    return r


def tail(s, n):
    return "\n".join(s.splitlines()[-n:])


def tlc_prints(output, tag):
    """Extract values printed by PrintT(<<tag, ToJson(x)>>)."""
    out = []
    for line in output.splitlines():
        line = line.strip()
        if line.startswith('<<"%s", "' % tag) and line.endswith('">>'):
            body = line[len('<<"%s", "' % tag):-3]
            body = body.replace('\\"', '"').replace("\\\\", "\\")
            try:
                out.append(json.loads(body))
            except ValueError:
                pass
    return out


# ---------------------------------------------------------------------------
# known findings

def known_findings(prop):
    path = os.path.join(ROOT, "known-findings.jsonl")
    out = []
    if os.path.exists(path):
        for line in open(path):
            line = line.strip()
            if not line or line.startswith("#"):
                continue
            try:
                rec = json.loads(line)
            except ValueError:
                continue
            if rec.get("property") == prop and rec.get("status", "open") == "open":
                out.append(rec)
    return out


# ---------------------------------------------------------------------------
# evidence, violations

class Check:
    """Bookkeeping for one run of one property check."""

    def __init__(self, prop, tier, level):
        self.prop = prop
        self.tier = tier
        self.level = level
        self.seed = seed()
        self.t0 = time.time()
        self.cov = {"samples": []}
        self.assumptions = []
        self.violations = []       # (what, replay dict)
        self.known_hits = {}       # finding key -> count
        self.known = known_findings(prop)
        self.notes = []

    # coverage counters ------------------------------------------------
    def add(self, key, n=1):
        self.cov[key] = self.cov.get(key, 0) + n

    def add_tlc(self, r):
        self.add("states", r.distinct)
        self.add("transitions", r.generated)
        self.add("tlc_runs", 1)

    def sample(self, s, limit=6):
        if len(self.cov["samples"]) < limit:
            self.cov["samples"].append(s)

    # findings -----------------------------------------------------------
    def match_known(self, key):
        """key: the finding-class string computed by the check for one failing
        case. Returns the known-finding record whose 'match' regex covers it."""
        for k in self.known:
            if re.search(k["match"], key):
                return k
        return None

    def violation(self, key, what, replay):
        k = self.match_known(key)
        if k is not None:
            self.known_hits.setdefault(k["id"], [k, 0])[1] += 1
            return False
        self.violations.append((key, what, replay))
        return True

    # finish ---------------------------------------------------------------
    def finish(self):
        wall = time.time() - self.t0
        for fid, (k, n) in sorted(self.known_hits.items()):
            print("KNOWN-FINDING: property=%s %s (%s; %d occurrence(s) this run)" % (self.prop, k["what"], fid, n))
        cov = dict(self.cov)
        if not cov["samples"]:
            cov["samples"] = ["(no sample recorded)"]
        cov.setdefault("states", 0)
        cov.setdefault("transitions", 0)
        cov.setdefault("traces_validated_against_impl", 0)
        cov["known_finding_hits"] = {fid: n for fid, (k, n) in self.known_hits.items()}
        ev = {
            "property_id": self.prop,
            "tier": self.tier,
            "seed": self.seed,
            "level": self.level,
            "coverage": cov,
            "assumptions": self.assumptions,
            "wall_s": round(wall, 2),
            "violations": len(self.violations),
        }
        os.makedirs(EVIDENCE, exist_ok=True)
        with open(os.path.join(EVIDENCE, self.prop + ".json"), "w") as f:
            json.dump(ev, f, indent=1, sort_keys=True)
            f.write("\n")
        code = 0
        if self.violations:
            d = os.path.join(ROOT, "replays", self.prop)
            os.makedirs(d, exist_ok=True)
            # one replay file per distinct key, at most 5 printed
            seen = set()
            for i, (key, what, replay) in enumerate(self.violations):
                if key in seen:
                    continue
                seen.add(key)
                if len(seen) > 5:
                    break
                name = "%s-%d-%d.json" % (self.tier, self.seed, len(seen))
                path = os.path.join(d, name)
                with open(path, "w") as f:
                    json.dump({"property": self.prop, "key": key, "what": what, "seed": self.seed, "tier": self.tier,
                               "replay": replay}, f, indent=1)
                    f.write("\n")
                print("VIOLATION property=%s replay=%s" % (self.prop, path))
                print("  " + what[:400])
            code = 1
        log("%s %s: %d violation(s), %d known-finding class(es), %.1fs" % (self.prop, self.tier, len(self.violations), len(self.known_hits), wall))
        return code


def main(prop, runner):
    """Entry point used by bin/check: runner(tier, replay) -> exit code."""
    import argparse
    ap = argparse.ArgumentParser()
    ap.add_argument("--tier", default=os.environ.get("VERIF_TIER", "quick"), choices=["quick", "thorough"])
    ap.add_argument("--replay", default=None)
    args = ap.parse_args(sys.argv[2:])
    if args.replay:
        # a replay file records seed and tier; all drivers are seeded and deterministic, so re-running the check
        # with them re-executes the recorded history / behaviour / schedule against the current tree
        try:
            rec = json.load(open(args.replay))
            os.environ["VERIF_SEED"] = str(rec.get("seed", seed()))
            args.tier = rec.get("tier", args.tier)
            log("replaying %s: seed %s, tier %s; recorded finding: %s" % (args.replay, rec.get("seed"), args.tier, str(rec.get("what"))[:300]))
        except (OSError, ValueError) as e:
            log("cannot read replay file: %s" % e)
            sys.exit(2)
    try:
        code = runner(args.tier, args.replay)
    except Inconclusive as e:
        log("INCONCLUSIVE %s: %s" % (prop, e))
        code = 2
    except Exception:            # a crash of the machinery is never a verdict
        import traceback
        log("INCONCLUSIVE %s: internal error\n%s" % (prop, traceback.format_exc()))
        code = 2
    finally:
        cleanup()
    sys.exit(code)
